"""C13 — results depend only on arguments: no hidden state, no operand mutation.

oracle(ctx)          history fuzzer on the real code.  A history is a list of operation records over a shared pool of
                     live objects (composite systems, states, POVMs, gates, measurement processes, ensembles,
                     distributions, variable arrays, tomography objects, datasets, option / loss / algorithm / estimator
                     objects).  After EVERY operation
                       (i)  the result is compared with the result of the same operation on freshly constructed
                            equal-valued arguments (fresh elemental + composite systems, fresh loss / algorithm objects);
                       (ii) byte-level snapshots of every pool object (arrays + public attributes; built cache tables
                            of composite systems against the pure tables) are compared with the snapshots taken before.
                     Failing histories are shrunk by delta debugging; the signature names the operation kind and what
                     changed / which re-used object carried the state.
correspondence(ctx)  QModel.C13 state machines vs the real objects: cache built-masks and returned tables, loss values
                     after multi-dataset histories, installed projection of the algorithm object, Settings atol,
                     constructor eps, MProcess.calc_proj_eq_constraint_with_var incl. the argument array afterwards.
"""
import shim  # noqa: F401
import contextlib
import copy
import hashlib
import io
import itertools
import json
import os
import numpy as np
from scipy import sparse

from common import Driver, q, qlist, unqlist, allclose, close
import qobj
from quara.settings import Settings
from quara.objects import matrix_basis as mb
from quara.objects.composite_system import CompositeSystem
from quara.objects.elemental_system import ElementalSystem
from quara.objects.state import State
from quara.objects.povm import Povm
from quara.objects.gate import Gate
from quara.objects.mprocess import MProcess
from quara.objects.state_ensemble import StateEnsemble
from quara.objects.multinomial_distribution import MultinomialDistribution
from quara.objects import state as state_mod, povm as povm_mod, gate as gate_mod, mprocess as mprocess_mod
from quara.objects.operators import compose_qoperations, tensor_product
from quara.protocol.qtomography.standard.standard_qst import StandardQst
from quara.protocol.qtomography.standard.standard_povmt import StandardPovmt
from quara.protocol.qtomography.standard.standard_qpt import StandardQpt
from quara.protocol.qtomography.standard.standard_qmpt import StandardQmpt
from quara.protocol.qtomography.standard.linear_estimator import LinearEstimator
from quara.protocol.qtomography.standard.projected_linear_estimator import ProjectedLinearEstimator
from quara.protocol.qtomography.standard.loss_minimization_estimator import LossMinimizationEstimator
from quara.loss_function.weighted_probability_based_squared_error import (
    WeightedProbabilityBasedSquaredError, WeightedProbabilityBasedSquaredErrorOption)
from quara.loss_function.weighted_relative_entropy import WeightedRelativeEntropy, WeightedRelativeEntropyOption
from quara.loss_function.standard_qtomography_based_weighted_probability_based_squared_error import (
    StandardQTomographyBasedWeightedProbabilityBasedSquaredError,
    StandardQTomographyBasedWeightedProbabilityBasedSquaredErrorOption)
from quara.loss_function.standard_qtomography_based_weighted_relative_entropy import (
    StandardQTomographyBasedWeightedRelativeEntropy, StandardQTomographyBasedWeightedRelativeEntropyOption)
from quara.minimization_algorithm.projected_gradient_descent_backtracking import (
    ProjectedGradientDescentBacktracking, ProjectedGradientDescentBacktrackingOption)

ATOL0 = 1e-13
FLAGS = ("is_physicality_required", "is_estimation_object", "on_para_eq_constraint", "on_algo_eq_constraint",
         "on_algo_ineq_constraint", "mode_proj_order", "eps_proj_physical", "eps_truncate_imaginary_part")
CACHE_ATTRS = ["_basis_basisconjugate", "_dict_from_hs_to_choi", "_dict_from_choi_to_hs", "_basis_T_sparse",
               "_basisconjugate_sparse", "_basisconjugate_basis_sparse", "_basis_basisconjugate_T_sparse",
               "_basis_basisconjugate_T_sparse_from_1", "_basishermitian_basis_T_from_1"]
CACHE_GET = [lambda c: c.basis_basisconjugate(0) is None or c._basis_basisconjugate,
             lambda c: c.dict_from_hs_to_choi, lambda c: c.dict_from_choi_to_hs, lambda c: c.basis_T_sparse,
             lambda c: c.basisconjugate_sparse, lambda c: c.basisconjugate_basis_sparse,
             lambda c: c.basis_basisconjugate_T_sparse, lambda c: c.basis_basisconjugate_T_sparse_from_1,
             lambda c: c.basishermitian_basis_T_from_1]
CACHE_DEL = [None, "delete_dict_from_hs_to_choi", "delete_dict_from_choi_to_hs", "delete_basis_T_sparse",
             "delete_basisconjugate_sparse", "delete_basisconjugate_basis_sparse", "delete_basis_basisconjugate_T_sparse",
             "delete_basis_basisconjugate_T_sparse_from_1", "delete_basishermitian_basis_T_from_1"]
LOSSES = {
    "WSE": (WeightedProbabilityBasedSquaredError, WeightedProbabilityBasedSquaredErrorOption,
            ["identity", "custom", "inverse_sample_covariance", "inverse_unbiased_covariance"]),
    "FWSE": (StandardQTomographyBasedWeightedProbabilityBasedSquaredError,
             StandardQTomographyBasedWeightedProbabilityBasedSquaredErrorOption,
             ["identity", "custom", "inverse_sample_covariance", "inverse_unbiased_covariance"]),
    "WRE": (WeightedRelativeEntropy, WeightedRelativeEntropyOption, ["identity", "custom"]),
    "FWRE": (StandardQTomographyBasedWeightedRelativeEntropy, StandardQTomographyBasedWeightedRelativeEntropyOption,
             ["identity", "custom"]),
}
WEIGHTED = ("custom", "inverse_sample_covariance", "inverse_unbiased_covariance")



LEAN_EXTRA_SOURCES = ("C13Gen.lean",)
LEAN_EXTRA_TARGETS = ("QGen.C13",)


def translate(ctx):
    """regenerate lean/QGen/C13.lean from /repo's sources (c13_translate.py); QProps/C13.lean proves the discipline the model
    assumes about the regenerated tables"""
    import c13_translate
    return c13_translate.translate()


# ----------------------------------------------------------------------------- values: normalise / compare / digest
def norm(x, W=None):
    """observable value of anything an operation can return, as a nested structure of tagged tuples"""
    if isinstance(x, np.ndarray):
        return ("arr", x.dtype.kind, tuple(x.shape), np.array(x, copy=True))
    if sparse.issparse(x):
        return ("sp", tuple(x.shape), np.array(x.toarray(), copy=True))
    if isinstance(x, (bool, np.bool_)):
        return ("bool", bool(x))
    if isinstance(x, (int, np.integer)):
        return ("int", int(x))
    if isinstance(x, (float, np.floating)):
        return ("num", float(x))
    if isinstance(x, (complex, np.complexfloating)):
        return ("cnum", complex(x))
    if x is None or isinstance(x, str):
        return ("lit", x)
    if isinstance(x, (list, tuple)):
        return ("seq", tuple(norm(y, W) for y in x))
    if isinstance(x, dict):
        return ("map", tuple((repr(k), norm(v, W)) for k, v in sorted(x.items(), key=lambda kv: repr(kv[0]))))
    if isinstance(x, (State, Povm, Gate, MProcess, StateEnsemble, MultinomialDistribution)):
        return ("obj", norm(spec_of(x, W, with_csys=False), W))
    if isinstance(x, (mb.MatrixBasis,)):
        return ("basis", tuple(norm(b, W) for b in x.basis))
    if hasattr(x, "estimated_var_sequence"):
        return ("est", norm(list(x.estimated_var_sequence), W))
    if isinstance(x, BaseException):
        return ("exc", type(x).__name__)
    if isinstance(x, np.random.Generator):
        return ("lit", "generator")
    return ("repr", type(x).__name__)


def same(a, b, tol=1e-10):
    if a[0] != b[0]:
        return False
    t = a[0]
    if t == "arr":
        return a[1] == b[1] and a[2] == b[2] and _close_arr(a[3], b[3], tol)
    if t == "sp":
        return a[1] == b[1] and _close_arr(a[2], b[2], tol)
    if t in ("num", "cnum"):
        x, y = a[1], b[1]
        if x != x or y != y:
            return (x != x) == (y != y)
        return abs(x - y) <= tol * max(1.0, abs(x), abs(y))
    if t in ("seq", "basis"):
        return len(a[1]) == len(b[1]) and all(same(x, y, tol) for x, y in zip(a[1], b[1]))
    if t == "map":
        return len(a[1]) == len(b[1]) and all(k1 == k2 and same(v1, v2, tol) for (k1, v1), (k2, v2) in zip(a[1], b[1]))
    if t in ("obj", "est"):
        return same(a[1], b[1], tol)
    return a[1] == b[1]


def _close_arr(x, y, tol):
    if x.shape != y.shape:
        return False
    if x.size == 0:
        return True
    if x.dtype.kind in "OUS":
        return bool(np.all(x == y))
    scale = max(1.0, float(np.nanmax(np.abs(x))) if np.isfinite(x).any() else 1.0)
    return bool(np.allclose(x, y, rtol=0.0, atol=tol * scale, equal_nan=True))


def digest(n):
    h = hashlib.sha1()

    def go(n):
        h.update(n[0].encode())
        t = n[0]
        if t == "arr":
            h.update(repr((n[1], n[2])).encode()); h.update(np.ascontiguousarray(n[3]).tobytes())
        elif t == "sp":
            h.update(repr(n[1]).encode()); h.update(np.ascontiguousarray(n[2]).tobytes())
        elif t in ("seq", "basis"):
            h.update(str(len(n[1])).encode())
            for y in n[1]:
                go(y)
        elif t == "map":
            for k, v in n[1]:
                h.update(k.encode()); go(v)
        elif t in ("obj", "est"):
            go(n[1])
        else:
            h.update(repr(n[1]).encode())
    go(n)
    return h.hexdigest()


def brief(n, depth=0):
    """short printable form of a normalised value"""
    t = n[0]
    if t == "arr":
        return f"array{n[2]} {np.round(n[3].ravel()[:6], 6).tolist()}"
    if t == "sp":
        return f"sparse{n[1]}"
    if t in ("seq", "basis"):
        return "[" + ", ".join(brief(y, depth + 1) for y in n[1][:3]) + (" …" if len(n[1]) > 3 else "") + "]"
    if t == "map":
        return f"dict({len(n[1])})"
    if t in ("obj", "est"):
        return t + ":" + brief(n[1], depth + 1)
    return repr(n[1])


# ----------------------------------------------------------------------------- specs: equal-valued reconstruction
def flags_of(o):
    return {f: getattr(o, f) for f in FLAGS}


def spec_of(o, W=None, with_csys=True):
    """value description of a live object (arrays are copies)"""
    if isinstance(o, State):
        s = {"kind": "state", "arr": np.array(o.vec, copy=True), "flags": flags_of(o)}
    elif isinstance(o, Povm):
        s = {"kind": "povm", "arrs": [np.array(v, copy=True) for v in o.vecs], "flags": flags_of(o),
             "nlo": list(o.nums_local_outcomes)}
    elif isinstance(o, Gate):
        s = {"kind": "gate", "arr": np.array(o.hs, copy=True), "flags": flags_of(o)}
    elif isinstance(o, MProcess):
        s = {"kind": "mprocess", "arrs": [np.array(h, copy=True) for h in o.hss], "flags": flags_of(o),
             "shape": tuple(o.shape), "mode_sampling": o.mode_sampling, "eps_zero": float(o.eps_zero)}
    elif isinstance(o, StateEnsemble):
        return {"kind": "ensemble", "states": [spec_of(s, W, with_csys) for s in o.states],
                "dist": spec_of(o.prob_dist, W), "eps_zero": float(o.eps_zero)}
    elif isinstance(o, MultinomialDistribution):
        return {"kind": "dist", "ps": np.array(o.ps, copy=True), "shape": tuple(o.shape),
                "eps_zero": o.eps_zero}
    else:
        raise TypeError(type(o))
    if with_csys and W is not None:
        s["csys"] = W.csys_id(o.composite_system)
    return s


def build_qop(s, csys_of, revalidate=True):
    k = s["kind"]
    if k == "dist":
        return MultinomialDistribution(s["ps"].copy(), shape=tuple(s["shape"]), eps_zero=s["eps_zero"])
    if k == "ensemble":
        return StateEnsemble([build_qop(x, csys_of, revalidate) for x in s["states"]], build_qop(s["dist"], csys_of),
                             eps_zero=s["eps_zero"])
    c = csys_of(s["csys"])
    fl = dict(s["flags"])
    if not revalidate and fl.get("is_physicality_required"):
        # the live object passed its constructor's physicality test at the tolerance of ITS construction (possibly inside a
        # tolerance window): an equal-valued counterpart is not re-validated at today's tolerance
        o = build_qop(dict(s, flags=dict(fl, is_physicality_required=False)), csys_of)
        o._is_physicality_required = True
        return o
    if k == "state":
        return State(c, s["arr"].copy(), **fl)
    if k == "povm":
        p = Povm(c, [v.copy() for v in s["arrs"]], **fl)
        if list(p.nums_local_outcomes) != list(s["nlo"]):
            p._nums_local_outcomes = list(s["nlo"])   # only settable the way operators.py does it
        return p
    if k == "gate":
        return Gate(c, s["arr"].copy(), **fl)
    if k == "mprocess":
        return MProcess(c, [h.copy() for h in s["arrs"]], shape=tuple(s["shape"]), mode_sampling=False,
                        eps_zero=s["eps_zero"], **fl)
    raise ValueError(k)


def build_basis(spec, live=None):
    """a slightly tilted / rescaled Pauli basis (dense MatrixBasis or SparseMatrixBasis); `live`: rebuild an equal-valued
    one from the arrays of that object"""
    if live is not None:
        mats = [np.array(b.toarray() if sparse.issparse(b) else b, dtype=np.complex128) for b in live.basis]
    else:
        mats = [np.array(b, dtype=np.complex128) for b in mb.get_normalized_pauli_basis().basis]
        k = spec["which"]
        mats[k] = mats[k] + spec["tilt"] * mats[1 + k % 3]
        mats[1 + (k + 1) % 3] = mats[1 + (k + 1) % 3] * (1 + spec["scale"])
    return mb.SparseMatrixBasis(mats) if spec["sparse"] else mb.MatrixBasis(mats)


def basis_for(dim):
    return mb.get_normalized_pauli_basis() if dim == 2 else mb.get_normalized_gell_mann_basis()


class Entry:
    __slots__ = ("id", "kind", "obj", "meta")

    def __init__(self, eid, kind, obj, meta=None):
        self.id, self.kind, self.obj, self.meta = eid, kind, obj, meta or {}


class World:
    """the shared pool of a history"""

    def __init__(self):
        self.e = {}
        self.csys_by_obj = {}
        self.fav = None
        self.accessor_results = set()
        self.last_derived = None
        self.last_deleted = None
        self.verdicts = []      # (verdict operation, object) pairs issued so far
        self.recent_atol = 0

    def add(self, eid, kind, obj, meta=None):
        self.e[eid] = Entry(eid, kind, obj, meta)
        if kind == "csys":
            self.csys_by_obj[id(obj)] = eid
        elif kind in ("state", "povm", "gate", "mprocess"):
            self.csys_id(obj.composite_system, hint=eid)
        elif kind == "ensemble":
            for s in obj.states:
                self.csys_id(s.composite_system, hint=eid)
        return self.e[eid]

    def csys_id(self, c, hint=None):
        k = self.csys_by_obj.get(id(c))
        if k is None:
            k = f"{hint or 'x'}.c{len(self.csys_by_obj)}"
            self.e[k] = Entry(k, "csys", c, {"derived": True})
            self.csys_by_obj[id(c)] = k
        return k

    def kinds(self, kind, pred=None):
        return [x for x in self.e.values() if x.kind == kind and (pred is None or pred(x))]


class Fresh:
    """freshly constructed equal-valued counterparts of pool entries (identity relations preserved)"""

    def __init__(self, W):
        self.W = W
        self.es = {}
        self.cs = {}
        self.objs = {}

    def esys(self, e):
        if id(e) not in self.es:
            self.es[id(e)] = ElementalSystem(e.name, basis_for(e.dim))
        return self.es[id(e)]

    def csys(self, cid):
        if cid not in self.cs:
            c = self.W.e[cid].obj
            self.cs[cid] = CompositeSystem([self.esys(e) for e in c.elemental_systems])
        return self.cs[cid]

    def get(self, eid):
        if eid in self.objs:
            return self.objs[eid]
        en = self.W.e[eid]
        k = en.kind
        if k == "csys":
            o = self.csys(eid)
        elif k in ("state", "povm", "gate", "mprocess", "ensemble", "dist"):
            o = build_qop(spec_of(en.obj, self.W), self.csys, revalidate=False)
        elif k == "array":
            o = np.array(en.obj, copy=True)
        elif k == "basis":
            o = build_basis(en.meta["spec"], live=en.obj)
        elif k == "closure":
            o = run_op({"op": "make_closure", "args": [en.meta["src"]], "p": {"which": en.meta["which"]}}, self.get, self.W, None)
        elif k == "data":
            o = [(int(n), np.array(p, copy=True)) for n, p in en.obj]
        elif k == "qt":
            o = build_qt(en.meta["spec"], lambda i: self.get(i), live=en.obj)
        elif k == "lopt":
            o = build_lopt(en.meta["spec"], en.obj)
        elif k == "aopt":
            o = build_aopt(en.meta["spec"], birth_atol=en.meta.get("birth_atol", ATOL0))
        elif k == "loss":
            o = LOSSES[en.meta["cls"]][0]()
        elif k == "algo":
            o = ProjectedGradientDescentBacktracking()
        elif k == "est":
            o = build_est(en.meta["spec"])
        else:
            raise ValueError(k)
        self.objs[eid] = o
        return o


def build_qt(spec, get, live=None):
    """`live`: the tomography object whose equal-valued counterpart is wanted (the tolerances its constructor captured
    from the global setting are arguments in effect)"""
    k = spec["qtkind"]
    kw = {}
    if live is not None:
        kw = {"eps_proj_physical": live._template_qoperation.eps_proj_physical,
              "eps_truncate_imaginary_part": live._template_qoperation.eps_truncate_imaginary_part}
    if k == "qst":
        return StandardQst([get(i) for i in spec["povms"]], on_para_eq_constraint=spec["on_para_eq"], schedules="all", **kw)
    if k == "povmt":
        return StandardPovmt([get(i) for i in spec["states"]], num_outcomes=spec["m"],
                             on_para_eq_constraint=spec["on_para_eq"], schedules="all", **kw)
    if k == "qpt":
        return StandardQpt([get(i) for i in spec["states"]], [get(i) for i in spec["povms"]],
                           on_para_eq_constraint=spec["on_para_eq"], schedules="all", **kw)
    if k == "qmpt":
        return StandardQmpt([get(i) for i in spec["states"]], [get(i) for i in spec["povms"]], num_outcomes=spec["m"],
                            on_para_eq_constraint=spec["on_para_eq"], schedules="all", **kw)
    raise ValueError(k)


def build_lopt(spec, live=None):
    cls = LOSSES[spec["cls"]][1]
    w = None
    if spec["mode"] == "custom":
        src = live.weights if live is not None else spec["weights"]
        if spec["cls"] in ("WRE", "FWRE"):
            w = [float(x) for x in src]          # one scalar weight per schedule
        else:
            w = [np.array(x, copy=True) for x in src]
    return cls(spec["mode"], weights=w)


def build_aopt(spec, birth_atol=None):
    """`spec['eps']` None = the constructor default (global tolerance / 10 *at construction*).  The equal-valued fresh
    counterpart of such an option is built with that value spelled out (`birth_atol`/10): the live object is never asked
    for `.eps` by the harness, so a lazily resolved default cannot be pinned by looking at it."""
    eps = spec.get("eps", 1e-9)
    if eps is None and birth_atol is not None:
        eps = birth_atol / 10.0
    return ProjectedGradientDescentBacktrackingOption(
        on_algo_eq_constraint=spec["eq"], on_algo_ineq_constraint=spec["ineq"], mode_proj_order=spec["order"],
        max_iteration_proj_physical=spec["maxit"], max_iteration_optimization=spec.get("maxopt", 14),
        mode_stopping_criterion_gradient_descent="sum_absolute_difference_variable",
        num_history_stopping_criterion_gradient_descent=1, eps=eps)


def build_est(spec):
    if spec["cls"] == "linear":
        return LinearEstimator()
    if spec["cls"] == "plinear":
        return ProjectedLinearEstimator(mode_proj_order=spec.get("order", "eq_ineq"))
    return LossMinimizationEstimator()


# ----------------------------------------------------------------------------- snapshots
def _upd(h, x):
    """feed the bytes of an arbitrary value into a hash (no copies; sparse matrices in canonical csr form)"""
    if isinstance(x, np.ndarray):
        h.update(b"A"); h.update(repr((x.dtype.str, x.shape)).encode()); h.update(np.ascontiguousarray(x).tobytes())
    elif sparse.issparse(x):
        m = x.tocsr()
        if not m.has_canonical_format:
            m = m.copy(); m.sum_duplicates()
        h.update(b"P"); h.update(repr(m.shape).encode())
        h.update(m.data.tobytes()); h.update(m.indices.astype(np.int64).tobytes()); h.update(m.indptr.astype(np.int64).tobytes())
    elif isinstance(x, (list, tuple)):
        h.update(b"L%d" % len(x))
        for y in x:
            _upd(h, y)
    elif isinstance(x, dict):
        h.update(b"D%d" % len(x))
        for k in sorted(x, key=repr):
            h.update(repr(k).encode()); _upd(h, x[k])
    elif isinstance(x, (State, Povm, Gate, MProcess)):
        h.update(type(x).__name__.encode())
        _upd(h, x.vec if isinstance(x, State) else list(x.vecs) if isinstance(x, Povm) else x.hs if isinstance(x, Gate) else list(x.hss))
        h.update(repr(tuple(getattr(x, f) for f in FLAGS)).encode())
        h.update(str(id(x.composite_system)).encode())
        if isinstance(x, Povm):
            h.update(repr(list(x.nums_local_outcomes)).encode())
        if isinstance(x, MProcess):
            h.update(repr((tuple(x.shape), x.mode_sampling, float(x.eps_zero))).encode())
    elif isinstance(x, StateEnsemble):
        h.update(b"E"); _upd(h, list(x.states)); _upd(h, x.prob_dist); h.update(repr(float(x.eps_zero)).encode())
    elif isinstance(x, MultinomialDistribution):
        h.update(b"M"); _upd(h, x.ps); h.update(repr((tuple(x.shape), x.eps_zero)).encode())
    else:
        h.update(repr(x).encode())


def fast_digest(x):
    h = hashlib.sha1()
    _upd(h, x)
    return h.hexdigest()


_PURE = {}


def pure_tables(dims):
    """digests of the nine tables of a pristine composite system with these elemental dimensions"""
    dims = tuple(dims)
    if dims not in _PURE:
        c = CompositeSystem([ElementalSystem(i, basis_for(d)) for i, d in enumerate(dims)])
        _PURE[dims] = [fast_digest(g(c)) for g in CACHE_GET]
    return _PURE[dims]


def snap_entry(en, W):
    k = en.kind
    o = en.obj
    if k == "csys":
        return fast_digest([list(o.basis().basis), [e.name for e in o.elemental_systems],
                            [e.dim for e in o.elemental_systems], o.is_orthonormal_hermitian_0thprop_identity,
                            [list(e.basis.basis) for e in o.elemental_systems], [id(e) for e in o.elemental_systems]])
    if k in ("state", "povm", "gate", "mprocess", "ensemble", "dist", "array"):
        return fast_digest(o)
    if k == "data":
        return fast_digest([(n, p) for n, p in o])
    if k == "basis":
        return fast_digest(list(o.basis))
    if k == "qt":
        ex = o.experiment
        return fast_digest([list(o.testers), o.calc_matA(), o.calc_vecB(), o.num_variables, o.num_schedules,
                            o.on_para_eq_constraint, o._template_qoperation, [list(map(tuple, s)) for s in ex.schedules],
                            list(ex.states), list(ex.povms), list(ex.gates), list(ex.mprocesses)])
    if k == "lopt":
        return fast_digest([o.mode_weight, o.weights, o.weight_name])
    if k == "aopt":
        # attributes are read from the instance dictionary: properties that resolve a default lazily are not triggered
        return fast_digest(sorted((k_, repr(v)) for k_, v in vars(o).items()))
    return None   # loss / algo / estimator objects are reconfigured by design


def cache_problems(en):
    """built cache tables must be the pure tables"""
    c = en.obj
    pure = pure_tables([e.dim for e in c.elemental_systems])
    bad = []
    for k, attr in enumerate(CACHE_ATTRS):
        t = getattr(c, attr)
        if t is not None and fast_digest(t) != pure[k]:
            bad.append(attr)
    return bad


def snapshot(W):
    return {eid: snap_entry(en, W) for eid, en in W.e.items()}


# ----------------------------------------------------------------------------- operations
class Raised:
    def __init__(self, e):
        self.e = e


class Repeat:
    """result of an operation that issues the same calls twice: both answers must coincide"""

    def __init__(self, first, second):
        self.first, self.second = first, second


def call(fn):
    try:
        return fn()
    except Exception as e:  # noqa
        return Raised(e)


def _seed(p):
    """integer seeds of the seeded queries: 0 (a legitimate seed) in a third of the cases"""
    return 0 if p["i"] % 3 == 0 else int(p["i"])


def pick(i, n):
    return i % n if n else 0


def _outcomes(o):
    return o.num_outcomes


def _cls(kind):
    return {"state": State, "povm": Povm, "gate": Gate, "mprocess": MProcess}[kind]


def _var_meta(o, W):
    return {"role": "var", "cls": {State: "state", Povm: "povm", Gate: "gate", MProcess: "mprocess"}[type(o)],
            "csys": W.csys_id(o.composite_system), "flag": bool(o.on_para_eq_constraint),
            "m": getattr(o, "num_outcomes", 1)}


QOPS = ("state", "povm", "gate", "mprocess")
# operations that re-configure re-used service objects: role -> operand position
STATEFUL = {"estimate": {"est": 0, "loss": 3, "lopt": 4, "algo": 5, "aopt": 6}, "loss_eval": {"loss": 0, "lopt": 2},
            "loss_repeat": {"loss": 0, "lopt": 2}, "loss_buffer": {"loss": 0, "lopt": 2},
            "algo_proj": {"algo": 0, "aopt": 2}}
# unary operations on q-operations: name -> (kinds, fn(o, p), result role)
UNARY = {
    "is_physical": (QOPS, lambda o, p: o.is_physical()),
    "is_eq_constraint_satisfied": (QOPS, lambda o, p: o.is_eq_constraint_satisfied()),
    "is_ineq_constraint_satisfied": (QOPS, lambda o, p: o.is_ineq_constraint_satisfied()),
    "to_var": (QOPS, lambda o, p: o.to_var(), "var"),
    "to_stacked_vector": (QOPS, lambda o, p: o.to_stacked_vector()),
    "calc_gradient": (QOPS, lambda o, p: o.calc_gradient(pick(p["i"], len(o.to_var())))),
    "generate_zero_obj": (QOPS, lambda o, p: o.generate_zero_obj()),
    "generate_origin_obj": (QOPS, lambda o, p: o.generate_origin_obj()),
    "copy": (QOPS, lambda o, p: o.copy()),
    "calc_proj_eq_constraint": (QOPS, lambda o, p: o.calc_proj_eq_constraint()),
    "calc_proj_ineq_constraint": (QOPS, lambda o, p: o.calc_proj_ineq_constraint()),
    "calc_proj_physical": (QOPS, lambda o, p: o.calc_proj_physical(max_iteration=30)),
    "func_calc_proj_eq_constraint": (QOPS, lambda o, p: o.func_calc_proj_eq_constraint(o.on_para_eq_constraint)(o.to_var())),
    "func_calc_proj_ineq_constraint": (QOPS, lambda o, p: o.func_calc_proj_ineq_constraint(o.on_para_eq_constraint)(o.to_var())),
    "scalar_mul": (QOPS, lambda o, p: o * (0.5 + (p["i"] % 7) / 4)),
    "scalar_rmul": (QOPS, lambda o, p: (0.25 + (p["i"] % 5) / 2) * o),
    "scalar_div": (QOPS, lambda o, p: o / (1.5 + (p["i"] % 3))),
    "convert_basis": (QOPS, lambda o, p: o.convert_basis(o.composite_system.comp_basis())),
    # State
    "to_density_matrix": (("state",), lambda o, p: o.to_density_matrix()),
    "to_density_matrix_with_sparsity": (("state",), lambda o, p: o.to_density_matrix_with_sparsity()),
    "is_trace_one": (("state",), lambda o, p: o.is_trace_one()),
    "is_hermitian": (("state", "povm"), lambda o, p: o.is_hermitian()),
    "is_positive_semidefinite": (("state", "povm"), lambda o, p: o.is_positive_semidefinite()),
    "calc_eigenvalues": (("state", "povm"), lambda o, p: o.calc_eigenvalues()),
    # Povm
    "matrices": (("povm",), lambda o, p: o.matrices()),
    "matrices_with_sparsity": (("povm",), lambda o, p: o.matrices_with_sparsity()),
    "matrix": (("povm",), lambda o, p: o.matrix(pick(p["i"], o.num_outcomes))),
    "matrix_with_sparsity": (("povm",), lambda o, p: o.matrix_with_sparsity(pick(p["i"], o.num_outcomes))),
    "povm_vec": (("povm",), lambda o, p: o.vec(pick(p["i"], o.num_outcomes))),
    "is_identity_sum": (("povm",), lambda o, p: o.is_identity_sum()),
    "generate_mprocess": (("povm",), lambda o, p: o.generate_mprocess(mode_backaction=p["i"] % 2)),
    # Gate
    "is_tp": (("gate",), lambda o, p: o.is_tp()),
    "is_cp": (("gate", "mprocess"), lambda o, p: o.is_cp()),
    "to_choi_matrix": (("gate",), lambda o, p: o.to_choi_matrix()),
    "to_choi_matrix_with_dict": (("gate",), lambda o, p: o.to_choi_matrix_with_dict()),
    "to_choi_matrix_with_sparsity": (("gate",), lambda o, p: o.to_choi_matrix_with_sparsity()),
    "to_kraus_matrices": (("gate",), lambda o, p: o.to_kraus_matrices()),
    "to_process_matrix": (("gate",), lambda o, p: o.to_process_matrix()),
    "convert_to_comp_basis": (("gate", "mprocess"), lambda o, p: o.convert_to_comp_basis()),
    "hs_choi_roundtrip": (("gate",), lambda o, p: gate_mod.to_hs_from_choi(
        o.composite_system, gate_mod.to_choi_from_hs(o.composite_system, o.hs))),
    "hs_choi_roundtrip_with_dict": (("gate",), lambda o, p: gate_mod.to_hs_from_choi_with_dict(
        o.composite_system, gate_mod.to_choi_from_hs_with_dict(o.composite_system, o.hs))),
    "hs_choi_roundtrip_with_sparsity": (("gate",), lambda o, p: gate_mod.to_hs_from_choi_with_sparsity(
        o.composite_system, gate_mod.to_choi_from_hs_with_sparsity(o.composite_system, o.hs))),
    # MProcess
    "mp_hs": (("mprocess",), lambda o, p: o.hs(pick(p["i"], o.num_outcomes))),
    "is_sum_tp": (("mprocess",), lambda o, p: o.is_sum_tp()),
    "mp_to_choi_matrix": (("mprocess",), lambda o, p: o.to_choi_matrix(pick(p["i"], o.num_outcomes))),
    "mp_to_choi_matrix_with_dict": (("mprocess",), lambda o, p: o.to_choi_matrix_with_dict(pick(p["i"], o.num_outcomes))),
    "mp_to_choi_matrix_with_sparsity": (("mprocess",), lambda o, p: o.to_choi_matrix_with_sparsity(pick(p["i"], o.num_outcomes))),
    "mp_to_kraus_matrices": (("mprocess",), lambda o, p: o.to_kraus_matrices(pick(p["i"], o.num_outcomes))),
    "mp_to_process_matrix": (("mprocess",), lambda o, p: o.to_process_matrix(pick(p["i"], o.num_outcomes))),
    "to_povm": (("mprocess",), lambda o, p: o.to_povm()),
    # ensembles / distributions
    "ensemble_state": (("ensemble",), lambda o, p: o.state(pick(p["i"], len(o.states)))),
    "dist_marginalize": (("dist",), lambda o, p: o.marginalize([pick(p["i"], len(o.shape))])),
    "dist_marginalize_all": (("dist",), lambda o, p: o.marginalize(
        list(range(len(o.shape))) if p["i"] % 2 else list(reversed(range(len(o.shape)))))),
    "dist_conditionalize": (("dist",), lambda o, p: o.conditionalize([0], [pick(p["i"], o.shape[0])])),
    "dist_getitem": (("dist",), lambda o, p: o[pick(p["i"], o.ps.size)]),
    "dist_sampling": (("dist",), lambda o, p: o.execute_random_sampling(3 + p["i"] % 5, 2, random_generator=_seed(p))),
}


VERDICTS = ["is_physical", "is_eq_constraint_satisfied", "is_ineq_constraint_satisfied", "is_trace_one", "is_hermitian",
            "is_positive_semidefinite", "is_identity_sum", "is_tp", "is_cp", "is_sum_tp"]


def var_op(name, cls, c, var, flag):
    """static routines taking (c_sys, var, on_para_eq_constraint)"""
    K = _cls(cls)
    if name == "proj_eq_with_var":
        return K.calc_proj_eq_constraint_with_var(c, var, on_para_eq_constraint=flag)
    if name == "proj_ineq_with_var":
        return K.calc_proj_ineq_constraint_with_var(c, var, on_para_eq_constraint=flag)
    if name == "var_to_stacked":
        return K.convert_var_to_stacked_vector(c, var, on_para_eq_constraint=flag)
    if name == "stacked_roundtrip":
        return K.convert_stacked_vector_to_var(
            c, K.convert_var_to_stacked_vector(c, var, on_para_eq_constraint=flag), on_para_eq_constraint=flag)
    raise ValueError(name)


VAR_OPS = ("proj_eq_with_var", "proj_ineq_with_var", "var_to_stacked", "stacked_roundtrip")
COMPOSE = {("gate", "gate"), ("gate", "mprocess"), ("mprocess", "gate"), ("mprocess", "mprocess"), ("gate", "state"),
           ("gate", "ensemble"), ("mprocess", "state"), ("mprocess", "ensemble"), ("povm", "gate"),
           ("povm", "mprocess"), ("povm", "state"), ("povm", "ensemble")}
TENSOR = {("state", "state"), ("gate", "gate"), ("povm", "povm"), ("mprocess", "mprocess"), ("gate", "mprocess"),
          ("mprocess", "gate")}
ARITH = ("add", "sub")


def run_op(op, get, W, atol_state):
    """execute one operation record; `get(eid)` yields the operand (shared pool or fresh copies)"""
    k = op["op"]
    p = op.get("p", {})
    a = op.get("args", [])
    if k in UNARY:
        o = get(a[0])
        return UNARY[k][1](o, p)
    if k in VAR_OPS:
        en = W.e[a[0]]
        return var_op(k, en.meta["cls"], get(en.meta["csys"]), get(a[0]), en.meta["flag"])
    if k == "generate_from_var":
        return get(a[0]).generate_from_var(get(a[1]))
    if k == "func_proj_physical_with_var":
        o = get(a[0])
        return o.func_calc_proj_physical_with_var(o.on_para_eq_constraint, max_iteration=30)(get(a[1]))
    if k == "compose":
        return compose_qoperations(get(a[0]), get(a[1]))
    if k == "tensor":
        return tensor_product(get(a[0]), get(a[1]))
    if k == "add":
        return get(a[0]) + get(a[1])
    if k == "sub":
        return get(a[0]) - get(a[1])
    if k == "cache_get":
        return CACHE_GET[p["k"]](get(a[0]))
    if k == "cache_delete":
        getattr(get(a[0]), CACHE_DEL[p["k"]])()
        return None
    if k == "csys_query":
        c = get(a[0])
        return [c.dim, c.num_e_sys, c.basis(), c.comp_basis(), c.get_basis(pick(p["i"], len(c.basis()))),
                c.basis_basisconjugate(pick(p["i"], len(c.basis()) ** 2)), c.is_orthonormal_hermitian_0thprop_identity]
    if k == "basis_query":
        b = get(a[0])
        return [b.is_normal(), b.is_orthogonal(), b.is_hermitian(), b.is_0thpropI(), b.is_trace_less(), b.dim, len(b)]
    if k == "basis_esys":
        es = ElementalSystem(7, get(a[0]))
        c = CompositeSystem([es])
        return [es.is_orthonormal_hermitian_0thprop_identity, es.is_hermitian, c.is_orthonormal_hermitian_0thprop_identity,
                c.is_basis_hermitian]
    if k == "prob_helper":
        from quara.utils import matrix_util
        v = get(a[0])
        which = p["i"] % 3
        if which == 0:
            return matrix_util.replace_prob_dist(v)
        if which == 1:
            return matrix_util.calc_covariance_mat(matrix_util.replace_prob_dist(v), 10 + p["i"] % 90)
        return matrix_util.calc_covariance_mat(v, 10 + p["i"] % 90)
    if k == "make_closure":
        o = get(a[0])
        which = p["which"]
        if which == "eq":
            return o.func_calc_proj_eq_constraint_with_var(o.on_para_eq_constraint)
        if which == "ineq":
            return o.func_calc_proj_ineq_constraint_with_var(o.on_para_eq_constraint)
        return o.func_calc_proj_physical_with_var(o.on_para_eq_constraint, max_iteration=20)
    if k == "call_closure":
        f, o = get(a[0]), get(a[1])
        v = np.array(o.to_var(), dtype=np.float64, copy=True)
        tiny = [2.7e-7, -3e-10, 4e-5, 3e-12]
        for j in range(min(3, v.size)):
            v[(p["i"] + 5 * j) % v.size] += tiny[(p["i"] + j) % 4]
        return f(v)
    if k == "derive_roundtrip":
        o = get(a[0])
        return o.generate_from_var(o.to_var() if p["i"] % 2 else o.to_var().copy())
    if k == "set_zero":
        get(a[0]).set_zero()
        return None
    if k == "loss_repeat":
        loss, qt, lopt, data = get(a[0]), get(a[1]), get(a[2]), get(a[3])
        loss.set_from_standard_qtomography_option_data(qt, lopt, data, True, False)
        var = np.array(p["var"][:qt.num_variables], dtype=np.float64)
        first = [loss.gradient(var), loss.value(var)]
        second = [loss.gradient(var), loss.value(var)]
        return Repeat(first, second)
    if k == "entropy_helper":
        from quara.math import entropy
        qv, pv = get(a[0]), get(a[1])
        n = min(len(qv), len(pv))
        qv, pv = qv[:n], pv[:n]        # views of the pool arrays: an in-place helper writes through them
        which = p["i"] % 4
        if which == 0:
            return entropy.round_varz_vector(qv, 1e-10)
        if which == 1:
            return entropy.relative_entropy_vector(qv, pv, is_valid_required=False)
        if which == 2:
            return entropy.relative_entropy(qv, pv, is_valid_required=False)
        return entropy.gradient_relative_entropy_2nd_vector(qv, pv, np.eye(n)[:, :2].copy(), is_valid_required=False)
    if k == "make_aopt":
        return build_aopt(p["spec"])
    if k == "atol_set":
        Settings.set_atol(p["atol"])
        return None
    if k == "atol_restore":
        Settings.set_atol(ATOL0)
        return None
    if k == "qt_query":
        qt = get(a[0])
        return [qt.calc_matA(), qt.calc_vecB(), qt.is_fullrank_matA(), qt.num_variables,
                qt.generate_empty_estimation_obj_with_setting_info()]
    if k == "qt_prob_dists":
        return get(a[0]).calc_prob_dists(get(a[1]))
    if k == "qt_empi_dists":
        return get(a[0]).generate_empi_dists(get(a[1]), 20 + p["i"] % 50, _seed(p))
    if k == "qt_empi_dists_sequence":
        return get(a[0]).generate_empi_dists_sequence(get(a[1]), [10 + p["i"] % 20, 40 + p["i"] % 50], _seed(p))
    if k == "loss_eval":
        loss, qt, lopt, data = get(a[0]), get(a[1]), get(a[2]), get(a[3])
        loss.set_from_standard_qtomography_option_data(qt, lopt, data, True, False)
        # the caller's own buffer when the pool has one of this size (the same ndarray object over many evaluations)
        var = get(a[4]) if len(a) > 4 else np.array(p["var"][:qt.num_variables], dtype=np.float64)
        return [loss.value(var), loss.gradient(var)]
    if k == "loss_buffer":
        # evaluate, overwrite the caller's buffer in place with other values, evaluate again: the second answers are those
        # of a loss object configured now and evaluated once on an equal-valued array
        loss, qt, lopt, data = get(a[0]), get(a[1]), get(a[2]), get(a[3])
        loss.set_from_standard_qtomography_option_data(qt, lopt, data, True, False)
        var = np.array(p["var"][:qt.num_variables], dtype=np.float64)
        loss.value(var); loss.gradient(var)
        var[:] = np.array(p["var"][qt.num_variables:2 * qt.num_variables], dtype=np.float64)
        second = [loss.value(var), loss.gradient(var)]
        ref = type(loss)()
        ref.set_from_standard_qtomography_option_data(qt, lopt, data, True, False)
        v2 = np.array(var, copy=True)
        return Repeat(second, [ref.value(v2), ref.gradient(v2)])
    if k == "algo_proj":
        algo, qt, aopt = get(a[0]), get(a[1]), get(a[2])
        algo.set_from_option(aopt)
        algo.set_constraint_from_standard_qt_and_option(qt, aopt)
        var = np.array(p["var"][:qt.num_variables], dtype=np.float64)
        return algo.func_proj(var)
    if k == "estimate":
        est, qt, data = get(a[0]), get(a[1]), get(a[2])
        if len(a) == 3:
            return est.calc_estimate(qt, data)
        loss, lopt, algo, aopt = get(a[3]), get(a[4]), get(a[5]), get(a[6])
        return est.calc_estimate(qt, data, loss, lopt, algo, aopt)
    raise ValueError(k)


def result_kind(r):
    for cls, k in ((State, "state"), (Povm, "povm"), (Gate, "gate"), (MProcess, "mprocess"), (StateEnsemble, "ensemble"),
                   (MultinomialDistribution, "dist")):
        if type(r) is cls:
            return k
    return None


# ----------------------------------------------------------------------------- initial pool of a history
def init_specs(g, tier_quick):
    """value-level description of the initial pool (deterministic in the generator state)"""
    S = []

    def add(eid, kind, spec):
        S.append((eid, kind, spec)); return eid
    add("cA", "csys", {"names": [0], "dims": [2]})
    add("cB", "csys", {"names": [1], "dims": [2]})
    cA = qobj.csys("qubit", (0,))
    fl = lambda **kw: dict(dict(is_physicality_required=True, is_estimation_object=True, on_para_eq_constraint=True,  # noqa
                                on_algo_eq_constraint=True, on_algo_ineq_constraint=True, mode_proj_order="eq_ineq",
                                eps_proj_physical=None, eps_truncate_imaginary_part=None), **kw)
    for sysid in ("cA", "cB"):
        n = 2 if sysid == "cA" else 1
        for j in range(n):
            phys = j == 0
            flag = bool(g.integers(0, 2))
            # non-physical variants: clearly off, or off by an amount between the tolerances the history switches to
            sc = [1.0, 2e-3, 2e-6, 2e-9, 2e-12][int(g.integers(0, 5))]
            rho = qobj.rand_density(g, 2, rank=int(g.integers(1, 3)))
            v = qobj.vec_of(cA, rho)
            if not phys:
                v = v + 0.05 * sc * g.standard_normal(4)
            add(f"s{sysid[1]}{j}", "state", {"kind": "state", "csys": sysid, "arr": v,
                                            "flags": fl(is_physicality_required=phys, on_para_eq_constraint=flag)})
            m = 2 + j
            mats = qobj.rand_povm_mats(g, 2, m)
            vs = [qobj.vec_of(cA, e) for e in mats]
            if not phys:
                vs = [x + 0.03 * sc * g.standard_normal(4) for x in vs]
            add(f"p{sysid[1]}{j}", "povm", {"kind": "povm", "csys": sysid, "arrs": vs, "nlo": [m],
                                           "flags": fl(is_physicality_required=phys, on_para_eq_constraint=bool(g.integers(0, 2)))})
            hs = qobj.hs_of_kraus(cA, qobj.rand_kraus(g, 2, 1, int(g.integers(1, 3)))[0])
            if not phys:
                hs = hs + 0.03 * sc * g.standard_normal((4, 4))
            add(f"g{sysid[1]}{j}", "gate", {"kind": "gate", "csys": sysid, "arr": hs,
                                           "flags": fl(is_physicality_required=phys, on_para_eq_constraint=bool(g.integers(0, 2)))})
            groups = qobj.rand_kraus(g, 2, m, 1)
            hss = [qobj.hs_of_kraus(cA, ks) for ks in groups]
            if not phys:
                hss = [h + 0.02 * sc * g.standard_normal((4, 4)) for h in hss]
            add(f"m{sysid[1]}{j}", "mprocess", {"kind": "mprocess", "csys": sysid, "arrs": hss, "shape": (m,),
                                               "mode_sampling": False, "eps_zero": 1e-8,
                                               "flags": fl(is_physicality_required=phys,
                                                           on_para_eq_constraint=(j == 0) if sysid == "cA" else bool(g.integers(0, 2)))})
    # a joint distribution of two variables and an ensemble of two states
    w = g.integers(1, 30, size=6).astype(float)
    add("dist0", "dist", {"kind": "dist", "ps": w / w.sum(), "shape": (2, 3), "eps_zero": 1e-8})
    # a distribution with a non-default zero threshold and an entry between that threshold and the default one
    w2 = g.integers(1, 30, size=4).astype(float)
    p2 = w2 / w2.sum() * (1 - 1e-10)
    p2[int(g.integers(0, 4))] += 1e-10
    p2 = np.append(p2[:3], [p2[3] - 1e-10, 1e-10, 0.0])
    add("dist1", "dist", {"kind": "dist", "ps": p2, "shape": (3, 2), "eps_zero": 1e-12})
    ens_states = []
    for _ in range(2):
        ens_states.append({"kind": "state", "csys": "cA", "arr": qobj.vec_of(cA, qobj.rand_density(g, 2)), "flags": fl()})
    pe = float(g.uniform(0.2, 0.8))
    add("ens0", "ensemble", {"kind": "ensemble", "states": ens_states,
                             "dist": {"kind": "dist", "ps": np.array([pe, 1 - pe]), "shape": (2,), "eps_zero": 1e-8},
                             "eps_zero": 1e-8})
    # perturbed variable arrays (inputs of the *_with_var routines); both flags for every type
    for cls, base in (("state", "sA0"), ("povm", "pA1"), ("gate", "gA0"), ("mprocess", "mA1"), ("mprocess", "mA0")):
        add(f"v_{base}", "array", {"from": base, "noise": 0.01 * g.standard_normal(64)})
    # testers (physical) and tomography objects
    for nm, mats in (("x", None), ("y", None), ("z", None)):
        pass
    paulis = {"x": np.array([[0, 1], [1, 0]]), "y": np.array([[0, -1j], [1j, 0]]), "z": np.array([[1, 0], [0, -1]])}
    for nm, P in paulis.items():
        es = [(np.eye(2) + P) / 2, (np.eye(2) - P) / 2]
        add(f"tp{nm}", "povm", {"kind": "povm", "csys": "cA", "arrs": [qobj.vec_of(cA, e) for e in es], "nlo": [2],
                                "flags": fl()})
        add(f"ts{nm}", "state", {"kind": "state", "csys": "cA", "arr": qobj.vec_of(cA, es[0]), "flags": fl()})
    add("tsz1", "state", {"kind": "state", "csys": "cA", "arr": qobj.vec_of(cA, (np.eye(2) - paulis["z"]) / 2), "flags": fl()})
    u = qobj.rand_unitary(g, 2)
    tilt = [u @ np.diag([1.0, 0]) @ u.conj().T, u @ np.diag([0, 1.0]) @ u.conj().T]
    add("tpt", "povm", {"kind": "povm", "csys": "cA", "arrs": [qobj.vec_of(cA, e) for e in tilt], "nlo": [2], "flags": fl()})
    add("tst", "state", {"kind": "state", "csys": "cA", "arr": qobj.vec_of(cA, qobj.rand_density(g, 2)), "flags": fl()})
    add("qst1", "qt", {"qtkind": "qst", "povms": ["tpx", "tpy", "tpz", "tpt"], "on_para_eq": True})
    add("qst0", "qt", {"qtkind": "qst", "povms": ["tpx", "tpy", "tpz"], "on_para_eq": False})
    # same testers as qst1 in another order: matrix A of the same shape with other entries
    add("qst1b", "qt", {"qtkind": "qst", "povms": ["tpz", "tpt", "tpx", "tpy"], "on_para_eq": True})
    add("povmt", "qt", {"qtkind": "povmt", "states": ["tsx", "tsy", "tsz", "tsz1", "tst"], "m": 2,
                        "on_para_eq": bool(g.integers(0, 2))})
    if not tier_quick:
        add("qpt", "qt", {"qtkind": "qpt", "states": ["tsx", "tsy", "tsz", "tsz1"], "povms": ["tpx", "tpy", "tpz"],
                          "on_para_eq": True})
    qts = [e for e, k, _ in S if k == "qt"]
    # measurement-process tomography: no datasets / estimates, only queries and data generation (its experiment object
    # receives the true object in a copy — the tomography object itself must stay as it was)
    add("qmpt", "qt", {"qtkind": "qmpt", "states": ["tsx", "tsy", "tsz", "tsz1"], "povms": ["tpx", "tpz"], "m": 2,
                       "on_para_eq": bool(g.integers(0, 2))})
    for qt in qts:
        for j in range(3):
            add(f"d_{qt}_{j}", "data", {"qt": qt, "n": int(g.choice([10, 50, 200])), "u": g.random(64), "zeros": j == 2})
    # probability vectors for the helper routines the weighting modes call (exact zeros and sub-threshold entries included)
    for j in range(3):
        m = int(g.integers(2, 5))
        w = g.integers(0 if j else 1, 20, size=m).astype(np.float64)
        if w.sum() == 0:
            w[0] = 1.0
        pv = w / w.sum()
        if j == 2:
            pv = pv * (1 - 1e-10); pv[int(g.integers(0, m))] += 1e-10
        add(f"prob{j}", "array", {"value": pv, "role": "prob"})
    # variable buffers a caller keeps and re-uses for loss evaluations (one per number of variables)
    for nv in (3, 4, 8, 12, 16):
        add(f"lv{nv}", "array", {"value": np.round(g.uniform(-0.6, 0.6, nv) * 1024) / 1024, "role": "lossvar"})
    # matrix bases that are orthonormal only approximately: the verdicts depend on the global tolerance
    for j, sparse_ in enumerate([False, True]):
        add(f"basis{j}", "basis", {"dim": 2, "sparse": sparse_, "tilt": float(g.choice([3e-5, 3e-8, 3e-10])),
                                   "scale": float(g.choice([3e-5, 3e-8, 3e-10])), "which": int(g.integers(1, 4))})
    # loss options: one per (class, mode); custom weights (random symmetric positive 2x2 matrices, one per schedule)
    # are per tomography object
    nsched = {"qst1": 4, "qst1b": 4, "qst0": 3, "povmt": 5, "qpt": 12}
    for cls, (_, _, modes) in LOSSES.items():
        for mode in modes:
            if mode == "custom":
                for qt in qts:
                    w = []
                    for _ in range(nsched[qt]):
                        a = g.standard_normal((2, 2))
                        w.append(float(g.uniform(0.5, 2.0)) if cls in ("WRE", "FWRE") else a @ a.T + 0.5 * np.eye(2))
                    add(f"lo_{cls}_custom@{qt}", "lopt", {"cls": cls, "mode": mode, "weights": w})
            else:
                add(f"lo_{cls}_{mode}", "lopt", {"cls": cls, "mode": mode, "weights": None})
        add(f"loss_{cls}", "loss", {"cls": cls})
    for j, (eq, ineq) in enumerate([(True, True), (True, False), (False, True), (False, False)]):
        add(f"ao{j}", "aopt", {"eq": eq, "ineq": ineq, "order": ["eq_ineq", "ineq_eq"][int(g.integers(0, 2))],
                               "maxit": [15, 10][int(g.integers(0, 2))], "eps": [None, 1e-9][int(g.integers(0, 2))]})
    add("ao_default", "aopt", {"eq": True, "ineq": True, "order": "eq_ineq", "maxit": 30, "eps": None})
    add("algo0", "algo", {})
    add("algo1", "algo", {})
    add("est_lin", "est", {"cls": "linear"})
    add("est_plin", "est", {"cls": "plinear"})
    add("est_loss", "est", {"cls": "loss"})
    return S


def build_world(S):
    W = World()
    for eid, kind, spec in S:
        if kind == "csys":
            c = CompositeSystem([ElementalSystem(n, basis_for(d)) for n, d in zip(spec["names"], spec["dims"])])
            W.add(eid, "csys", c, {"spec": spec})
        elif kind in ("state", "povm", "gate", "mprocess", "dist", "ensemble"):
            W.add(eid, kind, build_qop(spec, lambda cid: W.e[cid].obj))
        elif kind == "array" and "value" in spec:
            W.add(eid, "array", np.array(spec["value"], dtype=np.float64), {"role": spec["role"]})
        elif kind == "basis":
            W.add(eid, "basis", build_basis(spec), {"spec": spec})
        elif kind == "array":
            base = W.e[spec["from"]].obj
            v = np.array(base.to_var(), dtype=np.float64, copy=True)
            v = v + spec["noise"][:v.size]
            W.add(eid, "array", v, _var_meta(base, W))
        elif kind == "qt":
            W.add(eid, "qt", build_qt(spec, lambda i: W.e[i].obj), {"spec": spec})
        elif kind == "data":
            qt = W.e[spec["qt"]].obj
            W.add(eid, "data", make_data(qt, spec), {"qt": spec["qt"]})
        elif kind == "lopt":
            W.add(eid, "lopt", build_lopt(spec), {"spec": spec})
        elif kind == "aopt":
            W.add(eid, "aopt", build_aopt(spec), {"spec": spec, "birth_atol": Settings.get_atol()})
        elif kind == "loss":
            W.add(eid, "loss", LOSSES[spec["cls"]][0](), {"cls": spec["cls"]})
        elif kind == "algo":
            W.add(eid, "algo", ProjectedGradientDescentBacktracking(), {})
        elif kind == "est":
            W.add(eid, "est", build_est(spec), {"spec": spec})
    return W


def make_data(qt, spec):
    """empirical distributions (float64 arrays): strictly positive entries, or — with spec['zeros'] — some schedules in
    which an outcome was never observed (exact zero frequency: the data-dependent weighting modes replace it internally)"""
    out = []
    u = spec["u"]
    k = 0
    for s in range(qt.num_schedules):
        m = qt.num_outcomes(s)
        w = 0.15 + u[k:k + m]
        k += m
        cnt = np.maximum(1, np.round(w / w.sum() * spec["n"]))
        if spec.get("zeros") and u[40 + s] < 0.6:
            j = int(u[50 + s] * m) % m
            cnt[j] = 0
        out.append((int(cnt.sum()), np.array(cnt / cnt.sum(), dtype=np.float64)))
    return out


# ----------------------------------------------------------------------------- random histories
def _lopt_id(lcls, mode, qt):
    return f"lo_{lcls}_custom@{qt}" if mode == "custom" else f"lo_{lcls}_{mode}"


def gen_op(rng, W, step, atol_changed):
    """draw one applicable operation record from the current pool (uses only `rng`)"""
    e = W.e
    by = {}
    for en in e.values():
        by.setdefault(en.kind, []).append(en.id)
    for v in by.values():
        v.sort()
    qops = [i for k in QOPS for i in by.get(k, [])]
    r = rng.random()
    p = {"i": rng.randrange(1000)}
    if W.recent_atol > 0:
        # right after a tolerance change: repeat a verdict query made earlier in this history on the same object
        W.recent_atol -= 1
        cl = [c for c in by.get("closure", []) if e[c].meta["src"] in e]
        if cl and rng.random() < 0.35:
            # a projection closure created under another tolerance is called now
            c = rng.choice(cl)
            return {"op": "call_closure", "args": [c, e[c].meta["src"]], "p": p}
        prev = [v for v in W.verdicts if v[1] in e]
        if prev and rng.random() < 0.7:
            name, eid = rng.choice(prev)
            return {"op": name, "args": [eid], "p": p}
    if W.last_deleted is not None:
        # a dropped table is asked for again (alone, while its siblings of the same builder are still there)
        c, k = W.last_deleted
        W.last_deleted = None
        if c in e and rng.random() < 0.5:
            return {"op": "cache_get", "args": [c], "p": {"k": k}}
    if W.last_derived is not None and W.last_derived in e and rng.random() < 0.3:
        # objects derived via copy / generate_* / operators are used right away: a projection, conversion or query on them
        d = W.last_derived
        W.last_derived = None
        names = sorted(n for n in UNARY if e[d].kind in UNARY[n][0])
        pref = [n for n in names if n.startswith(("calc_proj", "func_calc_proj", "to_", "mp_to", "is_", "generate_"))]
        if names:
            return {"op": rng.choice(pref or names), "args": [d], "p": p}
    if r < 0.08:
        name = rng.choice(VERDICTS)
        cands = [i for k in UNARY[name][0] for i in by.get(k, [])]
        if cands:
            return {"op": name, "args": [rng.choice(cands)], "p": p}
    if r < 0.30:
        name = rng.choice(sorted(UNARY))
        kinds = UNARY[name][0]
        cands = [i for k in kinds for i in by.get(k, [])]
        if not cands:
            return None
        return {"op": name, "args": [rng.choice(cands)], "p": p}
    if r < 0.40:
        arrs = [i for i in by.get("array", []) if e[i].meta.get("role") == "var"]
        if not arrs:
            return None
        return {"op": rng.choice(VAR_OPS), "args": [rng.choice(arrs)], "p": p}
    if r < 0.45:
        arrs = [i for i in by.get("array", []) if e[i].meta.get("role") == "var"]
        rng.shuffle(arrs)
        for a in arrs:
            m = e[a].meta
            objs = [i for i in by.get(m["cls"], []) if W.csys_id(e[i].obj.composite_system) == m["csys"]
                    and e[i].obj.on_para_eq_constraint == m["flag"] and getattr(e[i].obj, "num_outcomes", 1) == m["m"]]
            if objs:
                return {"op": rng.choice(["generate_from_var", "func_proj_physical_with_var"]),
                        "args": [rng.choice(objs), a], "p": p}
        return None
    if r < 0.54:
        pairs = []
        for (k1, k2) in sorted(COMPOSE):
            for i in by.get(k1, []):
                for j in by.get(k2, []):
                    if k2 == "ensemble" or k1 == "ensemble" or e[i].obj.composite_system == e[j].obj.composite_system:
                        pairs.append((i, j))
        if not pairs:
            return None
        i, j = rng.choice(pairs)
        return {"op": "compose", "args": [i, j], "p": p}
    if r < 0.59:
        pairs = []
        for (k1, k2) in sorted(TENSOR):
            for i in by.get(k1, []):
                for j in by.get(k2, []):
                    c1, c2 = e[i].obj.composite_system, e[j].obj.composite_system
                    if c1.num_e_sys == 1 and c2.num_e_sys == 1 and c1[0].name != c2[0].name:
                        pairs.append((i, j))
        if not pairs:
            return None
        i, j = rng.choice(pairs)
        return {"op": "tensor", "args": [i, j], "p": p}
    if r < 0.62:
        i = rng.choice(qops)
        js = [j for j in by.get(e[i].kind, [])]
        return {"op": rng.choice(ARITH), "args": [i, rng.choice(js)], "p": p}
    if r < 0.645:
        bs = by.get("basis", [])
        if bs:
            return {"op": rng.choice(["basis_query", "basis_query", "basis_esys"]), "args": [rng.choice(bs)], "p": p}
    if r < 0.655:
        pr = [i for i in by.get("array", []) if e[i].meta.get("role") == "prob"]
        if pr:
            return {"op": "prob_helper", "args": [rng.choice(pr)], "p": p}
    if r < 0.72:
        cs = by.get("csys", [])
        c = rng.choice(cs)
        x = rng.random()
        if x < 0.45:
            return {"op": "cache_get", "args": [c], "p": {"k": rng.randrange(9)}}
        if x < 0.85:
            k = rng.randrange(1, 9)
            W.last_deleted = (c, k)
            return {"op": "cache_delete", "args": [c], "p": {"k": k}}
        return {"op": "csys_query", "args": [c], "p": p}
    if r < 0.75:
        if atol_changed:
            return {"op": "atol_restore", "args": [], "p": {}}
        return {"op": "atol_set", "args": [], "p": {"atol": rng.choice([1e-6, 1e-9, 1e-3, 1e-11])}}
    if r < 0.77:
        cl = [c for c in by.get("closure", []) if e[c].meta["src"] in e]
        if cl and rng.random() < 0.6:
            c = rng.choice(cl)
            return {"op": "call_closure", "args": [c, e[c].meta["src"]], "p": p}
        return {"op": "make_closure", "args": [rng.choice(qops)], "p": {"which": rng.choice(["ineq", "ineq", "eq", "physical"])}}
    if r < 0.785:
        x = rng.random()
        # objects created by an earlier operation of this history — except accessor results, which ARE members of a pool
        # object (`ensemble.state(i)` returns the stored state itself)
        derived = [i for i in qops if i.startswith("r") and i not in W.accessor_results]
        if x < 0.45 or not derived:
            return {"op": "derive_roundtrip", "args": [rng.choice(qops)], "p": p}
        return {"op": "set_zero", "args": [rng.choice(derived)], "p": p}
    if r < 0.79:
        pr = [i for i in by.get("array", []) if e[i].meta.get("role") == "prob"]
        if len(pr) >= 2:
            return {"op": "entropy_helper", "args": [rng.choice(pr), rng.choice(pr)], "p": p}
    if r < 0.80:
        return {"op": "make_aopt", "args": [], "p": {"spec": {"eq": rng.random() < 0.7, "ineq": rng.random() < 0.7,
                                                              "order": "eq_ineq", "maxit": 30, "eps": None}}}
    # tomography / estimation
    qts = by.get("qt", [])
    qt = rng.choice(qts)
    datas = [i for i in by.get("data", []) if e[i].meta["qt"] == qt]
    if not datas:
        # tomography objects without datasets (measurement-process tomography): queries and data generation only
        kind = {"qst": "state", "povmt": "povm", "qpt": "gate", "qmpt": "mprocess"}[e[qt].meta["spec"]["qtkind"]]
        objs = [i for i in by.get(kind, []) if e[i].obj.composite_system.num_e_sys == 1
                and e[i].obj.composite_system[0].name == 0 and e[i].obj.num_outcomes == e[qt].meta["spec"].get("m")]
        if not objs or rng.random() < 0.2:
            return {"op": "qt_query", "args": [qt], "p": p}
        return {"op": rng.choice(["qt_prob_dists", "qt_empi_dists", "qt_empi_dists", "qt_empi_dists_sequence"]),
                "args": [qt, rng.choice(objs)], "p": p}
    x = rng.random()
    var = [rng.uniform(-0.6, 0.6) for _ in range(24)]
    if rng.random() < 0.5:
        # components that lie between the tolerances the histories switch to (fluctuation truncation decides on them)
        for _ in range(3):
            var[rng.randrange(12)] = rng.choice([2.7e-7, -3e-10, 4e-5, 3e-12])
    if x < 0.08:
        return {"op": "qt_query", "args": [qt], "p": p}
    if x < 0.16:
        kind = {"qst": "state", "povmt": "povm", "qpt": "gate"}[e[qt].meta["spec"]["qtkind"]]
        objs = [i for i in by.get(kind, []) if e[i].obj.composite_system.num_e_sys == 1
                and e[i].obj.composite_system[0].name == 0
                and (kind != "povm" or e[i].obj.num_outcomes == e[qt].meta["spec"].get("m"))]
        if not objs:
            return None
        return {"op": rng.choice(["qt_prob_dists", "qt_empi_dists", "qt_empi_dists_sequence"]),
                "args": [qt, rng.choice(objs)], "p": p}
    if W.fav is None:
        W.fav = rng.choice(["WSE", "FWSE", "WSE", "FWSE", "WRE", "FWRE"])
    if x < 0.40:
        lcls = W.fav if rng.random() < 0.75 else rng.choice(sorted(LOSSES))
        mode = rng.choice(LOSSES[lcls][2])
        y = rng.random()
        if y < 0.35:
            return {"op": rng.choice(["loss_repeat", "loss_repeat", "loss_buffer"]),
                    "args": [f"loss_{lcls}", qt, _lopt_id(lcls, mode, qt), rng.choice(datas)],
                    "p": {"var": var, "mode": mode, "lcls": lcls}}
        nv = e[qt].obj.num_variables
        buf = [f"lv{nv}"] if f"lv{nv}" in e and y < 0.8 else []
        return {"op": "loss_eval", "args": [f"loss_{lcls}", qt, _lopt_id(lcls, mode, qt), rng.choice(datas)] + buf,
                "p": {"var": var, "mode": mode, "lcls": lcls}}
    if x < 0.55:
        return {"op": "algo_proj", "args": [rng.choice(by["algo"]), qt, rng.choice(by["aopt"])], "p": {"var": var}}
    if x < 0.70:
        return {"op": "estimate", "args": [rng.choice(["est_lin", "est_plin"]), qt, rng.choice(datas)], "p": {}}
    lcls = W.fav if rng.random() < 0.75 else rng.choice(sorted(LOSSES))
    mode = rng.choice(LOSSES[lcls][2])
    return {"op": "estimate", "args": ["est_loss", qt, rng.choice(datas), f"loss_{lcls}", _lopt_id(lcls, mode, qt),
                                       rng.choice(by["algo"]), rng.choice(by["aopt"])],
            "p": {"mode": mode, "lcls": lcls}}


# ----------------------------------------------------------------------------- executing a history with both checks
def exec_history(S, ops, gen=None, nops=0, stop_on_first=True, subst=None, on_case=None):
    """run `ops` (or draw `nops` operations with `gen`) on a pool built from S.
    Returns (ops actually run, list of problems).  A problem: dict(step, kind='result'|'mutation'|'cache'|'raises', …).
    subst: {step: {arg position: 'fresh'}} replaces operands of the shared-world call by new objects (diagnosis)."""
    with contextlib.redirect_stdout(io.StringIO()):     # the library prints iteration-limit warnings
        return _exec_history(S, ops, gen, nops, stop_on_first, subst, on_case)


def _exec_history(S, ops, gen, nops, stop_on_first, subst, on_case):
    Settings.set_atol(ATOL0)
    W = build_world(S)
    snaps = snapshot(W)
    problems = []
    ran = []
    cache_bad = set()
    atol_changed = False
    step = 0
    try:
        while True:
            if gen is not None:
                if step >= nops:
                    break
                op = None
                for _ in range(20):
                    op = gen_op(gen, W, step, atol_changed)
                    if op is not None:
                        break
                if op is None:
                    break
                op["rid"] = f"r{step}"
            else:
                if step >= len(ops):
                    break
                op = ops[step]
            args = op.get("args", [])
            if any(a not in W.e for a in args):
                step += 1           # operand vanished with a removed operation (delta debugging): skip
                continue
            ran.append(op)
            F = Fresh(W)
            # (i-a) the same operation on freshly constructed equal-valued arguments — evaluated first, on
            # value copies taken *before* the shared call
            np.random.seed(1000003 + 2 * step)      # nothing explored here may depend on the global numpy stream:
            rf = call(lambda: run_op(op, F.get, W, None))
            nf = norm(rf.e if isinstance(rf, Raised) else rf, None)
            sub = (subst or {}).get(step)
            if sub:
                F2 = Fresh(W)
                getter = lambda eid, F2=F2, sub=sub, args=args: (  # noqa
                    F2.get(eid) if any(args[i] == eid for i in sub) else W.e[eid].obj)
            else:
                getter = lambda eid: W.e[eid].obj  # noqa
            pre = {}
            if op["op"] in STATEFUL:
                # state of the re-used service objects *before* the call (their setters rebind attributes)
                pre = {i: copy.copy(W.e[args[i]].obj) for i in STATEFUL[op["op"]].values() if i < len(args)}
            np.random.seed(2000003 + 2 * step)      # … it is reseeded differently before the two evaluations
            rs = call(lambda: run_op(op, getter, W, None))
            if isinstance(rf, Repeat):
                rf = rf.first
                nf = norm(rf, None)
            if isinstance(rs, Repeat):
                if not same(norm(rs.first, None), norm(rs.second, None)):
                    problems.append({"step": step, "kind": "repeat", "op": op, "first": brief(norm(rs.first, None)),
                                     "second": brief(norm(rs.second, None))})
                rs = rs.first
            ns = norm(rs.e if isinstance(rs, Raised) else rs, None)
            if op["op"] == "atol_set":
                atol_changed = True
                W.recent_atol = 3
            if op["op"] == "atol_restore":
                atol_changed = False
                W.recent_atol = 2
            if (op["op"] in VERDICTS or op["op"] in ("basis_query", "basis_esys")) and (op["op"], args[0]) not in W.verdicts:
                W.verdicts.append((op["op"], args[0]))
            if on_case:
                on_case(op, ns)
            if not same(ns, nf):
                carriers = []
                for role, i in STATEFUL.get(op["op"], {}).items():
                    if i in pre and not sub:
                        # everything fresh except this one object in its pre-call state: does it alone reproduce the deviation?
                        F3 = Fresh(W)
                        g3 = lambda eid, F3=F3, i=i: (copy.copy(pre[i]) if eid == args[i] else F3.get(eid))  # noqa
                        r3 = call(lambda: run_op(op, g3, W, None))
                        if isinstance(r3, Repeat):
                            r3 = r3.first
                        if not same(norm(r3.e if isinstance(r3, Raised) else r3, None), nf):
                            carriers.append(role)
                problems.append({"step": step, "kind": "result", "op": op, "shared": brief(ns), "fresh": brief(nf),
                                 "raises": isinstance(rs, Raised) != isinstance(rf, Raised), "carriers": carriers})
            # register results as pool objects (live objects: they may alias their operands)
            if not isinstance(rs, Raised):
                rk = result_kind(rs)
                rid = op["rid"]
                if rk:
                    W.add(rid, rk, rs)
                    if op["op"] == "ensemble_state":
                        W.accessor_results.add(rid)
                    elif rk in QOPS:
                        W.last_derived = rid
                elif isinstance(rs, np.ndarray) and op["op"] in UNARY and len(UNARY[op["op"]]) > 2:
                    W.add(rid, "array", rs, _var_meta(W.e[args[0]].obj, W))
                elif isinstance(rs, np.ndarray) and op["op"] in ("proj_eq_with_var", "proj_ineq_with_var"):
                    W.add(rid, "array", rs, dict(W.e[args[0]].meta))
                elif op["op"] == "qt_empi_dists" and W.e[args[0]].meta["spec"]["qtkind"] != "qmpt":
                    W.add(rid, "data", rs, {"qt": args[0]})
                elif op["op"] == "make_closure":
                    W.add(rid, "closure", rs, {"src": args[0], "which": op["p"]["which"]})
                elif op["op"] == "make_aopt":
                    W.add(rid, "aopt", rs, {"spec": op["p"]["spec"], "birth_atol": Settings.get_atol()})
            # (ii) snapshots of every operand and every earlier-derived object
            new = snapshot(W)
            declared = set(args[:1]) if op["op"] == "set_zero" else set()     # in-place methods change their own object
            changed = [eid for eid, d in snaps.items() if new.get(eid) != d and eid not in declared]
            if changed:
                problems.append({"step": step, "kind": "mutation", "op": op,
                                 "changed": [(eid, W.e[eid].kind, eid in args) for eid in changed]})
            for en in W.kinds("csys"):
                bad = cache_problems(en)
                newbad = [t for t in bad if (en.id, t) not in cache_bad]
                cache_bad.update((en.id, t) for t in bad)
                if newbad:
                    problems.append({"step": step, "kind": "cache", "op": op, "tables": newbad})
            snaps = new
            step += 1
            if problems and stop_on_first:
                break
    finally:
        Settings.set_atol(ATOL0)
    return ran, problems, W


def kinds_of(op, W):
    return ",".join(W.e[a].kind if a in W.e else "?" for a in op.get("args", []))


def _flagsig(spec):
    return "+".join(n for n, v in (("eq", spec["eq"]), ("ineq", spec["ineq"])) if v) or "none"


def signature(S, ran, prob, W):
    """call site + what changed / which re-used object carried state"""
    op = prob["op"]
    name = op["op"]
    if prob["kind"] == "cache":
        return f"C13/cache/{name}/content:{'+'.join(prob['tables'])}"
    if prob["kind"] == "repeat":
        cls = type(W.e[op["args"][0]].obj).__name__
        return f"C13/repeat/{name}/{cls}/{op['p'].get('mode')}/identical-calls-differ"
    if prob["kind"] == "mutation":
        ops_ = [c for c in prob["changed"] if c[2]]
        prim = ops_[0] if ops_ else prob["changed"][0]
        role = "operand" if prim[2] else "derived"
        detail = ""
        if name in VAR_OPS:
            m = W.e[op["args"][0]].meta
            detail = f"/{m['cls']}/on_para_eq_constraint={m['flag']}"
        elif op.get("args"):
            detail = f"/{kinds_of(op, W)}"
        return f"C13/mutation/{name}{detail}/{role}:{prim[1]}"
    # result differs from the fresh evaluation
    if name in ("estimate", "loss_eval", "loss_repeat", "loss_buffer", "algo_proj"):
        carriers = prob.get("carriers", [])
        a = op["args"]
        pos = STATEFUL[name]
        prev = [o for o in ran[:-1] if o["op"] in ("estimate", "loss_eval", "loss_repeat", "loss_buffer", "algo_proj")]
        if "loss" in carriers or (not carriers and name in ("loss_eval", "loss_repeat", "loss_buffer")):
            lid = a[pos["loss"]]
            cls = type(W.e[lid].obj).__name__
            pm = [o["p"].get("mode") for o in prev if lid in o["args"]]
            after = "weighted" if any(m in WEIGHTED for m in pm) else "unweighted"
            return f"C13/reuse/loss/{cls}/{op['p'].get('mode')}-after-{after}-dataset"
        if "algo" in carriers or (not carriers and name == "algo_proj"):
            aid = a[pos["algo"]]
            cls = type(W.e[aid].obj).__name__
            ai = {"estimate": 6, "algo_proj": 2}[name]
            qi = 1
            cur = (W.e[a[ai]].meta["spec"], W.e[a[qi]].meta["spec"])
            firsts = [o for o in prev if aid in o["args"] and (o["op"] == "algo_proj" or len(o["args"]) > 3)]
            if firsts:
                f = firsts[0]
                fa = W.e[f["args"][{"estimate": 6, "algo_proj": 2}[f["op"]]]].meta["spec"]
                fq = W.e[f["args"][1]].meta["spec"]
                req_changed = (fa["eq"], fa["ineq"]) != (cur[0]["eq"], cur[0]["ineq"]) or \
                    (fq["qtkind"], fq["on_para_eq"], fq.get("m")) != (cur[1]["qtkind"], cur[1]["on_para_eq"], cur[1].get("m")) \
                    or ((fa["eq"] and fa["ineq"]) and (fa["order"], fa["maxit"]) != (cur[0]["order"], cur[0]["maxit"]))
                if req_changed:
                    return f"C13/reuse/algo/{cls}/func_proj-kept-from-first-call"
            return f"C13/reuse/algo/{cls}/same-request"
        for role in ("aopt", "lopt"):
            if role in carriers:
                return f"C13/reuse/option/{type(W.e[a[pos[role]]].obj).__name__}/state-kept-from-first-use"
        who = "+".join(carriers) if carriers else "unexplained"
        return f"C13/reuse/{name}/{who}"
    before = sorted({o["op"] for o in ran[:-1]})
    tag = "raises" if prob.get("raises") else "result"
    return f"C13/history/{name}/{kinds_of(op, W)}/{tag}-differs-after:{'+'.join(before) or 'nothing'}"


def ddmin(S, ops, same_failure):
    """delta debugging over the operation list (the failing operation stays last)"""
    last = ops[-1]
    body = ops[:-1]
    n = 2
    while len(body) >= 1:
        chunk = max(1, len(body) // n)
        reduced = False
        for i in range(0, len(body), chunk):
            cand = body[:i] + body[i + chunk:]
            if same_failure(cand + [last]):
                body = cand
                n = max(n - 1, 2)
                reduced = True
                break
        if not reduced:
            if chunk == 1:
                break
            n = min(len(body), n * 2)
    return body + [last]


def shrink(S, ran, prob):
    target = prob["op"]

    def fails(cand):
        r, pr, _ = exec_history(S, cand, stop_on_first=False)
        return any(x["kind"] == prob["kind"] and x["op"] is target for x in pr)
    ops = ran[:ran.index(target) + 1] if target in ran else ran
    try:
        ops = ddmin(S, ops, fails)
    except Exception:  # noqa  (shrinking must never hide the original failure)
        pass
    r, pr, W = exec_history(S, ops, stop_on_first=False)
    pr = [x for x in pr if x["op"] is target and x["kind"] == prob["kind"]] or pr
    return r, (pr[0] if pr else prob), W


def spec_json(S):
    def j(x):
        if isinstance(x, np.ndarray):
            return {"__nd__": x.tolist(), "dtype": str(x.dtype)}
        if isinstance(x, dict):
            return {k: j(v) for k, v in x.items()}
        if isinstance(x, (list, tuple)):
            return [j(v) for v in x]
        if isinstance(x, (np.floating, np.integer, np.bool_)):
            return x.item()
        return x
    return [[e, k, j(s)] for e, k, s in S]


def spec_unjson(J):
    def u(x):
        if isinstance(x, dict):
            if "__nd__" in x:
                return np.array(x["__nd__"], dtype=x["dtype"])
            return {k: u(v) for k, v in x.items()}
        if isinstance(x, list):
            return [u(v) for v in x]
        return x
    out = []
    for e, k, s in J:
        s = u(s)
        if k == "mprocess":
            s["shape"] = tuple(s["shape"])
        out.append((e, k, s))
    return out


def describe(prob, W):
    op = prob["op"]
    if prob["kind"] == "result":
        return (f"{op['op']}({kinds_of(op, W)}) after the history: {prob['shared']}  vs on fresh equal-valued "
                f"arguments: {prob['fresh']}")
    if prob["kind"] == "repeat":
        return (f"{op['op']}({kinds_of(op, W)}): value/gradient of one configured loss object, evaluated again (loss_repeat: "
                f"same calls; loss_buffer: after the caller overwrote its variable buffer, vs a new loss object): "
                f"{prob['first']}  then {prob['second']}")
    if prob["kind"] == "mutation":
        return f"{op['op']}({kinds_of(op, W)}) changed {[(e, k, 'operand' if o else 'other') for e, k, o in prob['changed']]}"
    return f"{op['op']}: built cache tables {prob['tables']} differ from the pure tables"


class _MiniCtx:
    """what a fuzzing worker needs of the check context (results are merged into the real one by the parent)"""

    def __init__(self, seed, quick):
        import common
        self.seed, self.quick = seed, quick
        self._c = common.Ctx("C13", "quick" if quick else "thorough", seed)
        self.cases, self.counts, self.viol = [], {}, []

    def npgen(self, salt):
        return self._c.npgen(salt)

    def case(self, canon, nontrivial=True, sample=None):
        self.cases.append((canon, nontrivial, sample if len(self.cases) < 6 else None))

    def count(self, k, n=1):
        self.counts[k] = self.counts.get(k, 0) + n

    def violate(self, sig, what, replay):
        self.viol.append((sig, what, replay))


def _fuzz_chunk(args):
    seed, quick, lo, hi, nops, salt = args
    m = _MiniCtx(seed, quick)
    _fuzz(m, range(lo, hi), nops, salt, set())
    return m.cases, m.counts, m.viol


def fuzz(ctx, nhist, nops, salt, seen, workers=1):
    """`nhist` random histories of `nops` operations; histories are independent (own seeds), so they can be spread over
    worker processes without changing what is explored"""
    if workers <= 1:
        return _fuzz(ctx, range(nhist), nops, salt, seen)
    import multiprocessing as mp
    step = max(1, nhist // (workers * 4))
    jobs = [(ctx.seed, ctx.quick, lo, min(nhist, lo + step), nops, salt) for lo in range(0, nhist, step)]
    with mp.get_context("fork").Pool(workers) as pool:
        for cases, counts, viol in pool.imap(_fuzz_chunk, jobs):
            for canon, nt, sample in cases:
                ctx.case(canon, nontrivial=nt, sample=sample)
            for k, v in counts.items():
                ctx.count(k, v)
            for sig, what, replay in viol:
                ctx.violate(sig, what, replay)


def _fuzz(ctx, hrange, nops, salt, seen):
    for h in hrange:
        g = ctx.npgen(f"{salt}-{h}")
        S = init_specs(g, ctx.quick)
        import random
        rng = random.Random(f"C13-{ctx.seed}-{salt}-{h}")
        counts = {}

        def on_case(op, ns):
            counts[op["op"]] = counts.get(op["op"], 0) + 1
            ctx.case((salt, h, op["rid"], op["op"], tuple(op.get("args", []))), nontrivial=ns[0] != "exc",
                     sample={"history": h, "op": op["op"], "args": op.get("args"), "result": brief(ns)})
        ran, probs, W = exec_history(S, None, gen=rng, nops=nops, stop_on_first=False, on_case=on_case)
        for k, v in counts.items():
            ctx.count("op " + (k if k not in UNARY else "unary:" + UNARY[k][0][0] + ("…" if len(UNARY[k][0]) > 1 else "")), v)
        done_ops = set()
        for prob in probs:
            if id(prob["op"]) in done_ops:
                continue
            done_ops.add(id(prob["op"]))
            sig0 = signature(S, ran[:ran.index(prob["op"]) + 1], prob, W)
            if sig0 in seen:
                continue
            r2, p2, W2 = shrink(S, ran, prob)
            sig = signature(S, r2, p2, W2)
            seen.add(sig0); seen.add(sig)
            ctx.violate(sig, describe(p2, W2) + f"  [minimal history: {[o['op'] for o in r2]}]",
                        {"kind": "history", "specs": spec_json(S), "ops": r2, "problem_kind": p2["kind"]})


# ----------------------------------------------------------------------------- fixed clauses
def basis_clause(ctx):
    """matrix bases cannot be modified; copies are independent of their originals"""
    for name, mk in (("MatrixBasis", lambda: mb.get_normalized_pauli_basis()),
                     ("MatrixBasis(gell-mann)", lambda: mb.get_normalized_gell_mann_basis()),
                     ("SparseMatrixBasis", lambda: qobj.csys("qubit").basis()),
                     ("SparseMatrixBasis(2 systems)", lambda: qobj.csys("qubit", (0, 1)).basis())):
        cls = name.split("(")[0]
        attempts = {
            "item-assignment": lambda b: b[1].__setitem__((0, 0), 5.0),
            "inplace-scale": lambda b: b[1].__imul__(2.0),
            "tuple-replace": lambda b: b.basis.__setitem__(0, None),
            "attribute-replace": lambda b: setattr(b, "basis", ()),
        }
        for how, f in attempts.items():
            b = mk()
            before = digest(("seq", tuple(norm(x) for x in b.basis)))
            try:
                f(b)
            except Exception:  # noqa  rejected, as the property demands
                pass
            after = digest(("seq", tuple(norm(x) for x in b.basis)))
            ctx.case(("basis", name, how), sample={"basis": name, "attempt": how, "modified": before != after})
            ctx.count("basis write attempts")
            if before != after:
                ctx.violate(f"C13/basis/{cls}/writable", f"{name}: {how} on an element of the basis was accepted and changed it",
                            {"kind": "basis", "basis": name, "how": how})
    g = ctx.npgen("copy")
    c = qobj.csys("qubit")
    objs = [qobj.rand_state(g, c), qobj.rand_povm(g, c, 3), qobj.rand_gate(g, c), qobj.rand_mprocess(g, c, 3)[0]]
    for o in objs:
        cp = o.copy()
        arrs = lambda x: [x.vec] if isinstance(x, State) else list(x.vecs) if isinstance(x, Povm) else [x.hs] if isinstance(x, Gate) else list(x.hss)  # noqa
        shares = any(np.shares_memory(a, b) for a in arrs(o) for b in arrs(cp))
        ctx.case(("copy", type(o).__name__))
        if shares or digest(norm(spec_of(o))) != digest(norm(spec_of(cp))) or cp.composite_system is not o.composite_system:
            ctx.violate(f"C13/copy/{type(o).__name__}/not-independent-equal", "copy shares memory with / differs from its original",
                        {"kind": "copy", "type": type(o).__name__})


def seq_setting(g, n_extra=1):
    """an over-determined 1-qubit state tomography (x, y, z and further two-outcome directions: the minimiser then depends
    on the weights) with three different datasets of different sizes"""
    c = qobj.csys("qubit")
    dirs = [np.array([1.0, 0, 0]), np.array([0, 1.0, 0]), np.array([0, 0, 1.0])]
    for _ in range(n_extra):
        v = g.standard_normal(3)
        dirs.append(v / np.linalg.norm(v))
    povms = [Povm(c, [np.hstack([1.0, n]) / np.sqrt(2), np.hstack([1.0, -n]) / np.sqrt(2)]) for n in dirs]
    para = bool(g.integers(0, 2))
    qt = StandardQst(povms, on_para_eq_constraint=para, schedules="all")
    true = qobj.rand_state(g, c)
    probs = qt.calc_prob_dists(true)
    datasets = []
    for n in (int(g.integers(30, 60)), int(g.integers(150, 300)), int(g.integers(80, 140))):
        data = []
        for pr in probs:
            k = int(np.clip(g.binomial(n, min(max(pr[0], 0.0), 1.0)), 2, n - 2))   # strictly inside: no clipping branch
            data.append((n, np.array([k / n, 1 - k / n])))
        datasets.append(data)
    return {"dirs": [d.tolist() for d in dirs], "para": para,
            "data": [[(n, p.tolist()) for n, p in d] for d in datasets]}


def seq_run(setting, lcls, mode, weights=None):
    """entries of calc_estimate_sequence([D1, D2, D3]) vs the estimate of each dataset alone with fresh estimator / loss /
    algorithm objects; returns [(k, sequence entry, fresh estimate)] for the entries that differ"""
    c = qobj.csys("qubit")
    povms = [Povm(c, [np.hstack([1.0, n]) / np.sqrt(2), np.hstack([1.0, -np.array(n)]) / np.sqrt(2)])
             for n in map(np.array, setting["dirs"])]
    qt = StandardQst(povms, on_para_eq_constraint=setting["para"], schedules="all")
    datasets = [[(int(n), np.array(p, dtype=np.float64)) for n, p in d] for d in setting["data"]]
    cls, ocls, _ = LOSSES[lcls]
    aspec = {"eq": True, "ineq": True, "order": "eq_ineq", "maxit": 50, "maxopt": 300}

    def est(dsets):
        w = None if weights is None else [np.array(x, dtype=np.float64) for x in weights]
        with contextlib.redirect_stdout(io.StringIO()):
            r = LossMinimizationEstimator().calc_estimate_sequence(
                qt, dsets, cls(), ocls(mode, weights=w), ProjectedGradientDescentBacktracking(), build_aopt(aspec))
        return [np.array(v) for v in r.estimated_var_sequence]
    def attempt(dsets):
        try:
            return est(dsets)
        except Exception as e:  # noqa
            return e
    seq = attempt(datasets)
    stop = len(datasets)
    if isinstance(seq, Exception):
        # the whole call raised: find the entry at which it does (shortest raising prefix); the entries before it are those
        # of the prefix, the entries after it were never produced and cannot be compared
        stop = next(j for j in range(len(datasets)) if isinstance(attempt(datasets[:j + 1]), Exception))
        head = attempt(datasets[:stop]) if stop else []
        seq = list(head) + [seq]
    bad = []
    for k, d in enumerate(datasets[:stop + 1] if stop < len(datasets) else datasets):
        fresh = attempt([d])
        a = seq[k]
        b = fresh if isinstance(fresh, Exception) else fresh[0]
        if isinstance(a, Exception) or isinstance(b, Exception):
            if type(a) is not type(b):      # one side raises, the other estimates
                thr = any(isinstance(x, ValueError) and "imaginary parts" in str(x) for x in (a, b))
                bad.append((k, repr(a)[:80] if isinstance(a, Exception) else a.tolist(),
                            repr(b)[:80] if isinstance(b, Exception) else b.tolist(), "imaginary-threshold-raise" if thr else "entry-differs-from-fresh"))
        elif a.shape != b.shape or not np.allclose(a, b, rtol=0, atol=1e-10):
            bad.append((k, a.tolist(), b.tolist(), "entry-differs-from-fresh"))
    return bad


def sequence_clause(ctx, volume=1):
    """every entry of an estimate *sequence* equals the estimate of that dataset alone with fresh objects — for the
    data-dependent weighting modes this needs an over-determined experiment"""
    g = ctx.npgen(f"sequence{volume}")
    nset = (2 if ctx.quick else 10) * volume
    for t in range(nset):
        setting = seq_setting(g, n_extra=1 + t % 2)
        ns = len(setting["dirs"])
        for lcls in ("WSE", "FWSE"):
            for mode in ("identity", "inverse_sample_covariance", "inverse_unbiased_covariance", "custom"):
                weights = None
                if mode == "custom":
                    weights = []
                    for _ in range(ns):
                        a = g.standard_normal((2, 2))
                        weights.append((a @ a.T + 0.5 * np.eye(2)).tolist())
                rep = {"kind": "sequence", "setting": setting, "loss": lcls, "mode": mode, "weights": weights}
                try:
                    bad = seq_run(setting, lcls, mode, weights)
                except Exception as e:  # noqa
                    ctx.violate(f"C13/sequence/{LOSSES[lcls][0].__name__}/{mode}/raises", f"{type(e).__name__}: {e}", rep)
                    continue
                ctx.case(("sequence", t, lcls, mode), sample={"clause": "sequence-vs-fresh", "loss": lcls, "mode": mode,
                                                              "testers": ns, "para": setting["para"]})
                ctx.count(f"sequence clause {lcls} {mode}")
                for tag in sorted({x[3] for x in bad}):
                    sel = [x for x in bad if x[3] == tag]
                    k, a, b, _ = sel[0]
                    ctx.violate(f"C13/sequence/{LOSSES[lcls][0].__name__}/{mode}/{tag}",
                                f"calc_estimate_sequence over 3 datasets, {ns} two-outcome testers, mode {mode}: entries "
                                f"{[x[0] for x in sel]} differ from the estimates of the same datasets with fresh objects "
                                f"(entry {k}: {a} vs {b})", rep)


def experiment_copy_clause(ctx):
    """Experiment.copy() is independent of its original: assigning into any of the five lists of the copy leaves the
    original alone (the tomography classes plug the true object into such a copy)"""
    from quara.qcircuit.experiment import Experiment
    g = ctx.npgen("expcopy")
    c = qobj.csys("qubit")
    st, pv, gt = qobj.rand_state(g, c), qobj.rand_povm(g, c, 2), qobj.rand_gate(g, c)
    mp = qobj.rand_mprocess(g, c, 2)[0]
    variants = {
        "state-mprocess-povm": dict(states=[st], gates=[], povms=[pv], mprocesses=[None],
                                    schedules=[[("state", 0), ("mprocess", 0), ("povm", 0)]]),
        "state-gate-povm": dict(states=[st, None], gates=[gt], povms=[pv], mprocesses=[],
                                schedules=[[("state", 0), ("gate", 0), ("povm", 0)], [("state", 0), ("povm", 0)]]),
    }
    for name, kw in variants.items():
        for lst in ("states", "gates", "povms", "mprocesses", "schedules"):
            ex = Experiment(**{k: list(v) for k, v in kw.items()})
            before = [id(x) for x in getattr(ex, lst)]
            cp = ex.copy()
            target = getattr(cp, lst)
            new = {"states": st, "gates": gt, "povms": pv, "mprocesses": mp, "schedules": [("state", 0), ("povm", 0)]}[lst]
            if len(target):
                target[0] = new
            else:
                target.append(new)
            after = [id(x) for x in getattr(ex, lst)]
            ctx.case(("expcopy", name, lst), sample={"clause": "Experiment.copy", "experiment": name, "list": lst})
            ctx.count("Experiment.copy independence checks")
            if before != after or getattr(cp, lst) is getattr(ex, lst):
                ctx.violate(f"C13/copy/Experiment/{lst}-shared-with-original",
                            f"Experiment.copy(): assigning into the copy's `{lst}` changed the original ({name})",
                            {"kind": "expcopy", "experiment": name, "list": lst})


def estimator_reuse_clause(ctx):
    """one estimator object used with tomography a, then b (same testers in another schedule order: matrix A of the same
    shape, other entries), then a again — every estimate equals the one of a fresh estimator"""
    g = ctx.npgen("estreuse")
    c = qobj.csys("qubit")
    for t in range(3 if ctx.quick else 12):
        povms = [qobj.rand_povm(g, c, 2) for _ in range(int(g.integers(3, 5)))]
        perm = list(g.permutation(len(povms)))
        if perm == sorted(perm):
            perm = perm[1:] + perm[:1]
        para = bool(g.integers(0, 2))
        qa = StandardQst(povms, on_para_eq_constraint=para, schedules="all")
        qb = StandardQst([povms[i] for i in perm], on_para_eq_constraint=para, schedules="all")

        def data(qt):
            out = []
            for _ in range(qt.num_schedules):
                k = int(g.integers(3, 40)); n = k + int(g.integers(3, 40))
                out.append((n, np.array([k / n, 1 - k / n])))
            return out
        seq = [(qa, data(qa)), (qb, data(qb)), (qa, data(qa))]
        for name, mk in (("LinearEstimator", LinearEstimator), ("ProjectedLinearEstimator", ProjectedLinearEstimator)):
            used = mk()
            ctx.case(("estreuse", t, name), sample={"clause": "estimator a-b-a", "estimator": name, "testers": len(povms)})
            ctx.count("estimator re-use a-b-a")
            for k, (qt, d) in enumerate(seq):
                with contextlib.redirect_stdout(io.StringIO()):
                    x = used.calc_estimate(qt, d).estimated_var
                    y = mk().calc_estimate(qt, d).estimated_var
                if not np.allclose(x, y, rtol=0, atol=1e-10):
                    ctx.violate(f"C13/reuse/estimator/{name}/tomography-changed",
                                f"{name} re-used over tomographies a, b (testers permuted {perm}), a: estimate {k} is "
                                f"{np.round(x, 6).tolist()}, a fresh estimator gives {np.round(y, 6).tolist()}",
                                {"kind": "estreuse", "seed": ctx.seed})
                    break


def tolerance_clause(ctx):
    """verdict queries of one object at the default tolerance, inside a `Settings.set_atol` window and after its
    restoration: every answer equals that of a freshly constructed equal-valued object asked at that moment.  The objects
    violate their constraints by amounts that lie between the tolerances."""
    g = ctx.npgen("tolerance")
    c = qobj.csys("qubit")
    rho = qobj.rand_density(g, 2, rank=1)
    u = qobj.rand_unitary(g, 2)
    pure_gate = qobj.hs_of_kraus(c, [u])
    proj = [u @ np.diag([1.0, 0]) @ u.conj().T, u @ np.diag([0, 1.0]) @ u.conj().T]
    mp_hss = [qobj.hs_of_kraus(c, [pr]) for pr in proj]
    queries = {"State": ["is_physical", "is_eq_constraint_satisfied", "is_ineq_constraint_satisfied", "is_trace_one",
                         "is_hermitian", "is_positive_semidefinite"],
               "Povm": ["is_physical", "is_eq_constraint_satisfied", "is_ineq_constraint_satisfied", "is_identity_sum",
                        "is_positive_semidefinite"],
               "Gate": ["is_physical", "is_eq_constraint_satisfied", "is_ineq_constraint_satisfied", "is_tp", "is_cp"],
               "MProcess": ["is_physical", "is_eq_constraint_satisfied", "is_ineq_constraint_satisfied", "is_sum_tp", "is_cp"]}
    for delta, loose in ((3e-5, 1e-3), (3e-8, 1e-6), (3e-11, 1e-9)):
        # boundary objects pushed outside by delta: a negative eigenvalue and an equality defect of that size
        bad_rho = u @ np.diag([1 + delta, -delta]) @ u.conj().T * (1 + delta)
        vs = [qobj.vec_of(c, proj[0] + delta * proj[1]), qobj.vec_of(c, proj[1] * (1 + delta) - 2 * delta * proj[0])]
        hs = pure_gate.copy(); hs[0, 1] += delta; hs[1:, 1:] *= (1 + delta)
        mh = [h.copy() for h in mp_hss]; mh[0][0, 1] += delta; mh[1][1:, 1:] *= (1 + delta)
        makers = {"State": lambda: State(c, qobj.vec_of(c, bad_rho), is_physicality_required=False),
                  "Povm": lambda: Povm(c, [v.copy() for v in vs], is_physicality_required=False),
                  "Gate": lambda: Gate(c, hs.copy(), is_physicality_required=False),
                  "MProcess": lambda: MProcess(c, [h.copy() for h in mh], is_physicality_required=False)}
        for name, mk in makers.items():
            for first_loose in (False, True):
                Settings.set_atol(ATOL0)
                used = mk()
                plan = [ATOL0, loose, ATOL0, loose] if not first_loose else [loose, ATOL0, loose, ATOL0]
                bad = None
                try:
                    for step, at in enumerate(plan):
                        Settings.set_atol(at)
                        fresh = mk()
                        for qn in queries[name]:
                            a, b = getattr(used, qn)(), getattr(fresh, qn)()
                            if bool(a) != bool(b) and bad is None:
                                bad = (qn, step, at, bool(a), bool(b))
                finally:
                    Settings.set_atol(ATOL0)
                ctx.case(("tolerance", name, delta, first_loose), sample={"clause": "tolerance window", "type": name,
                                                                          "defect": delta, "loose": loose})
                ctx.count("tolerance-window verdict sequences")
                if bad:
                    qn, step, at, a, b = bad
                    ctx.violate(f"C13/history/{qn}/{name}/verdict-kept-across-tolerance-change",
                                f"{name} with a constraint defect of {delta}: tolerances {plan}; at step {step} (atol={at}) "
                                f"{qn}() of the re-used object is {a}, of a fresh equal object {b}",
                                {"kind": "tolerance", "type": name, "delta": delta, "loose": loose, "seed": ctx.seed})


def inplace_clause(ctx):
    """in-place methods change their own object only: after `derived = o.generate_from_var(o.to_var())`,
    `derived.set_zero()` leaves `o` and the arrays obtained from `o` earlier as they were"""
    g = ctx.npgen("inplace")
    c = qobj.csys("qubit")
    for flag in (True, False):
        objs = {"State": State(c, qobj.vec_of(c, qobj.rand_density(g, 2)), on_para_eq_constraint=flag),
                "Povm": Povm(c, list(qobj.rand_povm(g, c, 3).vecs), on_para_eq_constraint=flag),
                "Gate": Gate(c, qobj.rand_gate(g, c).hs.copy(), on_para_eq_constraint=flag),
                "MProcess": MProcess(c, [h.copy() for h in qobj.rand_mprocess(g, c, 2)[0].hss], on_para_eq_constraint=flag)}
        for name, o in objs.items():
            for route in ("to_var", "to_stacked_vector"):
                arr = getattr(o, route)()
                try:
                    derived = o.generate_from_var(o.to_var())
                except Exception:  # noqa
                    continue
                before = (fast_digest(o), fast_digest(arr))
                derived.set_zero()
                after = (fast_digest(o), fast_digest(arr))
                ctx.case(("inplace", name, flag, route), sample={"clause": "set_zero on a derived object", "type": name, "para": flag})
                ctx.count("in-place method checks")
                if before != after:
                    what = "the original object" if before[0] != after[0] else f"the array returned earlier by {route}()"
                    ctx.violate(f"C13/mutation/set_zero/{name}/on_para_eq_constraint={flag}/other-object-changed",
                                f"derived = o.generate_from_var(o.to_var()); derived.set_zero() changed {what}",
                                {"kind": "inplace", "type": name, "para": flag})
                    break


def oracle(ctx, volume=1):
    seen = set()
    basis_clause(ctx)
    experiment_copy_clause(ctx)
    estimator_reuse_clause(ctx)
    inplace_clause(ctx)
    tolerance_clause(ctx)
    sequence_clause(ctx, volume)
    nhist, nops = ((300, 12) if ctx.quick else (3000, 30))
    workers = 1 if ctx.quick else max(1, min(12, (os.cpu_count() or 2) - 2))
    fuzz(ctx, nhist * volume, nops, f"fuzz{volume}", seen, workers=int(os.environ.get("C13_WORKERS", workers)))
    ctx.rule = ("one case = one operation of a random history, compared with its evaluation on fresh equal-valued arguments and "
                "followed by a byte-level snapshot comparison of the whole pool; non-trivial = the operation returned a value "
                "(did not raise in both worlds); distinct by (history, step, operation, operands)")
    ctx.partial += [
        {"theorem": "(no Lean theorem) copies independent / matrix bases unmodifiable / queries, conversions, projections, compose, tensor leave operands alone and give fresh-object results (interleavings of the four machines on one pool: interleaving_independent)",
         "missing": "carried by the history fuzzer (fresh-world differential + byte snapshots) and the generated-table obligations gen_writers_declared, gen_inplace_declared, gen_param_writes_declared only"},
        {"theorem": "fast_obs_eq_gen", "missing": "equality of the attributes read, not of the two value formulas (C12 proves fast = generic on equal attributes)"},
        {"theorem": "projEq_arg_unchanged_of_copy / gen_projEq_arg_unchanged", "missing": "conditional on the aliasing bits read off convert_var_to_hss by the translator (intra-procedural may-analysis); projEq_arg_overwritten_of_view is the statement for the other value"},
        {"theorem": "algo_reuse_eq_fresh_iff", "missing": "nothing (exact characterisation); the property itself is false on the tree for histories in which the requested projection changes (D10, open)"},
    ]


def search(ctx):
    """a proof obligation / the correspondence broke and the oracle found nothing: the property evaluated on the
    disagreement inputs, then one more round of histories with other seeds (bounded: the quick volume again)"""
    for dgr in ctx.disagreements[:40]:
        if dgr["op"] == "cache":
            cache_ops_case(ctx, dgr["input"]["dims"], dgr["input"]["ops"])
    if not ctx.violations or all(v["signature"] in () for v in ctx.violations):
        pass
    seen = {v["signature"] for v in ctx.violations}
    nhist, nops = ((300, 12) if ctx.quick else (1500, 30))
    workers = 1 if ctx.quick else max(1, min(12, (os.cpu_count() or 2) - 2))
    fuzz(ctx, nhist, nops, "search", seen, workers=int(os.environ.get("C13_WORKERS", workers)))


def cache_ops_case(ctx, dims, ops):
    """a get / delete sequence on a fresh composite system: every built table is the pure table after every call, and
    every getter returns the pure table"""
    c = CompositeSystem([ElementalSystem(i, basis_for(d)) for i, d in enumerate(dims)])
    pure = pure_tables(dims)
    done = []
    for o in ops:
        k = int(o[1:])
        done.append(o)
        bad = None
        if o[0] == "g":
            t = CACHE_GET[k](c)
            if fast_digest(t) != pure[k]:
                bad = CACHE_ATTRS[k] + " (returned by its getter)"
        elif CACHE_DEL[k] is not None:
            getattr(c, CACHE_DEL[k])()
        wrong = [a for j, a in enumerate(CACHE_ATTRS) if getattr(c, a) is not None and fast_digest(getattr(c, a)) != pure[j]]
        if bad or wrong:
            ctx.violate(f"C13/cache/sequence/content:{'+'.join(wrong) or CACHE_ATTRS[k]}",
                        f"composite system with dims {dims}: after the calls {done} the tables {wrong or [bad]} differ from "
                        f"the tables of a pristine system", {"kind": "cacheops", "dims": list(dims), "ops": list(done)})
            return True
    return False


# ----------------------------------------------------------------------------- correspondence with QModel.C13
def correspondence(ctx):
    with contextlib.redirect_stdout(io.StringIO()):     # the library prints iteration-limit warnings
        _correspondence(ctx)


def _correspondence(ctx):
    rng = ctx.rng
    drv = Driver("C13")
    pend = []
    # (a) cache machine ------------------------------------------------------------------------------
    nh = 60 if ctx.quick else 400
    for h in range(nh):
        two = (h % 10 == 9)
        c = qobj.csys("qubit", (0, 1)) if two else (qobj.csys("qutrit") if h % 10 == 8 else qobj.csys("qubit"))
        dims = [e.dim for e in c.elemental_systems]
        pure = pure_tables(dims)
        n = rng.randrange(3, 10 if two else 26)
        ops, trace = [], []
        for _ in range(n):
            k = rng.randrange(9)
            if rng.random() < 0.55:
                ops.append(f"g{k}")
                t = CACHE_GET[k](c)
                ident = getattr(c, CACHE_ATTRS[k]) is t
                which = [j for j in range(9) if fast_digest(t) == pure[j]]
                out = f"t{k}" if (k in which and ident) else f"t?{which}"
            else:
                ops.append(f"d{k}")
                if CACHE_DEL[k] is None:
                    out = "noMethod" if not hasattr(c, "delete_basis_basisconjugate") else "del"
                else:
                    getattr(c, CACHE_DEL[k])()
                    out = "del"
            mask = "".join("0" if getattr(c, a, "missing") is None else "1" for a in CACHE_ATTRS)
            trace.append(f"{out}:{mask}")
        pend.append(("cache", {"dims": dims, "ops": ops}, ";".join(trace), drv.ask("cache", ",".join(ops))))
        ctx.case(("cache", tuple(dims), tuple(ops)), nontrivial=any(o[0] == "d" for o in ops),
                 sample={"op": "cache", "dims": dims, "ops": ops})
        ctx.count(f"cache histories dims={dims}")
    # (b) loss machine -------------------------------------------------------------------------------
    g = ctx.npgen("corr-loss")
    cA = qobj.csys("qubit")
    nl = 40 if ctx.quick else 300
    for h in range(nl):
        fast = h % 2 == 0
        qts = []
        for _ in range(2):
            povms = [qobj.rand_povm(g, cA, 2) for _ in range(int(g.integers(3, 5)))]
            qts.append(StandardQst(povms, on_para_eq_constraint=bool(g.integers(0, 2)), schedules="all"))
        same_flag = qts[0].num_variables == qts[1].num_variables
        nvar = qts[0].num_variables
        if not same_flag:
            qts[1] = qts[0]
        cls, ocls, modes = LOSSES["FWSE" if fast else "WSE"]
        w0 = None
        if g.random() < 0.25:
            w0 = [_spd(g) for _ in range(qts[0].num_schedules)]
        loss = cls(nvar, weight_matrices=None if w0 is None else [x.copy() for x in w0]) if not fast else \
            cls(nvar, weight_matrices=None if w0 is None else [x.copy() for x in w0])
        var = np.round(g.uniform(-0.5, 0.5, nvar) * 1024) / 1024
        nd = int(g.integers(1, 5))
        toks, vals, modeseq = [], [], []
        ok = True
        for d in range(nd):
            qt = qts[int(g.integers(0, 2))]
            if w0 is not None and qt.num_schedules != len(w0):
                qt = qts[0]
            mode = modes[int(g.integers(0, 4))] if g.random() < 0.9 else "unbiased_inverse_covariance"
            ns = qt.num_schedules
            data = []
            for s in range(ns):
                cnt = g.integers(3, 40, size=2)
                data.append((int(cnt.sum()), cnt / cnt.sum()))
            ow = [_spd(g) for _ in range(ns)] if mode == "custom" else None
            opt = ocls(mode, weights=None if ow is None else [x.copy() for x in ow])
            grad = bool(g.integers(0, 2))
            try:
                loss.set_from_standard_qtomography_option_data(qt, opt, data, grad, False)
                v = float(loss.value(var))
            except Exception as e:  # noqa
                v = "err"
            dw = _invcov(data, mode) if mode in WEIGHTED[1:] + ("unbiased_inverse_covariance",) else None
            A, b = qt.calc_matA(), qt.calc_vecB()
            qv = np.concatenate([p for _, p in data])
            # the mode string itself goes to the driver, which resolves it through the regenerated branch table
            toks.append("|".join([mode, _wtxt(ow), _wtxt(dw), "1" if grad else "0", qlist(A.flatten()), qlist(b), qlist(qv)]))
            vals.append(v)
            modeseq.append(mode)
        i = drv.ask("loss", "fast" if fast else "gen", 2, nvar, qlist(var), _wtxt(w0), *toks)
        pend.append(("loss", {"fast": fast, "modes": modeseq, "ctor_weights": w0 is not None}, vals, i))
        ctx.case(("loss", fast, tuple(modeseq), h), nontrivial=len(modeseq) > 1,
                 sample={"op": "loss", "fast": fast, "modes": modeseq})
        ctx.count(f"loss histories {'fast' if fast else 'generic'} len={len(modeseq)}")
    # (c) algorithm machine --------------------------------------------------------------------------
    ga = ctx.npgen("corr-algo")
    povs = [qobj.rand_povm(ga, cA, 2) for _ in range(4)]
    sts = [qobj.rand_state(ga, cA) for _ in range(5)]
    qtl = [StandardQst(povs, on_para_eq_constraint=True, schedules="all"),
           StandardQst(povs[:3], on_para_eq_constraint=False, schedules="all"),
           StandardPovmt(sts, num_outcomes=2, on_para_eq_constraint=True, schedules="all")]
    na = 40 if ctx.quick else 300
    refs = _proj_refs(qtl)
    for h in range(na):
        algo = ProjectedGradientDescentBacktracking()
        n = rng.randrange(1, 6)
        calls, trace = [], []
        for _ in range(n):
            qi = rng.randrange(3)
            spec = {"eq": rng.random() < 0.5, "ineq": rng.random() < 0.5, "order": rng.choice(["eq_ineq", "ineq_eq"]),
                    "maxit": rng.choice([40, 5, 20])}
            opt = build_aopt(spec)
            algo.set_constraint_from_standard_qt_and_option(qtl[qi], opt)
            calls.append(f"{qi},{int(spec['eq'])},{int(spec['ineq'])},{int(spec['order'] == 'ineq_eq')},"
                         f"{'N' if spec['maxit'] is None else spec['maxit']}")
            which_qt = [j for j in range(3) if algo._qt is qtl[j]]
            trace.append((which_qt, _proj_candidates(algo.func_proj, refs)))
        pend.append(("algo", calls, trace, drv.ask("algo", ";".join(calls))))
        ctx.case(("algo", tuple(calls)), nontrivial=n > 1, sample={"op": "algo", "calls": calls})
        ctx.count(f"algo histories len={n}")
    # (d) Settings atol / constructor eps --------------------------------------------------------------
    for h in range(20 if ctx.quick else 100):
        Settings.set_atol(ATOL0)
        ops, outs = [], []
        for _ in range(rng.randrange(1, 9)):
            x = rng.random()
            if x < 0.4:
                v = rng.choice([1e-3, 1e-6, 1e-9, 0.5, 1e-13])
                Settings.set_atol(v); ops.append("s:" + q(v)); outs.append("ok")
            elif x < 0.55:
                try:
                    Settings.set_atol(rng.choice([1, "1e-3", None])); outs.append("ok?")
                except TypeError:
                    outs.append("typeError")
                ops.append("b")
            else:
                ops.append("r"); outs.append(q(Settings.get_atol()))
        final = q(Settings.get_atol())
        pend.append(("atol", ops, final + " " + ",".join(outs), drv.ask("atol", q(ATOL0), ",".join(ops))))
        ctx.case(("atol", tuple(ops)), sample={"op": "atol", "ops": ops})
        at = rng.choice([1e-3, 1e-9, 1e-13])
        eps = rng.choice([None, 0.0, 1e-5, 2.5e-8])
        Settings.set_atol(at)
        st = State(cA, np.array([1, 0, 0, 1]) / np.sqrt(2), eps_proj_physical=eps)
        Settings.set_atol(ATOL0)
        pend.append(("ctoreps", (at, eps), float(st.eps_proj_physical), drv.ask("ctoreps", q(at), "N" if eps is None else q(eps))))
        ctx.case(("ctoreps", at, eps))
    Settings.set_atol(ATOL0)
    # (e) MProcess.calc_proj_eq_constraint_with_var ------------------------------------------------------
    gm = ctx.npgen("corr-mproj")
    for h in range(30 if ctx.quick else 200):
        m = int(gm.integers(1, 4))
        flag = bool(gm.integers(0, 2))
        size = m * 16 - (4 if flag else 0)
        var = qobj.dyadic(gm, size, bits=8)
        arg = var.copy()
        res = MProcess.calc_proj_eq_constraint_with_var(cA, arg, on_para_eq_constraint=flag)
        pend.append(("mprojeq", {"m": m, "flag": flag, "var": var.tolist()}, (res, arg, var),
                     drv.ask("mprojeq", 4, m, int(flag), qlist(var))))
        ctx.case(("mprojeq", m, flag, tuple(var)), sample={"op": "mprojeq", "m": m, "flag": flag})
        ctx.count(f"mprojeq flag={flag}")
    out = drv.run()
    for op, inp, impl, i in pend:
        ctx.corr_ops.add(op)
        r = out[i]
        if op in ("cache", "atol"):
            if r != impl:
                ctx.disagree(op, inp, impl, r)
        elif op == "loss":
            mv = r.split(";")
            okk = len(mv) == len(impl) and all((a == "err") == (b == "err") and (a == "err" or close(a, float(_frac(b)), 1e-9))
                                                for a, b in zip(impl, mv))
            if not okk:
                ctx.disagree(op, inp, impl, r)
        elif op == "algo":
            mm = r.split(";")
            okk = len(mm) == len(impl)
            for (which_qt, cands), t in zip(impl, mm):
                qs, pj = t.split(":")
                okk &= (qs != "N" and int(qs) in which_qt) and _proj_matches(pj, cands)
            if not okk:
                ctx.disagree(op, inp, [(w, sorted(c)) for w, c in impl], r)
        elif op == "ctoreps":
            if not close(impl, float(_frac(r)), 1e-12):
                ctx.disagree(op, inp, impl, r)
        elif op == "mprojeq":
            res, arg, var = impl
            t = r.split()
            mres = [float(x) for x in unqlist(t[0])]
            marg = [float(x) for x in unqlist(t[1])]
            okk = allclose(res, mres) and np.array_equal(arg, var) and allclose(arg, marg)
            if not okk:
                ctx.disagree(op, inp, (res.tolist(), arg.tolist()), r)


def _frac(s):
    from fractions import Fraction
    return Fraction(s)


def _spd(g):
    a = np.round(g.standard_normal((2, 2)) * 16) / 16
    return a @ a.T + 0.5 * np.eye(2)


def _wtxt(w):
    return "-" if w is None else qlist(np.concatenate([x.flatten() for x in w]))


def _invcov(data, mode):
    """independent re-computation of the weights `_set_weights_by_mode` installs for two-outcome data"""
    from quara.utils import matrix_util
    out = []
    for n, p in data:
        e = matrix_util.replace_prob_dist(p)
        nn = n if mode == "inverse_sample_covariance" else n - 1
        cov = (np.diag(e) - np.outer(e, e)) / nn
        ex = cov[:-1, :-1] + np.eye(1) / (n ** 1.5)
        w = np.zeros((2, 2))
        w[0, 0] = np.linalg.inv(ex)[0, 0]
        out.append(w)
    return out


def _proj_refs(qtl):
    """reference behaviour of every projection the algorithm object can install, on probe variables"""
    refs = []
    for j, qt in enumerate(qtl):
        si = qt.generate_empty_estimation_obj_with_setting_info()
        n = qt.num_variables
        probes = [np.linspace(-0.9, 1.1, n) * (1 + 0.37 * k) + 0.05 * k for k in range(2)]
        fns = {"eq": si.func_calc_proj_eq_constraint_with_var(si.on_para_eq_constraint),
               "ineq": si.func_calc_proj_ineq_constraint_with_var(si.on_para_eq_constraint),
               "self": lambda v: v}
        for mi in (40, 5, 20):
            fns[f"physical.{'N' if mi is None else mi}"] = si.func_calc_proj_physical_with_var(
                on_para_eq_constraint=si.on_para_eq_constraint, max_iteration=mi)
        for kind, f in fns.items():
            with contextlib.redirect_stdout(io.StringIO()):
                outs = [f(p.copy()) for p in probes]
            if kind == "self":
                key = "self"
            elif kind.startswith("physical"):
                key = f"physical.{j}.{kind.split('.')[1]}"
            else:
                key = f"{kind}.{j}"
            refs.append((key, n, probes, outs))
    return refs


def _proj_candidates(fp, refs):
    """which descriptors behave like the installed projection"""
    cands = set()
    for key, n, probes, outs in refs:
        try:
            with contextlib.redirect_stdout(io.StringIO()):
                if all(np.allclose(fp(p.copy()), o, atol=1e-9) for p, o in zip(probes, outs)):
                    cands.add(key)
        except Exception:  # noqa  (wrong variable size for this tomography)
            pass
    return cands


def _proj_matches(model, cands):
    t = model.split(".")
    key = "self" if t[0] == "self" else (f"physical.{t[1]}.{t[3]}" if t[0] == "physical" else f"{t[0]}.{t[1]}")
    return key in cands


# ----------------------------------------------------------------------------- replay
def replay(ctx, data):
    r = data["replay"]
    print("replaying", data.get("signature"), "-", r.get("kind"))
    if r["kind"] == "history":
        S = spec_unjson(r["specs"])
        ops = r["ops"]
        ran, probs, W = exec_history(S, ops, stop_on_first=False)
        for o in ran:
            print("  op", o["op"], o.get("args"), {k: v for k, v in o.get("p", {}).items() if k != "var"})
        for pr in probs:
            print("  PROBLEM:", describe(pr, W))
        return 1 if probs else 0
    if r["kind"] == "cacheops":
        before = len(ctx.violations)
        cache_ops_case(ctx, r["dims"], r["ops"])
        for v in ctx.violations[before:]:
            print("  PROBLEM:", v["what"])
        return 1 if len(ctx.violations) > before else 0
    if r["kind"] == "sequence":
        bad = seq_run(r["setting"], r["loss"], r["mode"], r.get("weights"))
        for k, a, b, tag in bad:
            print(f"  PROBLEM ({tag}): entry {k} of the sequence {a}  vs fresh objects on that dataset alone {b}")
        want = data.get("signature", "").rsplit("/", 1)[-1]
        if want in ("imaginary-threshold-raise", "entry-differs-from-fresh"):
            bad = [x for x in bad if x[3] == want]
        return 1 if bad else 0
    before = len(ctx.violations)
    if "seed" in r:
        ctx.seed = r["seed"]
    basis_clause(ctx)
    experiment_copy_clause(ctx)
    estimator_reuse_clause(ctx)
    inplace_clause(ctx)
    tolerance_clause(ctx)
    for v in ctx.violations[before:]:
        print("  PROBLEM:", v["signature"], v["what"])
    return 1 if any(v["signature"] == data.get("signature") for v in ctx.violations[before:]) else 0
