"""C01 — physicality verdicts: translator (tolerances of every isclose/allclose call site of the verdict functions ->
lean/QGen/C01.lean), correspondence with QModel.C01, property oracle on the real code."""
import ast, os
from fractions import Fraction
import numpy as np
import shim  # noqa: F401
import common
from common import Driver, q, qlist
import pytolean

# (file, class or None, function, expected callee names in source order, lean name stems)
SITES = [
    ("quara/objects/state.py", "State", "is_trace_one", ["np.isclose"], ["state_is_trace_one"]),
    ("quara/objects/povm.py", "Povm", "is_identity_sum", ["np.allclose"], ["povm_is_identity_sum"]),
    ("quara/objects/gate.py", None, "is_tp", ["np.allclose", "np.isclose"], ["gate_is_tp_row", "gate_is_tp_trace"]),
    ("quara/utils/matrix_util.py", None, "is_hermitian", ["allclose"], ["mutil_is_hermitian"]),
    ("quara/utils/matrix_util.py", None, "is_positive_semidefinite", ["np.isclose"], ["mutil_is_psd_eig"]),
]
CLOSE_FUNCS = {"np.isclose", "np.allclose", "allclose", "isclose", "mutil.allclose", "mutil.isclose"}


def frac_of_literal(node, where):
    """decimal value of a numeric literal / simple power expression as written in the source"""
    src = ast.unparse(node)
    if isinstance(node, ast.Constant) and type(node.value) in (int, float):
        return Fraction(src)
    if isinstance(node, ast.UnaryOp) and isinstance(node.op, ast.USub):
        return -frac_of_literal(node.operand, where)
    if isinstance(node, ast.BinOp) and isinstance(node.op, ast.Pow):
        b, e = frac_of_literal(node.left, where), frac_of_literal(node.right, where)
        if e.denominator == 1:
            return b ** int(e)
    raise pytolean.Untranslatable(f"{where}: tolerance is not a numeric literal: `{src}`")


def lean_rat(f):
    if f.denominator == 1:
        return f"({f.numerator} : Rat)"
    return f"(mkRat ({f.numerator}) {f.denominator})"


def default_rtol_of(tree, callee, where):
    """numpy's default (1e-5) for np.*; for the module-level wrappers of matrix_util the default written in their def"""
    if callee.startswith("np."):
        return Fraction("1e-5")
    name = callee.split(".")[-1]
    for n in tree.body:
        if isinstance(n, ast.FunctionDef) and n.name == name:
            names = [a.arg for a in n.args.args]
            defaults = dict(zip(names[len(names) - len(n.args.defaults):], n.args.defaults))
            if "rtol" in defaults:
                return frac_of_literal(defaults["rtol"], where)
    raise pytolean.Untranslatable(f"{where}: cannot find the default rtol of `{callee}`")


def site_tolerances(repo, file, cls, fn, callees, stems):
    path = os.path.join(repo, file)
    tree = ast.parse(open(path).read())
    f = pytolean.find_def(tree, fn, cls)
    where = f"{file}:{(cls + '.') if cls else ''}{fn}"
    # atol must be the caller's atol, defaulted from Settings exactly once
    src = ast.unparse(f)
    if "atol = Settings.get_atol() if atol is None else atol" not in src:
        raise pytolean.Untranslatable(f"{where}: `atol = Settings.get_atol() if atol is None else atol` not found")
    calls = [c for c in ast.walk(f) if isinstance(c, ast.Call) and ast.unparse(c.func) in CLOSE_FUNCS]
    calls.sort(key=lambda c: (c.lineno, c.col_offset))
    if [ast.unparse(c.func) for c in calls] != callees:
        raise pytolean.Untranslatable(f"{where}: closeness calls {[ast.unparse(c.func) for c in calls]} differ from the expected {callees}")
    out = []
    for c, stem in zip(calls, stems):
        kw = {k.arg: k.value for k in c.keywords}
        if len(c.args) != 2 or set(kw) - {"atol", "rtol"}:
            raise pytolean.Untranslatable(f"{where}:{c.lineno}: unsupported arguments `{ast.unparse(c)}`")
        if "atol" not in kw or ast.unparse(kw["atol"]) != "atol":
            raise pytolean.Untranslatable(f"{where}:{c.lineno}: absolute tolerance is not the caller's `atol`: `{ast.unparse(c)}`")
        tree_for_default = tree if file.endswith("matrix_util.py") else ast.parse(open(os.path.join(repo, "quara/utils/matrix_util.py")).read())
        rtol = frac_of_literal(kw["rtol"], where) if "rtol" in kw else default_rtol_of(tree_for_default, ast.unparse(c.func), where)
        out.append((stem, rtol, f"{file}:{c.lineno} `{ast.unparse(c)}`" + ("" if "rtol" in kw else "  (rtol keyword absent: default)")))
    return out


def settings_atol(repo):
    path = os.path.join(repo, "quara/settings.py")
    tree = ast.parse(open(path).read())
    cs = [n for n in tree.body if isinstance(n, ast.ClassDef) and n.name == "Settings"]
    if len(cs) != 1:
        raise pytolean.Untranslatable("quara/settings.py: class Settings not found")
    vals = {}
    for s in cs[0].body:
        if isinstance(s, ast.Assign) and len(s.targets) == 1 and isinstance(s.targets[0], ast.Name):
            vals[s.targets[0].id] = s.value
    a = vals.get("__atol")
    if isinstance(a, ast.Name):
        a = vals.get(a.id)
    if a is None:
        raise pytolean.Untranslatable("quara/settings.py: Settings.__atol not found")
    return frac_of_literal(a, "quara/settings.py:Settings.__atol")


BASIS_SITES = [("MatrixBasis", "is_orthogonal", "np.isclose", "mb_is_orthogonal"), ("MatrixBasis", "is_normal", "np.isclose", "mb_is_normal"),
               ("SparseMatrixBasis", "is_orthogonal", "np.isclose", "smb_is_orthogonal"),
               ("SparseMatrixBasis", "is_normal", "mutil.isclose", "smb_is_normal")]


def basis_tolerances(repo=None):
    """rtol of the closeness call of the basis verdicts (their atol must be `Settings.get_atol()`), reference value second argument"""
    repo = repo or common.REPO
    file = "quara/objects/matrix_basis.py"
    tree = ast.parse(open(os.path.join(repo, file)).read())
    mtree = ast.parse(open(os.path.join(repo, "quara/utils/matrix_util.py")).read())
    out = []
    for cls, fn, callee, stem in BASIS_SITES:
        f = pytolean.find_def(tree, fn, cls)
        where = f"{file}:{cls}.{fn}"
        calls = [c for c in ast.walk(f) if isinstance(c, ast.Call) and ast.unparse(c.func) in CLOSE_FUNCS]
        if len(calls) != 1 or ast.unparse(calls[0].func) != callee:
            raise pytolean.Untranslatable(f"{where}: expected exactly one `{callee}` call")
        c = calls[0]
        kw = {k.arg: k.value for k in c.keywords}
        ref = {"is_orthogonal": "0", "is_normal": "1"}[fn]
        if len(c.args) != 2 or ast.unparse(c.args[1]) != ref or set(kw) - {"atol", "rtol"} or \
                ast.unparse(kw.get("atol", ast.parse("None").body[0].value)) != "Settings.get_atol()":
            raise pytolean.Untranslatable(f"{where}:{c.lineno}: expected `{callee}(i_product, {ref}, atol=Settings.get_atol())`: `{ast.unparse(c)}`")
        rtol = frac_of_literal(kw["rtol"], where) if "rtol" in kw else default_rtol_of(mtree, callee, where)
        out.append((stem, rtol, f"{file}:{c.lineno} `{ast.unparse(c)}`" + ("" if "rtol" in kw else "  (rtol keyword absent: default)")))
    return out


def tolerances(repo=None):
    repo = repo or common.REPO
    out = []
    for file, cls, fn, callees, stems in SITES:
        out += site_tolerances(repo, file, cls, fn, callees, stems)
    out += basis_tolerances(repo)
    return out, settings_atol(repo)


# ---- decision wiring regenerated from the source (boolean skeletons; anything else makes the translator fail)
def bool_expr(node, atoms, where):
    if isinstance(node, ast.BoolOp):
        op = " && " if isinstance(node.op, ast.And) else " || "
        return "(" + op.join(bool_expr(v, atoms, where) for v in node.values) + ")"
    if isinstance(node, ast.UnaryOp) and isinstance(node.op, ast.Not):
        return "(!" + bool_expr(node.operand, atoms, where) + ")"
    key = ast.unparse(node)
    if key in atoms:
        return atoms[key]
    raise pytolean.Untranslatable(f"{where}: unsupported operand in a decision expression: `{key}`")


def body_wo_doc(f):
    b = list(f.body)
    if b and isinstance(b[0], ast.Expr) and isinstance(b[0].value, ast.Constant) and isinstance(b[0].value.value, str):
        b = b[1:]
    return b


CTORS = [("quara/objects/state.py", "State", "state"), ("quara/objects/povm.py", "Povm", "povm"),
         ("quara/objects/gate.py", "Gate", "gate"), ("quara/objects/mprocess.py", "MProcess", "mprocess")]
DISPATCH = {("State", "is_eq_constraint_satisfied"): "self.is_trace_one(atol)", ("State", "is_ineq_constraint_satisfied"): "self.is_positive_semidefinite(atol)",
            ("Povm", "is_eq_constraint_satisfied"): "self.is_identity_sum(atol)", ("Povm", "is_ineq_constraint_satisfied"): "self.is_positive_semidefinite(atol)",
            ("Gate", "is_eq_constraint_satisfied"): "self.is_tp(atol)", ("Gate", "is_ineq_constraint_satisfied"): "self.is_cp(atol)",
            ("MProcess", "is_eq_constraint_satisfied"): "self.is_sum_tp(atol=atol)", ("MProcess", "is_ineq_constraint_satisfied"): "self.is_cp(atol=atol)"}


def wiring(repo=None):
    """Lean definitions (text) of the boolean decision skeletons of the verdict wiring"""
    repo = repo or common.REPO
    out = []
    rd = lambda f: ast.parse(open(os.path.join(repo, f)).read())
    # QOperation.is_physical
    f = pytolean.find_def(rd("quara/objects/qoperation.py"), "is_physical", "QOperation")
    where = "quara/objects/qoperation.py:QOperation.is_physical"
    if [a.arg for a in f.args.args] != ["self", "atol_eq_const", "atol_ineq_const"] or [ast.unparse(x) for x in f.args.defaults] != ["None", "None"]:
        raise pytolean.Untranslatable(f"{where}: unexpected signature")
    b = body_wo_doc(f)
    if len(b) != 1 or not isinstance(b[0], ast.Return):
        raise pytolean.Untranslatable(f"{where}: body is not a single `return <decision>` ({len(b)} statements)")
    e = bool_expr(b[0].value, {"self.is_eq_constraint_satisfied(atol_eq_const)": "eq atol_eq_const",
                               "self.is_ineq_constraint_satisfied(atol_ineq_const)": "ineq atol_ineq_const"}, where)
    out.append(f"/-- {where}:{b[0].lineno} `{ast.unparse(b[0])[:120]}` — `eq` / `ineq` are the sub-verdicts as functions of the\n"
               "(optional) tolerance handed to them -/\n"
               f"def is_physical (eq ineq : Option Rat → Bool) (atol_eq_const atol_ineq_const : Option Rat) : Bool :=\n  {e}\n")
    # sub-verdict dispatch (checked, not emitted)
    for (file, cls, _) in CTORS:
        t = rd(file)
        for meth in ("is_eq_constraint_satisfied", "is_ineq_constraint_satisfied"):
            g = pytolean.find_def(t, meth, cls)
            bb = body_wo_doc(g)
            if len(bb) != 1 or not isinstance(bb[0], ast.Return) or ast.unparse(bb[0].value) != DISPATCH[(cls, meth)]:
                raise pytolean.Untranslatable(f"{file}:{cls}.{meth}: expected `return {DISPATCH[(cls, meth)]}`")
    # constructor guards
    for file, cls, stem in CTORS:
        g = pytolean.find_def(rd(file), "__init__", cls)
        where = f"{file}:{cls}.__init__"
        guards = [s_ for s_ in ast.walk(g) if isinstance(s_, ast.If) and len(s_.body) == 1 and isinstance(s_.body[0], ast.Raise)
                  and "not physically correct" in ast.unparse(s_.body[0])]
        if len(guards) != 1 or guards[0].orelse:
            raise pytolean.Untranslatable(f"{where}: expected exactly one physicality guard, found {len(guards)}")
        e = bool_expr(guards[0].test, {"self.is_physicality_required": "required", "self.is_physical()": "physical"}, where)
        out.append(f"/-- {where}:{guards[0].lineno} `if {ast.unparse(guards[0].test)}: raise ValueError` -/\n"
                   f"def {stem}_ctor_raises (required physical : Bool) : Bool :=\n  {e}\n")
    # ElementalSystem flag
    file = "quara/objects/elemental_system.py"
    g = pytolean.find_def(rd(file), "__init__", "ElementalSystem")
    where = f"{file}:ElementalSystem.__init__"
    asg = {ast.unparse(s_.targets[0]): s_ for s_ in ast.walk(g) if isinstance(s_, ast.Assign) and len(s_.targets) == 1}
    if ast.unparse(asg.get("self._is_hermitian", ast.parse("0").body[0]).value) != "self._basis.is_hermitian()":
        raise pytolean.Untranslatable(f"{where}: `self._is_hermitian = self._basis.is_hermitian()` not found")
    fl = asg.get("self._is_orthonormal_hermitian_0thprop_identity")
    if fl is None:
        raise pytolean.Untranslatable(f"{where}: flag assignment not found")
    e = bool_expr(fl.value, {"self._basis.is_normal()": "is_normal", "self._basis.is_orthogonal()": "is_orthogonal",
                             "self._is_hermitian": "is_hermitian", "self._basis.is_0thpropI()": "is_0thpropI"}, where)
    out.append(f"/-- {where}:{fl.lineno} the orthonormal-Hermitian-identity-first flag of one subsystem -/\n"
               f"def elemental_flag (is_normal is_orthogonal is_hermitian is_0thpropI : Bool) : Bool :=\n  {e}\n")
    # CompositeSystem aggregation
    file = "quara/objects/composite_system.py"
    g = pytolean.find_def(rd(file), "__init__", "CompositeSystem")
    where = f"{file}:CompositeSystem.__init__"
    asg = {ast.unparse(s_.targets[0]): s_ for s_ in ast.walk(g) if isinstance(s_, ast.Assign) and len(s_.targets) == 1}
    fl = asg.get("self._is_orthonormal_hermitian_0thprop_identity")
    lst = asg.get("is_orthonormal_hermitian_0thpropIs")
    if fl is None or lst is None or ast.unparse(lst.value) != "[e_sys.is_orthonormal_hermitian_0thprop_identity for e_sys in self._elemental_systems]":
        raise pytolean.Untranslatable(f"{where}: per-subsystem flag list / aggregation not found")
    v = fl.value
    if not (isinstance(v, ast.Call) and isinstance(v.func, ast.Name) and v.func.id in ("all", "any") and len(v.args) == 1
            and ast.unparse(v.args[0]) == "is_orthonormal_hermitian_0thpropIs" and not v.keywords):
        raise pytolean.Untranslatable(f"{where}: aggregation is not all(..)/any(..) of the per-subsystem flags: `{ast.unparse(v)}`")
    out.append(f"/-- {where}:{fl.lineno} `{ast.unparse(fl)}` -/\n"
               f"def composite_flag (flags : List Bool) : Bool :=\n  flags.{v.func.id} id\n")
    # gate.is_tp branch selector
    file = "quara/objects/gate.py"
    g = pytolean.find_def(rd(file), "is_tp")
    ifs = [s_ for s_ in body_wo_doc(g) if isinstance(s_, ast.If)]
    if len(ifs) != 1 or ast.unparse(ifs[0].test) != "c_sys.is_orthonormal_hermitian_0thprop_identity is True":
        raise pytolean.Untranslatable(f"{file}:is_tp: branch test is not `c_sys.is_orthonormal_hermitian_0thprop_identity is True`")
    out.append(f"/-- {file}:{ifs[0].lineno} gate.is_tp takes the first-row test exactly when this is true -/\n"
               "def is_tp_first_row_branch (c_sys_flag : Bool) : Bool :=\n  c_sys_flag\n")
    return out


EXPECTED_WIRING = [
    "def is_physical (eq ineq : Option Rat → Bool) (atol_eq_const atol_ineq_const : Option Rat) : Bool :=\n  (eq atol_eq_const && ineq atol_ineq_const)\n",
    "def state_ctor_raises (required physical : Bool) : Bool :=\n  (required && (!physical))\n",
    "def povm_ctor_raises (required physical : Bool) : Bool :=\n  (required && (!physical))\n",
    "def gate_ctor_raises (required physical : Bool) : Bool :=\n  (required && (!physical))\n",
    "def mprocess_ctor_raises (required physical : Bool) : Bool :=\n  (required && (!physical))\n",
    "def elemental_flag (is_normal is_orthogonal is_hermitian is_0thpropI : Bool) : Bool :=\n  (is_normal && is_orthogonal && is_hermitian && is_0thpropI)\n",
    "def composite_flag (flags : List Bool) : Bool :=\n  flags.all id\n",
    "def is_tp_first_row_branch (c_sys_flag : Bool) : Bool :=\n  c_sys_flag\n",
]
EXPECTED_RTOL = {"state_is_trace_one": Fraction("1e-5"), "povm_is_identity_sum": Fraction("1e-5"), "gate_is_tp_row": Fraction(0),
                 "gate_is_tp_trace": Fraction(0), "mutil_is_hermitian": Fraction(0), "mutil_is_psd_eig": Fraction(0),
                 "mb_is_orthogonal": Fraction("1e-5"), "mb_is_normal": Fraction("1e-5"), "smb_is_orthogonal": Fraction("1e-5"),
                 "smb_is_normal": Fraction("1e-5")}


def translate(ctx):
    """regenerate lean/QGen/C01.lean. A part that cannot be translated is reported as a broken obligation (returned) and written with
    the expected text of the reference tree, so that the file stays complete and the driver still builds."""
    problems = []
    try:
        tol, atol0 = tolerances()
    except pytolean.Untranslatable as e:
        problems.append(f"translator failed: Untranslatable: {e}")
        tol, atol0 = [(k, v, "NOT regenerated (source not translatable): value of the reference tree") for k, v in EXPECTED_RTOL.items()], Fraction("1e-13")
    try:
        wire = wiring()
    except pytolean.Untranslatable as e:
        problems.append(f"translator failed: Untranslatable: {e}")
        wire = ["-- NOT regenerated (source not translatable): skeleton of the reference tree\n" + w for w in EXPECTED_WIRING]
    parts = ["/-! GENERATED on every run by harness/c01.py:translate from the Python sources of quara — do not edit.",
             "Effective relative tolerance of every `isclose/allclose` call site inside the verdict functions anchored by C01",
             "(absent `rtol` keyword ⇒ the callee's default, numpy: 1e-5) and the default absolute tolerance of `Settings`.",
             "Every site passes the caller's `atol` (checked by the translator; anything else makes it fail). -/",
             "namespace QGen.C01", ""]
    for stem, rtol, doc in tol:
        parts += [f"/-- {doc} -/", f"def {stem}_rtol : Rat := {lean_rat(rtol)}", ""]
    parts += ["/-- quara/settings.py `Settings.__atol` -/", f"def settings_atol : Rat := {lean_rat(atol0)}", ""]
    parts += ["/-! decision wiring (boolean skeletons of the source; operands are parameters) -/", ""] + wire + ["end QGen.C01"]
    pytolean.write_if_changed(os.path.join(common.LEAN, "QGen", "C01.lean"), "\n".join(parts) + "\n")
    return problems


# ----------------------------------------------------------------------------- objects with designed defects
import qobj
from quara.objects.matrix_basis import MatrixBasis
from quara.objects.state import State
from quara.objects.povm import Povm
from quara.objects.gate import Gate
from quara.objects.mprocess import MProcess
from quara.settings import Settings

ATOLS = [1e-13, 1e-10, 1e-7, 1e-4, 1e-2]
_I = np.eye(2, dtype=complex); _X = np.array([[0, 1], [1, 0]], dtype=complex)
_Y = np.array([[0, -1j], [1j, 0]]); _Z = np.diag([1, -1]).astype(complex)
_CS = {}


def csys(name):
    """ONH0 bases: 1qubit (normalised Pauli), qutrit (normalised Gell-Mann), 2qubit, qubit_qutrit;
    basis-generic: pauli_unnorm (not normalised), herm_noid (orthonormal Hermitian, 0th element not prop. to identity)"""
    if name not in _CS:
        if name == "1qubit":
            c = qobj.csys("qubit", (0,))
        elif name == "qutrit":
            c = qobj.csys("qutrit", (0,))
        elif name == "2qubit":
            c = qobj.csys("qubit", (0, 1))
        elif name == "qubit_qutrit":
            c = qobj.csys(["qubit", "qutrit"], (0, 1))
        elif name == "pauli_unnorm":
            c = qobj.csys("qubit", (0,), lambda: MatrixBasis([_I, _X, _Y, _Z]))
        elif name == "herm_noid":
            r = np.sqrt(2)
            c = qobj.csys("qubit", (0,), lambda: MatrixBasis([(_I + _Z) / r, _X / r, _Y / r, (_I - _Z) / r]))
        elif name == "herm_xfirst":
            r = np.sqrt(2)
            from quara.objects.matrix_basis import SparseMatrixBasis      # both basis classes carry their own is_0thpropI
            c = qobj.csys("qubit", (0,), lambda: SparseMatrixBasis([_X / r, _I / r, _Y / r, _Z / r]))
        elif name == "gm_l1first":
            from quara.objects.matrix_basis import SparseMatrixBasis
            from quara.objects import matrix_basis as mb
            gm = [np.array(b.toarray() if hasattr(b, "toarray") else b, dtype=np.complex128) for b in mb.get_normalized_gell_mann_basis()]
            c = qobj.csys("qutrit", (0,), lambda: SparseMatrixBasis([gm[1], gm[0]] + gm[2:]))
        elif name == "mixed_2qubit":
            # two subsystems with DIFFERENT kinds of basis: normalised Pauli x Hermitian orthonormal, not identity-first
            from quara.objects.composite_system import CompositeSystem
            from quara.objects.elemental_system import ElementalSystem
            from quara.objects import matrix_basis as mb
            r = np.sqrt(2)
            c = CompositeSystem([ElementalSystem(0, mb.get_normalized_pauli_basis()),
                                 ElementalSystem(1, MatrixBasis([_X / r, _I / r, _Y / r, _Z / r]))])
        else:
            raise KeyError(name)
        _CS[name] = (c, qobj.basis_mats(c))
    return _CS[name]


def is_onh0(B):
    """orthonormal, Hermitian, 0th element proportional to the identity — decided here from the matrices"""
    F = np.array([b.flatten() for b in B])
    d = B[0].shape[0]
    return bool(np.allclose(F.conj() @ F.T, np.eye(len(B)), atol=1e-9) and all(np.allclose(b, b.conj().T, atol=1e-12) for b in B)
                and np.allclose(B[0], B[0][0, 0] * np.eye(d), atol=1e-12))


GENERIC = ("pauli_unnorm", "herm_noid", "herm_xfirst", "gm_l1first", "mixed_2qubit")


def coeffs(B, mat):
    """real coefficients of a Hermitian matrix in a (possibly non-orthonormal) Hermitian basis"""
    return coeffs_c(B, mat).real.astype(np.float64)


def herm_with_spectrum(g, lam):
    u = qobj.rand_unitary(g, len(lam))
    return (u * np.asarray(lam)) @ u.conj().T


def sizes(atol, d1=True):
    """violation sizes: inside (<= atol/10), outside (>= 10 atol) ... O(1); plus the probe of the relative slack"""
    out = [0.0, atol / 10, 10 * atol, min(0.3, 1e3 * atol), 0.3]
    if d1 and atol <= 5e-7:
        out.append(5e-6)
    return out


def spectrum(g, d, mu, total, rank=None):
    """d eigenvalues with minimum mu (if mu is not None) summing to total"""
    k = d if rank is None else rank
    w = g.random(k) + 0.2
    lam = np.zeros(d)
    if mu is None:
        lam[:k] = w / w.sum() * total
    else:
        lam[0] = mu
        if k > 1:
            lam[1:k] = w[1:] / w[1:].sum() * (total - mu)
    return lam


def hs_generic(B, fn):
    """matrix of a linear map fn on operators in the basis B (orthonormal or not): fn(B_b) = sum_a hs[a,b] B_a"""
    n = len(B)
    cols = [coeffs_c(B, fn(B[b])) for b in range(n)]
    return np.array(cols).T


_GRAM = {}


def coeffs_c(B, mat):
    key = id(B)
    if key not in _GRAM:
        F = np.array([b.flatten() for b in B])               # rows: vec(B_a)
        _GRAM[key] = (F.conj(), np.linalg.inv(F.conj() @ F.T))
    Fc, Ginv = _GRAM[key]
    return Ginv @ (Fc @ np.asarray(mat).flatten())


def hs_mix(B, d, mu):
    """TP map (1-p) depolarising + p transpose with Choi minimum eigenvalue mu (Choi = sum |i><j| (x) Phi(|i><j|) / normalisation of quara:
    eigenvalues (1-p)/d +- p)"""
    p = (1.0 / d - mu) * d / (d + 1)
    dep = lambda x: np.trace(x) * np.eye(d) / d
    f = lambda x: (1 - p) * dep(x) + p * x.T
    return hs_generic(B, f).real.astype(np.float64)


def hs_unitary(B, u):
    return hs_generic(B, lambda x: u @ x @ u.conj().T).real.astype(np.float64)


def own_choi(B, hs):
    """sum_ab hs[a,b] B_a (x) conj(B_b) — the formula quara documents for the Choi matrix"""
    d = B[0].shape[0]
    Bs = np.array(B)
    C = np.einsum("ab,aij,bkl->ikjl", np.asarray(hs, dtype=np.float64), Bs, Bs.conj())
    return C.reshape(d * d, d * d)


def gen_objects(ctx, g, volume=1):
    """yields dicts(type, basis, atol, obj, design...) — objects are built with is_physicality_required=False"""
    bases = ["1qubit", "qutrit", "2qubit"] + ([] if ctx.quick else ["qubit_qutrit"])
    reps = (1 if ctx.quick else 4) * volume
    for atol in ATOLS:
        for bname in bases + list(GENERIC):
            c, B = csys(bname)
            d = c.dim
            onh0 = is_onh0(B)
            extra = bname in ("herm_xfirst", "gm_l1first")      # added for the basis flag: gates matter, keep the state grid small
            if extra and ctx.quick and atol not in (ATOLS[0], ATOLS[3]):
                continue
            for _ in range(reps):
                # ---- states: (trace defect, minimum eigenvalue) grid incl. boundary (pure / rank deficient)
                for dt in sizes(atol):
                    for mu, rank in ((None, None), (-10 * atol, None)) if extra else ((None, None), (0.0, 1), (0.0, max(1, d - 1)), (atol / 10, None), (-atol / 10, None),
                                     (-10 * atol, None), (-0.2, None)):
                        sgn = -1.0 if (g.random() < 0.3 and mu is None) else 1.0
                        lam = spectrum(g, d, mu if rank is None else None, 1.0 + sgn * dt, rank)
                        rho = herm_with_spectrum(g, lam)
                        vec = coeffs(B, rho)
                        yield dict(type="state", basis=bname, atol=atol, c=c, B=B, onh0=onh0, arr=vec,
                                   design=dict(dt=sgn * dt, mu=float(min(lam)), rank=rank))
                if bname in GENERIC:
                    # basis-generic TP branch of gates
                    t = np.array([np.trace(b) for b in B]).real
                    b0 = int(np.argmax(np.abs(t)))
                    for dt in sizes(atol, d1=False) + [1e-5]:
                        hs = qobj.dyadic(g, (d * d, d * d), bits=6, scale=0.5)
                        a = int(g.integers(0, d * d))
                        row = (t - sum(t[b] * hs[b, :] for b in range(d * d) if b != b0)) / t[b0]
                        hs[b0, :] = row
                        hs[b0, a] += dt / t[b0]
                        yield dict(type="gate", basis=bname, atol=atol, c=c, B=B, onh0=onh0, arr=hs, design=dict(dt=dt, generic=True))
                    continue
                # ---- POVMs
                for m in (2, 3, 4):
                    for dt, where in [(x, w) for x in sizes(atol) for w in ("diag", "offdiag")]:
                        for mu in (None, 0.0, -atol / 10, -10 * atol, -0.2):
                            if ctx.quick and g.random() < 0.5:
                                continue
                            es = qobj.rand_povm_mats(g, d, m, rank=(1 if mu == 0.0 and m > d and g.random() < 0.5 else None)) \
                                if not (mu == 0.0 and m >= d and g.random() < 0.5) else projective(g, d, m)
                            if mu is not None and mu != 0.0:
                                w, v = np.linalg.eigh(es[0])
                                shift = (w[0] - mu) * np.outer(v[:, 0], v[:, 0].conj())
                                es = [es[0] - shift, es[1] + shift] + list(es[2:])
                            if where == "diag":
                                es[-1] = es[-1] + dt * np.eye(d)
                            else:
                                e01 = np.zeros((d, d), dtype=complex); e01[0, 1] = 1
                                ph = np.exp(1j * g.random() * 6.28)
                                es[-1] = es[-1] + dt * (ph * e01 + np.conj(ph) * e01.T)
                            vecs = [coeffs(B, e) for e in es]
                            yield dict(type="povm", basis=bname, atol=atol, c=c, B=B, onh0=onh0, arr=vecs, m=m,
                                       design=dict(dt=dt, where=where, mu=mu))
                # ---- structured non-CP maps whose HS matrix is orthogonal (transpose, reflections, ...)
                if atol in (ATOLS[0], ATOLS[-1]):
                    for name, hs in orthogonal_noncp(g, B, d):
                        yield dict(type="gate", basis=bname, atol=atol, c=c, B=B, onh0=onh0, arr=hs, design=dict(dt=0.0, family=name))
                        m = 2
                        hss = [0.4 * hs, 0.6 * gate_hs(g, B, d, None)]
                        yield dict(type="mprocess", basis=bname, atol=atol, c=c, B=B, onh0=onh0, arr=hss, m=m,
                                   design=dict(dt=0.0, family=name))
                # ---- measurement processes with a non-CP outcome whose weight hs[0][0] is zero or negligible
                if atol in (ATOLS[0], ATOLS[2], ATOLS[-1]):
                    n = d * d
                    for name, bad in (("zero-weight |B1)(B1|", 0.3 * np.outer(np.eye(n)[1], np.eye(n)[1])),
                                      ("zero-weight small |B1)(B1|", 1e-3 * np.outer(np.eye(n)[1], np.eye(n)[1])),
                                      ("negligible-weight -5e-10*id", -5e-10 * np.eye(n)),
                                      ("zero-weight reflection", np.diag([0.0] + [0.2] * (n - 2) + [-0.2]))):
                        base = gate_hs(g, B, d, None)
                        hss = [0.5 * base, 0.5 * base, bad]
                        yield dict(type="mprocess", basis=bname, atol=atol, c=c, B=B, onh0=onh0, arr=hss, m=3,
                                   design=dict(dt=0.0, family=name))
                # ---- gates (first-row branch) and measurement processes
                for dt in sizes(atol, d1=False) + [1e-5]:
                    for mu in (None, 0.0, -atol / 10, -10 * atol, -0.2):
                        if ctx.quick and d == 4 and g.random() < 0.6:
                            continue
                        hs = gate_hs(g, B, d, mu)
                        j = int(g.integers(0, d * d))
                        hs = hs.copy(); hs[0, j] += dt
                        yield dict(type="gate", basis=bname, atol=atol, c=c, B=B, onh0=onh0, arr=hs, design=dict(dt=dt, mu=mu, col=j))
                        if d == 4 and ctx.quick:
                            continue
                        m = int(g.integers(2, 4))
                        w = g.random(m) + 0.3; w /= w.sum()
                        hss = [w[x] * gate_hs(g, B, d, mu if x == 0 else None) for x in range(m)]
                        k = int(g.integers(0, m))
                        hss[k] = hss[k].copy(); hss[k][0, j] += dt
                        yield dict(type="mprocess", basis=bname, atol=atol, c=c, B=B, onh0=onh0, arr=hss, m=m,
                                   design=dict(dt=dt, mu=mu, col=j))


def orthogonal_noncp(g, B, d):
    """trace-preserving, positive-or-not maps that are NOT completely positive although their HS matrix is orthogonal"""
    T = hs_generic(B, lambda x: x.T).real.astype(np.float64)
    n = d * d
    out = [("transpose", T), ("unitary*transpose", hs_unitary(B, qobj.rand_unitary(g, d)) @ T),
           ("transpose*unitary", T @ hs_unitary(B, qobj.rand_unitary(g, d)))]
    refl = np.eye(n); refl[n - 1, n - 1] = -1.0
    out.append(("reflection", refl))
    out.append(("universal-not-like", np.diag([1.0] + [-1.0] * (n - 1))))
    if d == 4:
        pt = lambda x: x.reshape(2, 2, 2, 2).transpose(0, 3, 2, 1).reshape(4, 4)     # partial transpose on the second factor
        out.append(("partial-transpose", hs_generic(B, pt).real.astype(np.float64)))
    return out


def projective(g, d, m):
    u = qobj.rand_unitary(g, d)
    groups = np.array_split(np.arange(d), m)
    return [sum((np.outer(u[:, i], u[:, i].conj()) for i in grp), np.zeros((d, d), dtype=complex)) for grp in groups]


def gate_hs(g, B, d, mu):
    """CPTP (mu None: generic Kraus rank 2; mu == 0: unitary, boundary) or TP with designed Choi minimum eigenvalue"""
    if mu is None:
        return qobj.hs_of_kraus_generic(B, qobj.rand_kraus(g, d, 1, 2)[0]) if hasattr(qobj, "hs_of_kraus_generic") else \
            hs_generic(B, lambda x, ks=qobj.rand_kraus(g, d, 1, 2)[0]: sum(k @ x @ k.conj().T for k in ks)).real.astype(np.float64)
    if mu == 0.0:
        return hs_unitary(B, qobj.rand_unitary(g, d))
    return hs_unitary(B, qobj.rand_unitary(g, d)) @ hs_mix(B, d, mu) @ hs_unitary(B, qobj.rand_unitary(g, d))


def build(o, required=False):
    c, ty = o["c"], o["type"]
    kw = dict(is_physicality_required=required)
    if ty == "state":
        return State(c, np.array(o["arr"], dtype=np.float64), **kw)
    if ty == "povm":
        return Povm(c, [np.array(v, dtype=np.float64) for v in o["arr"]], **kw)
    if ty == "gate":
        return Gate(c, np.array(o["arr"], dtype=np.float64), **kw)
    return MProcess(c, [np.array(h, dtype=np.float64) for h in o["arr"]], **kw)


def impl_verdicts(o, obj, atol):
    """sub-verdicts of the real code (type-specific methods) + the generic entry points is_eq/ineq_constraint_satisfied"""
    v = _impl_verdicts(o, obj, atol)
    v["geq"] = bool(obj.is_eq_constraint_satisfied(atol))
    v["gineq"] = bool(obj.is_ineq_constraint_satisfied(atol))
    return v


def _impl_verdicts(o, obj, atol):
    ty = o["type"]
    if ty == "state":
        return dict(eq=bool(obj.is_trace_one(atol)), herm=bool(obj.is_hermitian(atol)), ineq=bool(obj.is_positive_semidefinite(atol)),
                    phys=bool(obj.is_physical(atol, atol)))
    if ty == "povm":
        return dict(eq=bool(obj.is_identity_sum(atol)), ineq=bool(obj.is_positive_semidefinite(atol)), phys=bool(obj.is_physical(atol, atol)))
    if ty == "gate":
        return dict(eq=bool(obj.is_tp(atol)), ineq=bool(obj.is_cp(atol)), phys=bool(obj.is_physical(atol, atol)))
    return dict(eq=bool(obj.is_sum_tp(atol)), ineq=bool(obj.is_cp(atol)), phys=bool(obj.is_physical(atol, atol)))


def cparts(a):
    a = np.asarray(a, dtype=np.complex128).flatten()
    return qlist(a.real), qlist(a.imag)


def ask_model(drv, o, obj, atol):
    """request with the matrices the real code itself builds and numpy's eigvalsh of them"""
    ty, c = o["type"], o["c"]
    d = c.dim
    n = d * d
    t = np.array([complex(b.diagonal().sum()) for b in c.basis()])
    tre, tim = qlist(t.real), qlist(t.imag)
    oh = 1 if c.is_orthonormal_hermitian_0thprop_identity else 0      # the branch the implementation takes
    if ty == "state":
        rho = obj.to_density_matrix_with_sparsity()
        re, im = cparts(rho)
        return drv.ask("state", d, re, im, qlist(np.linalg.eigvalsh(rho)), q(atol), q(atol))
    if ty == "povm":
        ms = [np.asarray(m_, dtype=np.complex128).reshape(d, d) for m_ in obj.matrices_with_sparsity()]
        sre, sim = cparts(obj._sum_matrix())
        mre, mim = cparts(np.array(ms))
        eig = np.hstack([np.linalg.eigvalsh(m_) for m_ in ms])
        return drv.ask("povm", d, len(ms), sre, sim, mre, mim, qlist(eig), q(atol), q(atol))
    if ty == "gate":
        ch = obj.to_choi_matrix_with_sparsity()
        cre, cim = cparts(ch)
        return drv.ask("gate", oh, n, tre, tim, qlist(obj.hs.flatten()), cre, cim, qlist(np.linalg.eigvalsh(ch)), q(atol), q(atol))
    chs = [obj.to_choi_matrix_with_sparsity(k) for k in range(len(obj.hss))]
    cre, cim = cparts(np.array(chs))
    eig = np.hstack([np.linalg.eigvalsh(ch) for ch in chs])
    return drv.ask("mp", oh, n, len(chs), tre, tim, qlist(np.hstack([h.flatten() for h in obj.hss])), cre, cim, qlist(eig), q(atol), q(atol))


def correspondence(ctx):
    try:
        tol, atol0 = tolerances()
        ctx.notes.append("generated tolerances: " + "; ".join(f"{s}_rtol={r}" for s, r, _ in tol) + f"; settings_atol={atol0}")
    except pytolean.Untranslatable as e:
        ctx.notes.append(f"tolerances not translatable: {e}")
    ctx.partial = list(PARTIAL)
    drv = Driver("C01")
    pend = []
    g = ctx.npgen(1)
    # numpy's isclose formula itself
    for _ in range(200 if ctx.quick else 2000):
        b = float(g.choice([0.0, 1.0, -2.5, 1e-3]))
        atol = float(g.choice(ATOLS)); rtol = float(g.choice([0.0, 1e-5, 1e-2]))
        thr = atol + rtol * abs(b)
        a = b + float(g.choice([-1, 1])) * thr * float(g.choice([0.0, 0.1, 0.5, 2.0, 10.0, 1e3]))
        pend.append(("np.isclose", (a, b, atol, rtol), "1" if bool(np.isclose(a, b, atol=atol, rtol=rtol)) else "0",
                     drv.ask("isclose", q(a), q(b), q(atol), q(rtol))))
        ctx.case(("isclose", a, b, atol, rtol), nontrivial=True)
    pend.append(("Settings.get_atol", (), q(Fraction(repr(Settings.get_atol()))), drv.ask("atol0")))
    for o in gen_objects(ctx, g):
        obj = build(o)
        atol = o["atol"]
        try:
            v = impl_verdicts(o, obj, atol)
        except Exception as e:  # noqa
            ctx.disagree("verdict raises", (o["type"], o["basis"], o["design"]), f"{type(e).__name__}: {e}", "-"); continue
        want = {"state": f"{int(v['eq'])} {int(v.get('herm', 0))} {int(v['ineq'])} {int(v['phys'])}"}.get(
            o["type"], f"{int(v['eq'])} {int(v['ineq'])} {int(v['phys'])}")
        pend.append((f"{o['type']} verdicts", (o["type"], o["basis"], atol, o["design"], common.jsonable(o["arr"])), want,
                     ask_model(drv, o, obj, atol)))
        ctx.count(f"{o['type']} basis={o['basis']}")
        ctx.count(f"atol={atol:g}")
        ctx.count(f"{o['type']} physical={v['phys']}")
        ctx.case((o["type"], o["basis"], atol, repr(o["design"]), tuple(np.hstack([np.asarray(x).flatten() for x in ([o["arr"]] if o["type"] in ("state", "gate") else o["arr"])]))),
                 nontrivial=not v["phys"] or o["design"].get("mu") == 0.0,
                 sample={"type": o["type"], "basis": o["basis"], "atol": atol, "design": o["design"], "verdicts": v})
        # is_physical with exactly one tolerance given (the other one is the global setting)
        if atol != Settings.get_atol():
            ge, gi = bool(obj.is_eq_constraint_satisfied(None)), bool(obj.is_ineq_constraint_satisfied(None))
            g0 = q(Fraction(repr(Settings.get_atol())))
            for ae, ai in ((atol, None), (None, atol), (None, None)):
                r = "1" if obj.is_physical(atol_eq_const=ae, atol_ineq_const=ai) else "0"
                pend.append((f"{o['type']} is_physical one tolerance", (o["type"], o["basis"], atol, ae is None, ai is None, o["design"]), r,
                             drv.ask("physargs", "n" if ae is None else q(ae), "n" if ai is None else q(ai), g0,
                                     int(v["eq"]), int(ge), int(v["ineq"]), int(gi))))
        # constructor at the default tolerance
        if atol == ATOLS[0]:
            try:
                build(o, required=True); r = "ok"
            except ValueError as e:
                r = "notPhysical" if "not physically correct" in str(e) else f"ValueError {e}"
            phys0 = obj.is_physical()
            pend.append((f"{o['type']} constructor", (o["type"], o["basis"], o["design"]), r, drv.ask("mkt", o["type"], 1, int(bool(phys0)))))
            pend.append((f"{o['type']} constructor", (o["type"], "not required"), "ok", drv.ask("mkt", o["type"], 0, int(bool(phys0)))))
    # the basis flag (branch selector of gate.is_tp): per-subsystem basis verdicts -> generated aggregation
    for bname in ("1qubit", "qutrit", "2qubit") + GENERIC + (() if ctx.quick else ("qubit_qutrit",)):
        c, B = csys(bname)
        bits, eflags = [], ""
        for e in c.elemental_systems:
            b_ = e.basis
            bits.append("".join("1" if x else "0" for x in (b_.is_normal(), b_.is_orthogonal(), b_.is_hermitian(), b_.is_0thpropI())))
            eflags += "1" if e.is_orthonormal_hermitian_0thprop_identity else "0"
        want = ("1" if c.is_orthonormal_hermitian_0thprop_identity else "0") + " " + eflags
        pend.append(("basis flag", (bname, bits), want, drv.ask("onh0", ",".join(bits))))
        # the basis verdicts themselves (is_hermitian, is_orthogonal, is_normal) on the matrices of each subsystem's basis
        for e in c.elemental_systems:
            b_ = e.basis
            mats = [np.array(x.toarray() if hasattr(x, "toarray") else x, dtype=np.complex128) for x in b_]
            re_, im_ = cparts(np.array(mats))
            wantb = " ".join("1" if x else "0" for x in (b_.is_hermitian(), b_.is_orthogonal(), b_.is_normal()))
            pend.append(("basis verdicts", (bname, type(b_).__name__), wantb,
                         drv.ask("basis", type(b_).__name__, b_.dim, len(mats), re_, im_, q(Fraction(repr(Settings.get_atol()))))))
        ctx.case(("basisflag", bname), nontrivial=len(bits) > 1)
    # origin objects
    for bname in ("1qubit", "qutrit", "2qubit"):
        c, B = csys(bname)
        d = c.dim
        for m in (2, 3, 5):
            g2 = ctx.npgen(7)
            for ty, o in (("state", qobj.rand_state(g2, c)), ("povm", qobj.rand_povm(g2, c, m)), ("gate", qobj.rand_gate(g2, c)),
                          ("mprocess", qobj.rand_mprocess(g2, c, m)[0])):
                org = o.generate_origin_obj()
                par = {"state": 1 / np.sqrt(d), "povm": np.sqrt(d) / m}.get(ty, 0.0)
                pend.append((f"{ty} origin", (bname, m), qlist(org.to_stacked_vector()), drv.ask("origin", ty, d * d, m, q(par)), "list"))
                zst = o.generate_zero_obj().to_stacked_vector()
                pend.append((f"{ty} zero", (bname, m), qlist(zst), drv.ask("zero", len(zst)), "list"))
    out = drv.run()
    for p in pend:
        op, inp, impl, i = p[:4]
        ctx.corr_ops.add(op)
        if len(p) > 4:
            ok = out[i] != "bad-op" and common.allclose([float(Fraction(x)) for x in impl.split(",")], [float(x) for x in common.unqlist(out[i])])
        else:
            ok = out[i] == impl
        if not ok:
            ctx.disagree(op, inp, impl, out[i])


PARTIAL = [
    "traceOne / identitySum verdict <=> defect <= atol holds only if the generated rtol of State.is_trace_one / Povm.is_identity_sum is 0 "
    "(traceOne_exact_iff_rtol_zero, identitySum_exact_iff_rtol_zero); on the current tree it is 1e-5 (defect D1, open known finding; closed "
    "witnesses traceOne_exact_fails, identitySum_exact_fails)",
    "PSD verdict <-> Matrix.PosSemidef is a sandwich (psdVerdict_sandwich_matrix, state/gatePhysical_sandwich_matrix) under the explicit contracts: "
    "M exactly Hermitian, eigvalsh list eps-accurate (EigApprox); psdVerdict_eigs_iff_posSemidef_exact_partial needs a rational spectrum; "
    "POVM / measurement-process verdicts are reduced to per-element psdVerdict (povmPsd_iff, mpCp_iff), the matrix-level sandwich is applied per element",
    "basis verdicts: is_hermitian / is_orthogonal / is_normal are modelled with generated rtol and characterised (basisIs*_iff); is_0thpropI "
    "(np.allclose against complex entries with the default rtol) stays a parameter of the generated flag; the TP verdict is characterised "
    "syntactically (tp_row_iff, tpTrace_iff) and at tolerance 0 as exact trace preservation on every basis element (tpTrace_zero_iff); the extension "
    "by linearity to arbitrary operators is not stated",
    "origin objects are proved physical as scalar operator matrices (origin_state_physical, origin_povm_physical, origin_gate_tp, "
    "origin_mprocess_sum_tp) for identity-first orthonormal bases only; that the library's origin arrays denote these operators is checked on the "
    "real code; on other Hermitian bases the library's origin object is not physical (finding C01-F2)",
    "earlier ValueError branches of the constructors (shape, dtype, dimension) are not part of Ctor",
]


# ----------------------------------------------------------------------------- oracle: the definitions, independently
CLSNAME = {"state": "State", "povm": "Povm", "gate": "Gate", "mprocess": "MProcess"}
EQNAME = {"state": "State.is_trace_one", "povm": "Povm.is_identity_sum", "gate": "gate.is_tp", "mprocess": "MProcess.is_sum_tp"}
INEQNAME = {"state": "State.is_positive_semidefinite", "povm": "Povm.is_positive_semidefinite", "gate": "gate.is_cp", "mprocess": "MProcess.is_cp"}
RTOL_NUMPY = 1e-5


def classify(defect, atol):
    """True: within tolerance with margin; False: violated with margin; None: too close to the threshold to decide in floats"""
    if defect <= atol / 5:
        return True
    if defect >= 5 * atol:
        return False
    return None


def psd_expected(M, atol):
    M = (M + M.conj().T) / 2
    w = np.linalg.eigh(M)[0]
    lo = float(w.min())
    if lo >= -atol / 5:
        return True, lo
    if lo <= -5 * atol:
        return False, lo
    return None, lo


def expected(o, atol):
    """(eq, ineq, details) decided from the mathematical definitions on operators rebuilt here from the parameters and the basis"""
    ty, B, c = o["type"], o["B"], o["c"]
    d = c.dim
    n = d * d
    det = {}
    if ty == "state":
        rho = sum(v * b for v, b in zip(o["arr"], B))
        det["defect"] = abs(np.trace(rho) - 1)
        eq = classify(det["defect"], atol)
        ineq, det["min_eig"] = psd_expected(rho, atol)
        det["slack_ok"] = det["defect"] <= atol + RTOL_NUMPY
    elif ty == "povm":
        es = [sum(v * b for v, b in zip(vec, B)) for vec in o["arr"]]
        S = sum(es) - np.eye(d)
        det["defect"] = float(np.abs(S).max())
        det["offdiag"] = float(np.abs(S - np.diag(np.diag(S))).max())
        eq = classify(det["defect"], atol)
        rs = [psd_expected(e, atol) for e in es]
        det["min_eig"] = min(r[1] for r in rs)
        ineq = False if any(r[0] is False for r in rs) else (None if any(r[0] is None for r in rs) else True)
        det["slack_ok"] = classify(det["offdiag"], atol) is True and float(np.abs(np.diag(S)).max()) <= atol + RTOL_NUMPY
    else:
        hs = np.asarray(o["arr"], dtype=np.float64) if ty == "gate" else np.sum(np.asarray(o["arr"], dtype=np.float64), axis=0)
        if o["onh0"]:
            e0 = np.zeros(n); e0[0] = 1
            det["defect"] = float(np.abs(hs[0] - e0).max())
        else:
            t = np.array([np.trace(b) for b in B])
            det["defect"] = float(np.abs(t @ hs - t).max())
        eq = classify(det["defect"], atol)
        det["slack_ok"] = False
        orthonormal = o["basis"] != "pauli_unnorm"
        if not orthonormal:
            ineq = None
        else:
            hl = [np.asarray(o["arr"])] if ty == "gate" else [np.asarray(h) for h in o["arr"]]
            rs = [psd_expected(own_choi(B, h), atol) for h in hl]
            det["min_eig"] = min(r[1] for r in rs)
            ineq = False if any(r[0] is False for r in rs) else (None if any(r[0] is None for r in rs) else True)
    return eq, ineq, det


def rep_of(o, atol):
    return {"kind": "object", "type": o["type"], "basis": o["basis"], "atol": atol, "m": o.get("m"),
            "arr": common.jsonable(o["arr"]), "design": common.jsonable(o["design"])}


def check_object(ctx, o, atols=None, ctor=True):
    ty = o["type"]
    try:
        obj = build(o)
    except Exception as e:  # noqa
        ctx.violate(f"C01/{CLSNAME[ty]}.__init__/raises-unrequired", f"{type(e).__name__}: {e}", rep_of(o, o["atol"])); return
    prev = None
    for atol in (atols or [o["atol"]]):
        rep = rep_of(o, atol)
        try:
            v = impl_verdicts(o, obj, atol)
        except Exception as e:  # noqa
            ctx.violate(f"C01/{CLSNAME[ty]}/verdict-raises", f"{type(e).__name__}: {e}", rep); return
        eq, ineq, det = expected(o, atol)
        tag = f"{o['basis']} atol={atol:g} defect={det.get('defect', 0):.3g} min_eig={det.get('min_eig', float('nan')):.3g}"
        if eq is not None and v["eq"] != eq:
            if v["eq"] and det["slack_ok"]:
                ctx.violate(f"C01/{EQNAME[ty]}/relative-slack", f"{tag}: equality defect > atol accepted (within atol + 1e-5*|1|)", rep)
            else:
                ctx.violate(f"C01/{EQNAME[ty]}/{'accepts' if v['eq'] else 'rejects'}" + ("" if o["onh0"] else "/generic-basis"),
                            f"{tag}: verdict {v['eq']}, definition {eq}", rep)
        if ineq is not None and v["ineq"] != ineq:
            ctx.violate(f"C01/{INEQNAME[ty]}/{'accepts' if v['ineq'] else 'rejects'}", f"{tag}: verdict {v['ineq']}, definition {ineq}", rep)
        if ty == "state" and not v["herm"]:
            ctx.violate("C01/State.is_hermitian/rejects", f"{tag}: real vec on a Hermitian basis judged non-Hermitian", rep)
        if v["geq"] != v["eq"] or v["gineq"] != v["ineq"]:
            ctx.violate(f"C01/{CLSNAME[ty]}.is_{'eq' if v['geq'] != v['eq'] else 'ineq'}_constraint_satisfied/differs",
                        f"{tag}: is_eq/ineq_constraint_satisfied = ({v['geq']}, {v['gineq']}) but the sub-verdicts are ({v['eq']}, {v['ineq']})", rep)
        if v["phys"] != (v["eq"] and v["ineq"]):
            ctx.violate(f"C01/{CLSNAME[ty]}.is_physical/wiring", f"{tag}: is_physical={v['phys']} but eq={v['eq']} ineq={v['ineq']}", rep)
        # exactly one tolerance given: the other one is the global setting (None), independently
        try:
            g_eq, g_ineq = bool(obj.is_eq_constraint_satisfied(None)), bool(obj.is_ineq_constraint_satisfied(None))
            p_eq_only = bool(obj.is_physical(atol_eq_const=atol))
            p_ineq_only = bool(obj.is_physical(atol_ineq_const=atol))
        except Exception as e:  # noqa
            ctx.violate(f"C01/{CLSNAME[ty]}.is_physical/one-tolerance/raises", f"{type(e).__name__}: {e}", rep); return
        if p_eq_only != (v["eq"] and g_ineq):
            ctx.violate(f"C01/{CLSNAME[ty]}.is_physical/one-tolerance/eq-only",
                        f"{tag}: is_physical(atol_eq_const={atol:g})={p_eq_only} but eq({atol:g})={v['eq']} and ineq(global)={g_ineq}", rep)
        if p_ineq_only != (g_eq and v["ineq"]):
            ctx.violate(f"C01/{CLSNAME[ty]}.is_physical/one-tolerance/ineq-only",
                        f"{tag}: is_physical(atol_ineq_const={atol:g})={p_ineq_only} but eq(global)={g_eq} and ineq({atol:g})={v['ineq']}", rep)
        if prev is not None:
            for k in ("eq", "ineq", "phys"):
                if prev[k] and not v[k]:
                    ctx.violate(f"C01/{CLSNAME[ty]}/{k}/non-monotone", f"{tag}: true at a smaller atol, false at {atol:g}", rep)
        prev = v
    # verdicts follow the object: after set_zero() they are those of the zero operator(s)
    if ctor:
        a0 = Settings.get_atol()
        rep = dict(rep_of(o, a0), sequence="verdicts; set_zero(); verdicts")
        try:
            ob2 = build(o)
            impl_verdicts(o, ob2, a0)
            ob2.set_zero()
            z = impl_verdicts(o, ob2, a0)
            stz = np.abs(ob2.to_stacked_vector()).max()
        except Exception as e:  # noqa
            ctx.violate(f"C01/{CLSNAME[ty]}/after-set_zero/raises", f"{type(e).__name__}: {e}", rep); return
        if stz != 0 or z["eq"] or z["geq"] or not z["ineq"] or not z["gineq"] or z["phys"]:
            ctx.violate(f"C01/{CLSNAME[ty]}/after-set_zero", f"{o['basis']}: verdicts of the zeroed object are eq={z['eq']} ineq={z['ineq']} "
                        f"physical={z['phys']} (the zero operator: eq False, ineq True, physical False)", rep)
    # constructor with physicality required (default tolerance of Settings)
    if ctor:
        a0 = Settings.get_atol()
        rep = rep_of(o, a0)
        eq, ineq, det = expected(o, a0)
        try:
            build(o, required=True); raised = False
        except ValueError as e:
            raised = True
            if "not physically correct" not in str(e):
                ctx.violate(f"C01/{CLSNAME[ty]}.__init__/other-error", str(e), rep); return
        phys0 = bool(obj.is_physical())
        if raised == phys0:
            ctx.violate(f"C01/{CLSNAME[ty]}.__init__/wiring", f"raised={raised} but is_physical()={phys0}", rep)
        if eq is not None and ineq is not None:
            want_raise = not (eq and ineq)
            if want_raise and not raised:
                if ineq and det["slack_ok"]:
                    ctx.violate(f"C01/{EQNAME[ty]}/relative-slack", f"{o['basis']}: constructor accepts equality defect {det['defect']:.3g} at atol {a0:g}", rep)
                else:
                    ctx.violate(f"C01/{CLSNAME[ty]}.__init__/accepts-nonphysical", f"{o['basis']} defect={det['defect']:.3g} min_eig={det.get('min_eig')}", rep)
            if not want_raise and raised:
                ctx.violate(f"C01/{CLSNAME[ty]}.__init__/rejects-physical", f"{o['basis']} defect={det['defect']:.3g} min_eig={det.get('min_eig')}", rep)


def check_settings(ctx):
    """atol=None means the global setting, and changing the setting changes the verdict accordingly"""
    c, B = csys("1qubit")
    rho = np.diag([0.5 + 2e-6, 0.5 + 1e-6]).astype(complex)        # trace defect 3e-6... far beyond the slack? no: use 1e-3
    rho = np.diag([0.5 + 6e-4, 0.5 + 4e-4]).astype(complex)        # trace defect 1e-3
    st = State(c, coeffs(B, rho), is_physicality_required=False)
    old = Settings.get_atol()
    rep = {"kind": "settings"}
    try:
        a = (st.is_trace_one(), st.is_physical())
        Settings.set_atol(1e-2)
        b = (st.is_trace_one(), st.is_physical(), st.is_trace_one(1e-2))
    finally:
        Settings.set_atol(old)
    if a != (False, False) or b != (True, True, True) or Settings.get_atol() != old:
        ctx.violate("C01/Settings/atol-default", f"verdicts with atol=None do not follow Settings: default {a}, after set_atol(1e-2) {b}", rep)
    ctx.case(("settings",), nontrivial=True)
    # loosened global tolerance, exactly one (tight) tolerance given: the other verdict is taken at the global one
    for ty in ("state", "gate"):
        if ty == "state":
            o1 = State(c, coeffs(B, np.diag([1.0 + 1e-3, -1e-3]).astype(complex)), is_physicality_required=False)   # unit trace, min eig -1e-3
            o2 = State(c, coeffs(B, np.diag([0.5 + 1e-3, 0.5]).astype(complex)), is_physicality_required=False)     # trace defect 1e-3, PSD
        else:
            o1 = Gate(c, hs_mix(B, 2, -1e-3), is_physicality_required=False)                                         # TP, Choi min eig -1e-3
            h = hs_mix(B, 2, 0.1).copy(); h[0, 1] += 1e-3
            o2 = Gate(c, h, is_physicality_required=False)                                                            # TP defect 1e-3, CP
        try:
            Settings.set_atol(1e-2)
            got = tuple(bool(x) for x in (o1.is_physical(atol_eq_const=1e-10), o1.is_physical(atol_ineq_const=1e-10),
                   o2.is_physical(atol_eq_const=1e-10), o2.is_physical(atol_ineq_const=1e-10)))
        finally:
            Settings.set_atol(old)
        tight = tuple(bool(x) for x in (o1.is_physical(atol_eq_const=1e-2), o1.is_physical(atol_ineq_const=1e-2),
                 o2.is_physical(atol_eq_const=1e-2), o2.is_physical(atol_ineq_const=1e-2)))
        ctx.case(("settings-one-tolerance", ty), nontrivial=True)
        if got != (True, False, False, True):
            ctx.violate(f"C01/{CLSNAME[ty]}.is_physical/one-tolerance/global-loosened",
                        f"global atol 1e-2, one tolerance 1e-10 given: (ineq-violating: eq-only, ineq-only; eq-violating: eq-only, ineq-only) = {got}, "
                        "expected (True, False, False, True)", dict(rep, type=ty))
        if tight != (False, True, True, False):
            ctx.violate(f"C01/{CLSNAME[ty]}.is_physical/one-tolerance/global-default",
                        f"default global atol, one tolerance 1e-2 given: {tight}, expected (False, True, True, False)", dict(rep, type=ty))


def check_origin(ctx, bname, m, g):
    c, B = csys(bname)
    d = c.dim
    n = d * d
    kw = dict(is_physicality_required=False)
    phys = {"state": qobj.rand_state(g, c), "povm": qobj.rand_povm(g, c, m), "gate": qobj.rand_gate(g, c),
            "mprocess": qobj.rand_mprocess(g, c, m)[0]}
    sources = {
        "state": [("physical", phys["state"]), ("random", State(c, qobj.dyadic(g, n, 6, 1.0) + 0.25, **kw)),
                  ("gradient", phys["state"].calc_gradient(1)), ("zero", phys["state"].generate_zero_obj())],
        "povm": [("physical", phys["povm"]), ("random", Povm(c, [qobj.dyadic(g, n, 6, 1.0) + 0.25 for _ in range(m)], **kw)),
                 ("gradient", phys["povm"].calc_gradient(1)), ("zero", phys["povm"].generate_zero_obj())],
        "gate": [("physical", phys["gate"]), ("random", Gate(c, qobj.dyadic(g, (n, n), 6, 1.0) + 0.25, **kw)),
                 ("gradient", phys["gate"].calc_gradient(1)), ("zero", phys["gate"].generate_zero_obj())],
        "mprocess": [("physical", phys["mprocess"]), ("random", MProcess(c, [qobj.dyadic(g, (n, n), 6, 1.0) + 0.25 for _ in range(m)], **kw)),
                     ("gradient", phys["mprocess"].calc_gradient(1)), ("zero", phys["mprocess"].generate_zero_obj()),
                     ("shape=(2,m)", MProcess(c, [h / 2 for h in phys["mprocess"].hss] * 2, shape=(2, m))),
                     ("shape=(m,2)", MProcess(c, [h / 2 for h in phys["mprocess"].hss] * 2, shape=(m, 2)))],
    }
    for ty, srcs in sources.items():
        if ty == "state":
            want = coeffs(B, np.eye(d) / d)
        elif ty == "povm":
            want = np.hstack([coeffs(B, np.eye(d) / m)] * m)
        else:
            dep = hs_generic(B, lambda x: np.trace(x) * np.eye(d) / d).real
            want = dep.flatten() if ty == "gate" else np.hstack([dep.flatten() / m] * m)
        want1 = want
        for sname, o in srcs:
            rep = {"kind": "origin", "type": ty, "basis": bname, "m": m, "source": sname}
            sfx = "" if sname == "physical" else ("/multi-axis-shape" if sname.startswith("shape") else "/from-nonphysical-source")
            want = np.hstack([dep.flatten() / (2 * m)] * (2 * m)) if sname.startswith("shape") else want1
            ctx.case(("origin", ty, bname, m, sname), nontrivial=True)
            try:
                before = np.array(o.to_stacked_vector(), dtype=np.float64).copy()
                org, zero = o.generate_origin_obj(), o.generate_zero_obj()
                ok_phys = bool(org.is_physical())
                st, z = org.to_stacked_vector(), zero.to_stacked_vector()
            except Exception as e:  # noqa
                ctx.violate(f"C01/{CLSNAME[ty]}.generate_origin_obj/raises" + sfx, f"{bname} m={m} source={sname}: {type(e).__name__}: {e}", rep); continue
            if not ok_phys:
                ctx.violate(f"C01/{CLSNAME[ty]}.generate_origin_obj/not-physical" + sfx,
                            f"{bname} m={m}: origin object derived from a {sname} object is not physical at the default atol", rep)
            if st.shape != want.shape or np.abs(st - want).max() > 1e-12:
                ctx.violate(f"C01/{CLSNAME[ty]}.generate_origin_obj/wrong-operator" + sfx,
                            f"{bname} m={m}: origin derived from a {sname} object is not the maximally mixed / uniform / depolarising object", rep)
            if np.abs(z).max() != 0 or z.shape != want.shape:
                ctx.violate(f"C01/{CLSNAME[ty]}.generate_zero_obj/nonzero" + sfx, f"{bname} m={m} source={sname}: zero object is not the zero operator", rep)
            if not np.array_equal(before, np.asarray(o.to_stacked_vector())):
                ctx.violate(f"C01/{CLSNAME[ty]}.generate_origin_obj/mutates-source", f"{bname} m={m} source={sname}", rep)


def check_constructor_variants(ctx):
    """construction with physicality required raises exactly for non-physical objects (default atol), whatever the other
    keyword arguments are and through every construction entry point (constructor, convert_var_to_*, generate_from_var)"""
    from quara.objects import state as S_, povm as P_, gate as G_
    g = ctx.npgen(5)
    a0 = Settings.get_atol()
    variants = [("default", {}), ("eps_proj_physical=1e-3", {"eps_proj_physical": 1e-3}),
                ("eps_proj_physical=1e-3,flag=off", {"eps_proj_physical": 1e-3, "on_para_eq_constraint": False}),
                ("is_estimation_object=False", {"is_estimation_object": False}),
                ("is_estimation_object=False,algo flags off", {"is_estimation_object": False, "on_algo_eq_constraint": False,
                                                               "on_algo_ineq_constraint": False})]
    for bname in ("1qubit", "qutrit"):
        c, B = csys(bname)
        d = c.dim
        cases = []
        for viol in (0.0, 1e-4):          # between the default atol and eps_proj_physical (and above the 1e-5 slack of D1)
            for kind in ("eq", "ineq"):
                if viol == 0.0 and kind == "ineq":
                    continue
                mu = -viol if kind == "ineq" else None
                dt = viol if kind == "eq" else 0.0
                rho = herm_with_spectrum(g, spectrum(g, d, mu, 1.0 + dt))
                cases.append(("state", coeffs(B, rho), None, viol, kind))
                es = qobj.rand_povm_mats(g, d, 3)
                if mu is not None:
                    w, v = np.linalg.eigh(es[0]); sh = (w[0] - mu) * np.outer(v[:, 0], v[:, 0].conj()); es = [es[0] - sh, es[1] + sh, es[2]]
                es[-1] = es[-1] + dt * np.eye(d)
                cases.append(("povm", [coeffs(B, e) for e in es], 3, viol, kind))
                hs = gate_hs(g, B, d, mu).copy(); hs[0, 1] += dt
                cases.append(("gate", hs, None, viol, kind))
                hss = [0.5 * gate_hs(g, B, d, mu), 0.5 * gate_hs(g, B, d, None)]; hss[1] = hss[1].copy(); hss[1][0, 1] += dt
                cases.append(("mprocess", hss, 2, viol, kind))
        for ty, arr, m, viol, kind in cases:
            o = dict(type=ty, basis=bname, atol=a0, c=c, B=B, onh0=True, arr=arr, m=m, design=dict(viol=viol, kind=kind))
            obj = build(o)
            want_raise = viol > 0
            for vname, kw in variants:
                entries = [("constructor", lambda kw=kw: {"state": State, "povm": Povm, "gate": Gate, "mprocess": MProcess}[ty](
                    c, (np.array(arr) if ty in ("state", "gate") else [np.array(a) for a in arr]), is_physicality_required=True, **kw))]
                flag = kw.get("on_para_eq_constraint", True)
                if viol == 0.0 or not flag or kind == "ineq":      # the flag-on parametrisation removes an equality violation by construction
                    tmpl = {"state": State, "povm": Povm, "gate": Gate, "mprocess": MProcess}[ty](
                        c, (np.array(arr) if ty in ("state", "gate") else [np.array(a) for a in arr]), is_physicality_required=False,
                        on_para_eq_constraint=flag)
                    v = tmpl.to_var()
                    gkw = {k: x for k, x in kw.items() if k != "on_para_eq_constraint"}
                    entries.append(("generate_from_var", lambda tmpl=tmpl, v=v, gkw=gkw: tmpl.generate_from_var(v, is_physicality_required=True, **gkw)))
                    conv = {"state": S_.convert_var_to_state, "povm": P_.convert_var_to_povm, "gate": G_.convert_var_to_gate}.get(ty)
                    if conv is not None:
                        entries.append(("convert_var_to", lambda conv=conv, v=v, flag=flag, gkw=gkw: conv(c, v, is_physicality_required=True,
                                                                                                       on_para_eq_constraint=flag, **gkw)))
                for ename, fn in entries:
                    ctx.case(("ctor-variant", bname, ty, viol, kind, vname, ename), nontrivial=True)
                    rep = dict(rep_of(o, a0), kind="ctor-variant")
                    try:
                        fn(); raised = False
                    except ValueError as e:
                        raised = "not physically correct" in str(e)
                        if not raised:
                            ctx.violate(f"C01/{CLSNAME[ty]}.{ename}/other-error", f"{bname} {vname}: {e}", rep); continue
                    if raised != want_raise:
                        ctx.violate(f"C01/{CLSNAME[ty]}.{ename}/{'accepts-nonphysical' if want_raise else 'rejects-physical'}/kwargs",
                                    f"{bname} {kind}-violation {viol:g} at default atol {a0:g}, {vname}: raised={raised}", rep)


def check_global_independence(ctx):
    """a verdict called with an explicit tolerance is the same whatever the global Settings atol is; checked on structured objects
    that have small but non-zero parameters / operator entries (near-identity rotations, slightly non-CP amplifications, nearly pure
    states, nearly projective POVMs) and against the definition"""
    g = ctx.npgen(6)
    old = Settings.get_atol()
    for bname in ("1qubit", "qutrit"):
        c, B = csys(bname)
        d = c.dim
        n = d * d
        objs = []
        for theta in (0.04, 0.01, 1e-3):
            h = qobj.rand_hermitian(g, d); h = h / np.linalg.norm(h, 2)
            w, v = np.linalg.eigh(h)
            u = (v * np.exp(-1j * theta * w)) @ v.conj().T
            hs = hs_unitary(B, u)
            objs.append(dict(type="gate", arr=hs, m=None, design=dict(family=f"rotation by {theta}")))
            objs.append(dict(type="mprocess", arr=[0.5 * hs, 0.5 * hs_unitary(B, np.eye(d))], m=2, design=dict(family=f"rotation by {theta} / 2")))
            psi = np.zeros(d, dtype=complex); psi[0] = np.cos(theta); psi[1] = np.sin(theta)
            objs.append(dict(type="state", arr=coeffs(B, np.outer(psi, psi.conj())), m=None, design=dict(family=f"pure state tilted by {theta}")))
            p0 = np.outer(psi, psi.conj())
            objs.append(dict(type="povm", arr=[coeffs(B, p0), coeffs(B, np.eye(d) - p0)], m=2, design=dict(family=f"projective POVM tilted by {theta}")))
        for amp in (1e-4, 1e-6):
            hs = np.eye(n); hs[n - 1, n - 1] += amp
            objs.append(dict(type="gate", arr=hs, m=None, design=dict(family=f"amplification by {amp}")))
            objs.append(dict(type="mprocess", arr=[0.5 * hs, 0.5 * np.eye(n)], m=2, design=dict(family=f"amplification by {amp} / 2")))
        for o in objs:
            o.update(basis=bname, c=c, B=B, onh0=True)
            for atol in (1e-9, 1e-6):
                o["atol"] = atol
                rep = dict(rep_of(o, atol), kind="global-independence", global_atol=1e-3)
                ctx.case(("global-independence", bname, o["type"], o["design"]["family"], atol), nontrivial=True)
                try:
                    obj = build(o)
                    v0 = impl_verdicts(o, obj, atol)
                    Settings.set_atol(1e-3)
                    try:
                        v1 = impl_verdicts(o, build(o), atol)
                    finally:
                        Settings.set_atol(old)
                except Exception as e:  # noqa
                    ctx.violate(f"C01/{CLSNAME[o['type']]}/explicit-atol-under-global-setting/raises", f"{type(e).__name__}: {e}", rep); continue
                eqx, ineqx, det = expected(o, atol)
                for k, want in (("eq", eqx), ("ineq", ineqx)):
                    if v0[k] != v1[k] or (want is not None and v1[k] != want):
                        nm = EQNAME[o["type"]] if k == "eq" else INEQNAME[o["type"]]
                        ctx.violate(f"C01/{nm}/depends-on-global-atol",
                                    f"{bname} {o['design']['family']}: verdict at explicit atol={atol:g} is {v0[k]} under the default global setting, "
                                    f"{v1[k]} under Settings.set_atol(1e-3); definition {want} (min_eig={det.get('min_eig')})", rep)


def check_bases(ctx):
    """the branch selector of gate.is_tp and the MProcess constructor guard, against the basis matrices themselves"""
    for bname in ("1qubit", "qutrit", "2qubit") + GENERIC:
        c, B = csys(bname)
        ctx.case(("basis", bname), nontrivial=bname in GENERIC)
        rep = {"kind": "basis", "basis": bname}
        want = is_onh0(B)
        if bool(c.is_orthonormal_hermitian_0thprop_identity) != want:
            ctx.violate("C01/CompositeSystem/onh0-flag", f"{bname}: is_orthonormal_hermitian_0thprop_identity="
                        f"{c.is_orthonormal_hermitian_0thprop_identity}, the product basis says {want}", rep)
        d = c.dim
        hss = [hs_unitary(B, np.eye(d)) / 2, hs_unitary(B, np.eye(d)) / 2]
        try:
            MProcess(c, hss, is_physicality_required=False); built = True
        except ValueError:
            built = False
        if built != want:
            ctx.violate("C01/MProcess.__init__/basis-guard", f"{bname}: constructor {'accepts' if built else 'rejects'} a system whose "
                        f"basis is {'not ' if not want else ''}orthonormal Hermitian identity-first", rep)


def check_origin_generic(ctx):
    """origin objects on Hermitian bases that are not orthonormal identity-first (State / Povm / Gate accept such bases)"""
    for bname in ("herm_noid", "herm_xfirst", "pauli_unnorm"):
        c, B = csys(bname)
        d = c.dim
        kw = dict(is_physicality_required=False)
        srcs = {"state": State(c, coeffs(B, np.eye(d) / d), **kw), "povm": Povm(c, [coeffs(B, np.eye(d) / 2)] * 2, **kw),
                "gate": Gate(c, hs_unitary(B, np.eye(d)), **kw)}
        for ty, o in srcs.items():
            ctx.case(("origin-generic", bname, ty), nontrivial=True)
            rep = {"kind": "origin-generic", "basis": bname, "type": ty}
            try:
                ok = bool(o.generate_origin_obj().is_physical())
            except Exception as e:  # noqa
                ctx.violate(f"C01/{CLSNAME[ty]}.generate_origin_obj/raises/generic-basis", f"{bname}: {type(e).__name__}: {e}", rep); continue
            if not ok:
                ctx.violate("C01/generate_origin_obj/not-physical/non-identity-first-basis",
                            f"{bname}: the origin object of a {CLSNAME[ty]} is not physical (the origin arrays e0 / E00 assume an "
                            "orthonormal identity-first basis)", rep)


def oracle(ctx, volume=1):
    check_global_independence(ctx)
    check_bases(ctx)
    check_origin_generic(ctx)
    check_constructor_variants(ctx)
    g = ctx.npgen(2)
    k = 0
    for o in gen_objects(ctx, g, volume):
        k += 1
        mono = (k % 3 == 0) or not ctx.quick
        check_object(ctx, o, atols=[a for a in ATOLS if a >= o["atol"]] if mono else None, ctor=(o["atol"] == ATOLS[0]))
        ctx.case(("oracle", k), nontrivial=True)
        ctx.count("oracle objects")
    check_settings(ctx)
    g3 = ctx.npgen(3)
    for bname in ["1qubit", "qutrit", "2qubit"] + ([] if ctx.quick else ["qubit_qutrit"]):
        for m in (2, 3, 4, 5):
            check_origin(ctx, bname, m, g3)


def search(ctx):
    oracle(ctx, volume=2)


def replay(ctx, data):
    r = data["replay"]
    print("replaying", {k: v for k, v in r.items() if k != "arr"})
    before = len(ctx.violations)
    if r["kind"] == "object":
        c, B = csys(r["basis"])
        o = dict(type=r["type"], basis=r["basis"], atol=r["atol"], c=c, B=B, onh0=is_onh0(B),
                 arr=np.array(r["arr"], dtype=np.float64) if r["type"] in ("state", "gate") else [np.array(a, dtype=np.float64) for a in r["arr"]],
                 m=r.get("m"), design=r.get("design", {}))
        obj = build(o)
        print("  implementation:", impl_verdicts(o, obj, r["atol"]))
        eq, ineq, det = expected(o, r["atol"])
        print("  definition    : eq", eq, "ineq", ineq, det)
        check_object(ctx, o, atols=[r["atol"]], ctor=(r["atol"] == Settings.get_atol()))
    elif r["kind"] == "origin":
        check_origin(ctx, r["basis"], r["m"], ctx.npgen(3))
    elif r["kind"] == "basis":
        check_bases(ctx)
    elif r["kind"] == "global-independence":
        check_global_independence(ctx)
    elif r["kind"] == "origin-generic":
        check_origin_generic(ctx)
    elif r["kind"] == "ctor-variant":
        check_constructor_variants(ctx)
    else:
        check_settings(ctx)
    for v in ctx.violations[before:]:
        print("  still fails:", v["signature"], "-", v["what"])
    return 1 if len(ctx.violations) > before else 0
