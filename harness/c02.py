"""C02 — all representations of one object denote the same operator.

correspondence(ctx): every conversion of state.py / povm.py / gate.py / mprocess.py / matrix_basis.py anchored by the
property is called in-process and compared with the exact Gaussian-rational model QModel.C02 (driver qdriver_c02) on the
same inputs (floats sent as exact rationals, the matrix basis is part of every request).
oracle(ctx): the property itself on the implementation: defining formulas computed independently with numpy (from the
channel action, not from the code's tables), pairwise agreement of the alternative implementations, round trips, linearity.
"""
import hashlib
import itertools
import os
import numpy as np
import shim  # noqa: F401
from fractions import Fraction
from common import Driver, q
import qobj
from quara.objects import gate as G, state as S, povm as P, matrix_basis as mb
from quara.objects.gate import Gate
from quara.objects.state import State
from quara.objects.povm import Povm
from quara.objects.mprocess import MProcess
from quara.objects.composite_system import CompositeSystem
from quara.objects.elemental_system import ElementalSystem
from quara.settings import Settings

LEAN_EXTRA_TARGETS = ("QGen.C02",)


def translate(ctx):
    """regenerate lean/QGen/C02.lean from the working tree of common.REPO (ast skeleton matcher, harness/c02gen.py);
    raises on source it cannot translate (reported as a broken obligation)"""
    import common, c02gen, pytolean
    pytolean.write_if_changed(os.path.join(common.LEAN, "QGen", "C02.lean"), c02gen.generate(common.REPO))
    return []


TOL = 1e-9          # correspondence: model (exact) vs implementation (float64)
OTOL = 1e-10        # oracle: implementation vs numpy reference, relative to the scale of the data
SIG_D2 = "C02/Povm.matrix_with_sparsity/NameError"
SIG_D3 = "C02/gate.to_var_from_choi/forward-instead-of-inverse"
SIG_D13 = "C02/povm/roundtrip/direct/np.matrix-flatten"


# ----------------------------------------------------------------------------- configurations
def _rotated(basis_fn, g):
    """Hermitian orthonormal basis with B_0 = I/sqrt(d), the others mixed by a real rotation and conjugated by a unitary"""
    base = [np.array(b, dtype=np.complex128) for b in basis_fn()]
    n = len(base)
    d = base[0].shape[0]
    o, _ = np.linalg.qr(g.standard_normal((n - 1, n - 1)))
    u = qobj.rand_unitary(g, d)
    out = [base[0]]
    for a in range(n - 1):
        m = sum(o[a, b] * base[b + 1] for b in range(n - 1))
        m = u @ m @ u.conj().T
        out.append((m + m.conj().T) / 2)
    return mb.MatrixBasis(out)


class Cfg:
    def __init__(self, name, c_sys):
        self.name, self.c = name, c_sys
        self.d = c_sys.dim
        self.n = len(c_sys.basis())
        self.B = qobj.basis_mats(c_sys)                      # dense copies, for the numpy references
        self.Bq = cl(np.array(self.B))                       # exact rational text of the basis
        self.Bstack = np.array([b.flatten() for b in self.B])  # n x d^2

    def fresh(self):
        """a new CompositeSystem on the same basis objects: all lazy tables unbuilt"""
        return CompositeSystem(list(self.c._elemental_systems))


def make_cfg(name, g=None):
    if name == "qubit/pauli":
        c = qobj.csys("qubit")
    elif name == "qutrit/gellmann":
        c = qobj.csys("qutrit")
    elif name == "qubit/rotated":
        c = CompositeSystem([ElementalSystem(0, _rotated(mb.get_normalized_pauli_basis, np.random.default_rng(11)))])
    elif name == "qutrit/rotated":
        c = CompositeSystem([ElementalSystem(0, _rotated(mb.get_normalized_gell_mann_basis, np.random.default_rng(12)))])
    elif name == "qubit/hermitian":
        c = CompositeSystem([ElementalSystem(0, mb.get_normalized_hermitian_basis(2))])
    elif name == "2qubit/pauli":
        c = qobj.csys("qubit", names=(0, 1))
    elif name == "qubitxqutrit":
        c = qobj.csys(["qubit", "qutrit"], names=(0, 1))
    elif name == "qutritxqubit":
        c = qobj.csys(["qutrit", "qubit"], names=(0, 1))
    else:
        raise KeyError(name)
    return Cfg(name, c)


QUICK_CFGS = ["qubit/pauli", "qutrit/gellmann", "qubit/rotated"]
THOROUGH_CFGS = QUICK_CFGS + ["qubit/hermitian", "qutrit/rotated", "2qubit/pauli", "qubitxqutrit"]
_cfg_cache = {}


def cfg_of(name):
    if name not in _cfg_cache:
        _cfg_cache[name] = make_cfg(name)
    return _cfg_cache[name]


# ----------------------------------------------------------------------------- text helpers
def cl(a):
    """complex array -> 're,im,re,im,...' exact rationals (row-major)"""
    a = np.asarray(a, dtype=np.complex128).flatten()
    if a.size == 0:
        return "-"
    out = []
    for z in a:
        out.append(q(z.real)); out.append(q(z.imag))
    return ",".join(out)


def parse_reply(line):
    t = line.split()
    if not t or t[0] == "bad-op":
        return ("bad-op",)
    if t[0] == "err":
        return ("err", t[1])
    vals = [] if t[-1] == "-" else [float(Fraction(x)) for x in t[-1].split(",")]
    return ("ok", vals) if len(t) == 2 else ("ok", vals, t[1:-1])


def interleave(a):
    a = np.asarray(a, dtype=np.complex128).flatten()
    out = np.empty(2 * a.size)
    out[0::2] = a.real; out[1::2] = a.imag
    return out


def err_kind(e):
    m = str(e)
    if isinstance(e, NameError):
        return "nameError"
    if isinstance(e, IndexError):
        return "indexError"
    if "some imaginary parts" in m:
        return "imagNonZero"
    if "HS must be square matrix" in m:
        return "notSquare"
    if "dim of HS must be square number" in m:
        return "dimNotSquare"
    if "dim of from_basis must equal" in m:
        return "dimMismatch"
    if "length of from_basis must equal" in m or "length of tuple must equal" in m:
        return "lenMismatch"
    if "cannot reshape" in m:
        return "reshape"
    if isinstance(e, AttributeError) and "shape" in m:
        return "emptyKraus"
    return type(e).__name__ + ":" + m[:60]


def close_arr(a, b, tol):
    a = np.asarray(a, dtype=float); b = np.asarray(b, dtype=float)
    if a.shape != b.shape:
        return False
    if a.size == 0:
        return True
    scale = max(1.0, float(np.max(np.abs(a))), float(np.max(np.abs(b))))
    return bool(np.all(np.abs(a - b) <= tol * scale))


# ----------------------------------------------------------------------------- generators
def rand_c(g, shape, scale=1.0):
    return scale * (g.standard_normal(shape) + 1j * g.standard_normal(shape))


def rand_herm(g, n):
    a = rand_c(g, (n, n))
    return (a + a.conj().T) / 2


def rand_psd(g, n, rank):
    a = rand_c(g, (n, rank))
    return a @ a.conj().T / n


def unit(n, k, dtype=np.float64):
    v = np.zeros(n, dtype=dtype); v[k] = 1
    return v


def herm_basis(n):
    """a basis of the real space of Hermitian n x n matrices (also a complex basis of all matrices)"""
    out = []
    for i in range(n):
        for j in range(n):
            m = np.zeros((n, n), dtype=np.complex128)
            if i == j:
                m[i, i] = 1
            elif i < j:
                m[i, j] = 1; m[j, i] = 1
            else:
                m[i, j] = 1j; m[j, i] = -1j
            out.append(m)
    return out


def kraus_sets(g, d, maxrank=None):
    """Kraus lists of rank 1..d^2 (trace preserving), unitary first"""
    out = [[qobj.rand_unitary(g, d)]]
    for r in range(2, (maxrank or d * d) + 1):
        out.append(qobj.rand_kraus(g, d, 1, r)[0])
    # mixture of two unitaries with a small weight: Choi eigenvalues d(1-w), d*w with w = 1e-6 (10^7 x the zero filter)
    w = 1e-6
    out.append([np.sqrt(1 - w) * qobj.rand_unitary(g, d), np.sqrt(w) * qobj.rand_unitary(g, d)])
    return out


def hs_of_kraus_ref(cfg, ks):
    """HS matrix from the channel action: hs[a,b] = tr(B_a^† Λ(B_b)) (independent of the code's tables)"""
    imgs = [sum(k @ b @ k.conj().T for k in ks) for b in cfg.B]
    return np.array([[np.trace(ba.conj().T @ im) for im in imgs] for ba in cfg.B])


def gate_inputs(ctx, g, cfg, nrand, complete=True):
    """(label, hs) : complete basis of the real n x n matrices, physical (Kraus rank 1..), non-physical, complex"""
    n, d = cfg.n, cfg.d
    out = []
    if complete:
        for a in range(n):
            for b in range(n):
                m = np.zeros((n, n)); m[a, b] = 1.0
                out.append(("unit", m))
    for ks in kraus_sets(g, d, maxrank=min(d * d, 4 if ctx.quick else d * d))[: max(2, nrand)]:
        out.append(("physical", hs_of_kraus_ref(cfg, ks).real.copy()))
    for _ in range(nrand):
        out.append(("nonphysical", g.standard_normal((n, n))))
    return out


# ----------------------------------------------------------------------------- correspondence
class Pend:
    def __init__(self, ctx):
        self.ctx, self.drv, self.items = ctx, Driver("C02"), []

    def add(self, op, toks, fn, kind, desc, nontrivial=True, post=None):
        """kind: 'c' complex array expected, 'r' real array expected (dtype checked), 'k' kraus"""
        with np.errstate(all="ignore"):
            try:
                r = fn()
                if kind == "k":
                    impl = ("ok", r)
                else:
                    arr = np.asarray(r)
                    if kind == "r":
                        impl = ("ok", np.asarray(arr, dtype=np.complex128).real.flatten(), "real" if np.isrealobj(arr) else "complex")
                    else:
                        impl = ("ok", interleave(arr))
            except Exception as e:  # noqa
                impl = ("err", err_kind(e))
        i = self.drv.ask(op, *toks)
        self.items.append((op, desc, impl, i, kind, post))
        self.ctx.corr_ops.add(op)
        self.ctx.count(f"corr {op}")
        self.ctx.case((op, desc, hashlib.sha1(" ".join(str(t) for t in toks).encode()).hexdigest()), nontrivial=nontrivial,
                      sample={"op": op, "case": desc})

    def start(self, nproc=4):
        """launch the compiled model on the collected requests without waiting: the requests are split over up to `nproc`
        driver processes, and the batches of different configurations run while the harness keeps calling the implementation"""
        import subprocess, tempfile
        from common import driver_path
        reqs = self.drv.reqs
        k = max(1, min(nproc, len(reqs) // 150))
        size = (len(reqs) + k - 1) // k if reqs else 0
        self._parts = []
        for j in range(k if reqs else 0):
            chunk = reqs[j * size:(j + 1) * size]
            fin = tempfile.TemporaryFile(mode="w+")
            fin.write("\n".join(chunk) + "\n"); fin.flush(); fin.seek(0)
            fout, ferr = tempfile.TemporaryFile(mode="w+"), tempfile.TemporaryFile(mode="w+")
            self._parts.append((subprocess.Popen([driver_path("C02")], stdin=fin, stdout=fout, stderr=ferr, text=True), fin, fout, ferr, len(chunk)))

    def finish(self):
        if not hasattr(self, "_parts"):
            self.start()
        out = []
        for proc, fin, fout, ferr, cnt in self._parts:
            rc = proc.wait(timeout=3600)
            fout.seek(0)
            lines = fout.read().splitlines()
            if rc != 0 or len(lines) != cnt:
                ferr.seek(0)
                raise RuntimeError(f"driver failed rc={rc} replies={len(lines)}/{cnt} {ferr.read()[-500:]}")
            out += lines
        for op, desc, impl, i, kind, post in self.items:
            m = parse_reply(out[i])
            ok = False
            if m[0] == "bad-op":
                ok = False
            elif impl[0] == "err" or m[0] == "err":
                ok = impl[0] == m[0] and impl[1] == m[1]
            elif kind == "k":
                cnt, ksum, klist = impl[1]
                mv = np.array(m[1])
                ok = int(m[2][0]) == cnt and mv.size == 2 * (sum(k.size for k in klist) + ksum.size)
                if ok:   # the operators themselves (same eigh vectors, phase convention included), then the gauge invariant
                    cut = 2 * sum(k.size for k in klist)
                    ok = close_arr(interleave(np.array(klist)) if klist else np.zeros(0), mv[:cut], 1e-7) and close_arr(interleave(ksum), mv[cut:], 1e-7)
            else:
                mv = np.array(m[1])
                if post is not None:
                    mv = post(mv)
                ok = close_arr(impl[1], mv, TOL) and (kind != "r" or impl[2] == "real")
            if not ok:
                self.ctx.disagree(op, desc, [impl[0], str(impl[1])[:300]], out[i][:300])


def correspondence(ctx):
    names = QUICK_CFGS if ctx.quick else THOROUGH_CFGS
    eps = q(Settings.get_atol())
    pends = []
    for ci, name in enumerate(names):
        cfg = cfg_of(name)
        g = ctx.npgen(f"corr-{name}")
        big = cfg.d >= 6
        if big:
            pends.append(corr_big(ctx, cfg, g, eps))
            continue
        pend = Pend(ctx)
        corr_state_povm(ctx, pend, cfg, g, eps)
        corr_gate(ctx, pend, cfg, g, eps)
        corr_basis_change(ctx, pend, cfg, g)
        corr_kraus(ctx, pend, cfg, g, eps)
        pend.start()
        pends.append(pend)
    for name in (QUICK_MULTI if ctx.quick else []):
        pends.append(corr_multi(ctx, cfg_of(name), ctx.npgen(f"corr-multi-{name}")))
    pends.append(corr_povm_tensor(ctx, ctx.npgen("corr-povm-tensor")))
    pends.append(corr_errors(ctx))
    for pend in pends:
        pend.finish()


def corr_state_povm(ctx, pend, cfg, g, eps):
    c, d, n, Bq = cfg.c, cfg.d, cfg.n, cfg.Bq
    hd = [str(d), str(n), Bq]
    vecs = [("unit", unit(n, k)) for k in range(n)]
    for r in range(1, d + 1):
        vecs.append(("physical", qobj.vec_of(c, qobj.rand_density(g, d, r))))
    vecs += [("nonphysical", g.standard_normal(n)) for _ in range(3)]
    for lab, v in vecs:
        st = State(c, v.copy(), is_physicality_required=False)
        pend.add("densityLoop", hd + [cl(v)], lambda st=st: st.to_density_matrix(), "c", f"{cfg.name}/State.to_density_matrix/{lab}")
        pend.add("densitySparse", hd + [cl(v)], lambda st=st: st.to_density_matrix_with_sparsity(), "c",
                 f"{cfg.name}/State.to_density_matrix_with_sparsity/{lab}")
    for _ in range(2):   # complex coefficient vector through the function
        v = rand_c(g, n)
        pend.add("densitySparse", hd + [cl(v)], lambda v=v: S.to_density_matrix_from_vec(c, v), "c",
                 f"{cfg.name}/to_density_matrix_from_vec/complex")
    # matrix -> vec: Hermitian complete basis, physical, non-physical Hermitian, non-Hermitian (error branch)
    mats = [("hermbasis", m) for m in herm_basis(d)]
    mats += [("physical", qobj.rand_density(g, d, r)) for r in range(1, d + 1)]
    mats += [("hermitian", rand_herm(g, d)) for _ in range(3)]
    mats += [("nonhermitian", rand_c(g, (d, d))) for _ in range(2)]
    mats += [("tiny", 1e-8 * rand_herm(g, d)), ("tiny", 1e-10 * rand_herm(g, d))]   # 10^3..10^5 x the truncation threshold
    for lab, m in mats:
        pend.add("vecOfDensity", hd + [cl(m), eps], lambda m=m: S.to_vec_from_density_matrix_with_sparsity(c, m), "r",
                 f"{cfg.name}/to_vec_from_density_matrix_with_sparsity/{lab}")
        pend.add("vecOfDensity", hd + [cl(m), eps], lambda m=m: P.to_vec_from_matrix_with_sparsity(c, m), "r",
                 f"{cfg.name}/to_vec_from_matrix_with_sparsity/{lab}")
        if lab in ("physical", "hermitian"):   # same values, other memory layouts
            for lay, y in layouts(m):
                pend.add("vecOfDensity", hd + [cl(m), eps], lambda y=y: S.to_vec_from_density_matrix_with_sparsity(c, y), "r",
                         f"{cfg.name}/to_vec_from_density_matrix_with_sparsity/{lab}/{lay}")
        pend.add("toVarFromDensity", hd + [cl(m), eps, "0"], lambda m=m: S.to_var_from_density_matrix(c, m, on_para_eq_constraint=False), "r",
                 f"{cfg.name}/to_var_from_density_matrix(False)/{lab}")
        pend.add("toVarFromDensity", hd + [cl(m), eps, "1"], lambda m=m: S.to_var_from_density_matrix(c, m), "r",
                 f"{cfg.name}/to_var_from_density_matrix(True)/{lab}")
    # matrix_basis.py expansion helpers: complex coefficients of any matrix, the Hermitian variant (through truncate_hs), and back
    if n == d * d:
        for lab, m in [("hermitian", rand_herm(g, d)), ("nonhermitian", rand_c(g, (d, d))), ("unit", herm_basis(d)[1])]:
            pend.add("vecOfDensityRaw", hd + [cl(m)], lambda m=m: mb.calc_matrix_expansion_coefficient(m, c.basis()), "c",
                     f"{cfg.name}/calc_matrix_expansion_coefficient/{lab}")
            if lab != "nonhermitian":
                pend.add("vecOfDensity", hd + [cl(m), eps], lambda m=m: mb.calc_hermitian_matrix_expansion_coefficient_hermitian_basis(m, c.basis()), "r",
                         f"{cfg.name}/calc_hermitian_matrix_expansion_coefficient_hermitian_basis/{lab}")
        for lab, v in [("real", g.standard_normal(n)), ("complex", rand_c(g, n))]:
            pend.add("densityLoop", hd + [cl(v)], lambda v=v: mb.calc_mat_from_coefficient_basis(v, c.basis()), "c",
                     f"{cfg.name}/calc_mat_from_coefficient_basis/{lab}")
    # POVMs with 2..4 outcomes (physical, rank deficient, non-physical)
    for m in (2, 3, 4):
        for lab in ("physical", "rank1", "nonphysical"):
            if lab == "nonphysical":
                pv = [g.standard_normal(n) for _ in range(m)]
            else:
                pv = [qobj.vec_of(c, e) for e in qobj.rand_povm_mats(g, d, m, rank=(1 if lab == "rank1" and m >= d else None))]
            povm = Povm(c, [v.copy() for v in pv], is_physicality_required=False)
            flat = cl(np.array(pv))
            ms = povm.matrices(); mss = povm.matrices_with_sparsity()
            for i in range(m):
                pend.add("densityLoop", hd + [cl(pv[i])], lambda ms=ms, i=i: ms[i], "c", f"{cfg.name}/Povm.matrices[{i}]/{lab}/m{m}")
                pend.add("densitySparse", hd + [cl(pv[i])], lambda mss=mss, i=i: mss[i], "c",
                         f"{cfg.name}/Povm.matrices_with_sparsity[{i}]/{lab}/m{m}")
            for i in list(range(m)) + [m]:
                pend.add("povmMatrix", hd + [m, flat, i], lambda povm=povm, i=i: povm.matrix(i), "c", f"{cfg.name}/Povm.matrix({i})/{lab}/m{m}")
                pend.add("povmMatrixSparse", hd + [m, flat, i], lambda povm=povm, i=i: povm.matrix_with_sparsity(i), "c",
                         f"{cfg.name}/Povm.matrix_with_sparsity({i})/{lab}/m{m}")
            # matrices -> vecs / var
            for i in range(m):
                pend.add("vecOfDensity", hd + [cl(ms[i]), eps], lambda ms=ms, i=i: P.to_vecs_from_matrices_with_sparsity(c, ms)[i], "r",
                         f"{cfg.name}/to_vecs_from_matrices_with_sparsity[{i}]/{lab}/m{m}")
            for flag in ("0", "1"):
                pend.add("toVarFromMatrices", hd + [m, cl(np.array(ms)), eps, flag],
                         lambda ms=ms, flag=flag: P.to_var_from_matrices(c, ms, on_para_eq_constraint=flag == "1"), "r",
                         f"{cfg.name}/to_var_from_matrices({flag})/{lab}/m{m}")
            # a list whose second matrix is not Hermitian: the first failure raises
            bad = [ms[0], ms[1] + 0.5j * np.eye(d)] + list(ms[2:])
            pend.add("toVarFromMatrices", hd + [m, cl(np.array(bad)), eps, "1"],
                     lambda bad=bad: P.to_var_from_matrices(c, bad, on_para_eq_constraint=True), "r",
                     f"{cfg.name}/to_var_from_matrices(1)/nonhermitian-second/{lab}/m{m}")


def corr_gate(ctx, pend, cfg, g, eps):
    d, n, Bq = cfg.d, cfg.n, cfg.Bq
    hd = [str(d), Bq]
    c = cfg.c
    complete = ctx.quick is False or d <= 3
    ins = gate_inputs(ctx, g, cfg, 3, complete=complete if d <= 3 else False)
    if d == 4:   # 2 qubits: a spread of matrix units instead of all 256
        for k in range(24):
            a, b = int(g.integers(0, n)), int(g.integers(0, n))
            m = np.zeros((n, n)); m[a, b] = 1.0
            ins.append(("unit", m))
    fresh = cfg.fresh()     # second system whose tables are built / deleted / rebuilt while being used
    for k, (lab, hs) in enumerate(ins):
        gate = Gate(c, hs.copy(), is_physicality_required=False)
        pend.add("choiLoop", hd + [cl(hs)], lambda gate=gate: gate.to_choi_matrix(), "c", f"{cfg.name}/Gate.to_choi_matrix/{lab}")
        pend.add("choiDict", hd + [cl(hs)], lambda gate=gate: gate.to_choi_matrix_with_dict(), "c", f"{cfg.name}/Gate.to_choi_matrix_with_dict/{lab}")
        pend.add("choiSparse", hd + [cl(hs)], lambda gate=gate: gate.to_choi_matrix_with_sparsity(), "c",
                 f"{cfg.name}/Gate.to_choi_matrix_with_sparsity/{lab}")
        pend.add("processMatrix", hd + [cl(hs)], lambda gate=gate: gate.to_process_matrix(), "c", f"{cfg.name}/Gate.to_process_matrix/{lab}")
        for mode in ("row_major", "column_major"):
            pend.add("convertToComp", hd + [cl(hs), mode], lambda gate=gate, mode=mode: gate.convert_to_comp_basis(mode), "c",
                     f"{cfg.name}/Gate.convert_to_comp_basis({mode})/{lab}")
        if k % 5 == 0:   # cache deleted / rebuilt between uses
            def cyc(hs=hs):
                fresh.delete_dict_from_hs_to_choi(); fresh.delete_basis_basisconjugate_T_sparse()
                a = G.to_choi_from_hs_with_dict(fresh, hs)
                b = G.to_choi_from_hs_with_sparsity(fresh, hs)
                fresh._basis_basisconjugate = None
                return np.array([a, b, G.to_choi_from_hs(fresh, hs)])
            ch = None
            try:
                ch = cyc()
            except Exception as e:  # noqa
                ctx.disagree("cache-cycle", f"{cfg.name}/{lab}", err_kind(e), "no exception")
            if ch is not None:
                for j, op in enumerate(("choiDict", "choiSparse", "choiLoop")):
                    pend.add(op, hd + [cl(hs)], lambda ch=ch, j=j: ch[j], "c", f"{cfg.name}/{op} after cache delete/{lab}")
    # complex HS through the functions
    for _ in range(2):
        hs = rand_c(g, (n, n))
        pend.add("choiLoop", hd + [cl(hs)], lambda hs=hs: G.to_choi_from_hs(c, hs), "c", f"{cfg.name}/to_choi_from_hs/complex")
        pend.add("choiDict", hd + [cl(hs)], lambda hs=hs: G.to_choi_from_hs_with_dict(c, hs), "c", f"{cfg.name}/to_choi_from_hs_with_dict/complex")
        pend.add("choiSparse", hd + [cl(hs)], lambda hs=hs: G.to_choi_from_hs_with_sparsity(c, hs), "c",
                 f"{cfg.name}/to_choi_from_hs_with_sparsity/complex")
    # Choi -> HS
    chois = [("hermbasis", m) for m in (herm_basis(d * d) if d <= 3 else herm_basis(d * d)[::11])]
    chois += [("physical", rand_psd(g, d * d, r)) for r in (1, 2, d * d)]
    chois += [("hermitian", rand_herm(g, d * d)) for _ in range(2)]
    chois += [("nonhermitian", rand_c(g, (d * d, d * d))) for _ in range(2)]
    chois += [("tiny", 1e-8 * rand_herm(g, d * d)), ("tiny", 1e-10 * rand_herm(g, d * d))]
    for k, (lab, ch) in enumerate(chois):
        pend.add("hsOfChoiLoop", hd + [cl(ch)], lambda ch=ch: G.to_hs_from_choi(c, ch), "r", f"{cfg.name}/to_hs_from_choi/{lab}")
        pend.add("hsOfChoiDict", hd + [cl(ch), eps], lambda ch=ch: G.to_hs_from_choi_with_dict(c, ch), "r", f"{cfg.name}/to_hs_from_choi_with_dict/{lab}")
        pend.add("hsOfChoiSparse", hd + [cl(ch), eps], lambda ch=ch: G.to_hs_from_choi_with_sparsity(c, ch), "r",
                 f"{cfg.name}/to_hs_from_choi_with_sparsity/{lab}")
        if lab in ("physical", "hermitian"):   # same values, other memory layouts
            for lay, y in layouts(ch):
                pend.add("hsOfChoiSparse", hd + [cl(ch), eps], lambda y=y: G.to_hs_from_choi_with_sparsity(c, y), "r",
                         f"{cfg.name}/to_hs_from_choi_with_sparsity/{lab}/{lay}")
                pend.add("hsOfChoiDict", hd + [cl(ch), eps], lambda y=y: G.to_hs_from_choi_with_dict(c, y), "r",
                         f"{cfg.name}/to_hs_from_choi_with_dict/{lab}/{lay}")
        if k % 7 == 0:
            def cyc2(ch=ch):
                fresh.delete_dict_from_choi_to_hs(); fresh.delete_basisconjugate_basis_sparse()
                return G.to_hs_from_choi_with_dict(fresh, ch), G.to_hs_from_choi_with_sparsity(fresh, ch)
            pend.add("hsOfChoiDict", hd + [cl(ch), eps], lambda f=cyc2: f()[0], "r", f"{cfg.name}/to_hs_from_choi_with_dict after cache delete/{lab}")
            pend.add("hsOfChoiSparse", hd + [cl(ch), eps], lambda f=cyc2: f()[1], "r", f"{cfg.name}/to_hs_from_choi_with_sparsity after cache delete/{lab}")
        pend.add("toVarFromChoi", hd + [cl(ch), "0", eps], lambda ch=ch: G.to_var_from_choi(c, ch, on_para_eq_constraint=False), "r",
                 f"{cfg.name}/to_var_from_choi(False)/{lab}")
        pend.add("toVarFromChoi", hd + [cl(ch), "1", eps], lambda ch=ch: G.to_var_from_choi(c, ch, on_para_eq_constraint=True), "r",
                 f"{cfg.name}/to_var_from_choi(True)/{lab}")
    # variables -> Choi
    nv_eq, nv_free = (n - 1) * n, n * n
    vs = [("unit", unit(nv_eq, k), "1") for k in (range(nv_eq) if d <= 2 else range(0, nv_eq, 7))]
    vs += [("unit", unit(nv_free, k), "0") for k in (range(nv_free) if d <= 2 else range(0, nv_free, 7))]
    vs += [("random", g.standard_normal(nv_eq), "1"), ("random", g.standard_normal(nv_free), "0"),
           ("badlen", g.standard_normal(nv_eq + 1), "1"), ("badlen", g.standard_normal(nv_free - 1), "0")]
    for lab, v, flag in vs:
        pend.add("toChoiFromVar", hd + [cl(v), flag], lambda v=v, flag=flag: G.to_choi_from_var(c, v, on_para_eq_constraint=flag == "1"), "c",
                 f"{cfg.name}/to_choi_from_var({flag})/{lab}")
    # MProcess: per-outcome conversions (the class accepts only bases whose 0th element is ∝ identity)
    for m in ((2, 3) if c.is_orthonormal_hermitian_0thprop_identity else ()):
        mp, _ = qobj.rand_mprocess(g, c, m, kraus_rank=1 + (m % 2), required=False)
        allhs = cl(np.array(mp.hss))
        for i in range(m + 1):      # i = m: IndexError of MProcess.hs(index)
            for variant, meth in (("loop", "to_choi_matrix"), ("dict", "to_choi_matrix_with_dict"), ("sparse", "to_choi_matrix_with_sparsity"),
                                  ("process", "to_process_matrix")):
                pend.add("mpChoi", [variant] + hd + [m, allhs, i], lambda mp=mp, i=i, meth=meth: getattr(mp, meth)(i), "c",
                         f"{cfg.name}/MProcess.{meth}({i})/m{m}")
        for mode in ("row_major", "column_major"):      # the whole returned list
            pend.add("mpConvertToComp", hd + [m, allhs, mode], lambda mp=mp, mode=mode: np.array(mp.convert_to_comp_basis(mode)), "c",
                     f"{cfg.name}/MProcess.convert_to_comp_basis({mode})/m{m}")
        for oname, ob in other_bases(cfg)[2:5]:
            pend.add("mpConvertBasis", [d, n, Bq, cl(dense_basis(ob)), m, allhs], lambda mp=mp, ob=ob: np.array(mp.convert_basis(ob)), "c",
                     f"{cfg.name}/MProcess.convert_basis(->{oname})/m{m}")


def sparse_stored(b):
    """the same basis held as scipy-sparse matrices (as CompositeSystem.basis() holds it)"""
    return mb.SparseMatrixBasis([np.array(x.toarray() if hasattr(x, "toarray") else x, dtype=np.complex128) for x in b])


def other_bases(cfg):
    """orthonormal bases of the same dimension to convert to / from, stored dense (MatrixBasis, what the getters return) and
    stored sparse (SparseMatrixBasis, what another CompositeSystem owns)"""
    d = cfg.d
    row, col = mb.get_comp_basis(d, "row_major"), mb.get_comp_basis(d, "column_major")
    out = [("comp_row", row), ("comp_col", col), ("comp_row/sparse", sparse_stored(row)), ("comp_col/sparse", sparse_stored(col))]
    if d == 2:
        out.append(("hermitian", mb.get_normalized_hermitian_basis(2)))
        out.append(("rotated/sparse(c_sys)", cfg_of("qubit/rotated").c.basis()))
        out.append(("rotated/dense", mb.MatrixBasis(list(dense_basis(cfg_of("qubit/rotated").c.basis())))))
    elif d == 3:
        out.append(("hermitian", mb.get_normalized_hermitian_basis(3)))
        out.append(("gellmann", mb.get_normalized_gell_mann_basis()))
        out.append(("gellmann/sparse(c_sys)", cfg_of("qutrit/gellmann").c.basis()))
        out.append(("rotated/sparse(c_sys)", cfg_of("qutrit/rotated").c.basis()))
    elif d == 4:
        out.append(("gengellmann", mb.get_normalized_generalized_gell_mann_basis(2, 2)))
        out.append(("gengellmann/sparse", sparse_stored(mb.get_normalized_generalized_gell_mann_basis(2, 2))))
    return out


def dense_basis(b):
    return np.array([np.asarray(x.toarray() if hasattr(x, "toarray") else x, dtype=np.complex128) for x in b])


def corr_basis_change(ctx, pend, cfg, g):
    c, d, n, Bq = cfg.c, cfg.d, cfg.n, cfg.Bq
    for oname, ob in other_bases(cfg):
        obq = cl(dense_basis(ob))
        hss = []
        if d <= 2:
            for a in range(n):
                for b in range(n):
                    m = np.zeros((n, n)); m[a, b] = 1.0
                    hss.append(("unit", m))
        else:
            for k in range(10):
                m = np.zeros((n, n)); m[int(g.integers(0, n)), int(g.integers(0, n))] = 1.0
                hss.append(("unit", m))
        hss += [("physical", hs_of_kraus_ref(cfg, ks).real.copy()) for ks in kraus_sets(g, d, 2)]
        hss += [("nonphysical", g.standard_normal((n, n))), ("complex", rand_c(g, (n, n)))]
        for lab, hs in hss:
            pend.add("convertHs", [n, n, cl(hs), d, n, Bq, d, n, obq], lambda hs=hs, ob=ob: G.convert_hs(hs, c.basis(), ob), "c",
                     f"{cfg.name}/convert_hs(->{oname})/{lab}")
            pend.add("convertHs", [n, n, cl(hs), d, n, obq, d, n, Bq], lambda hs=hs, ob=ob: G.convert_hs(hs, ob, c.basis()), "c",
                     f"{cfg.name}/convert_hs({oname}->)/{lab}")
            if lab in ("physical", "nonphysical"):
                gate = Gate(c, hs.copy(), is_physicality_required=False)
                pend.add("convertHs", [n, n, cl(hs), d, n, Bq, d, n, obq], lambda gate=gate, ob=ob: gate.convert_basis(ob), "c",
                         f"{cfg.name}/Gate.convert_basis(->{oname})/{lab}")
        vs = [("unit", unit(n, k)) for k in range(n)] + [("random", g.standard_normal(n)), ("complex", rand_c(g, n))]
        for lab, v in vs:
            pend.add("convertVec", [d, n, Bq, d, n, obq, cl(v)], lambda v=v, ob=ob: mb.convert_vec(v, c.basis(), ob), "c",
                     f"{cfg.name}/convert_vec(->{oname})/{lab}")
            pend.add("convertVec", [d, n, obq, d, n, Bq, cl(v)], lambda v=v, ob=ob: mb.convert_vec(v, ob, c.basis()), "c",
                     f"{cfg.name}/convert_vec({oname}->)/{lab}")
            if lab != "complex":
                st = State(c, np.asarray(v, dtype=np.float64).copy(), is_physicality_required=False)
                pend.add("convertVec", [d, n, Bq, d, n, obq, cl(v)], lambda st=st, ob=ob: st.convert_basis(ob), "c",
                         f"{cfg.name}/State.convert_basis(->{oname})/{lab}")
        pv = [g.standard_normal(n) for _ in range(2)]
        povm = Povm(c, [v.copy() for v in pv], is_physicality_required=False)
        for i in range(2):
            pend.add("convertVec", [d, n, Bq, d, n, obq, cl(pv[i])], lambda povm=povm, ob=ob, i=i: povm.convert_basis(ob)[i], "c",
                     f"{cfg.name}/Povm.convert_basis(->{oname})[{i}]")
        for lab, mm in (("nonsymmetric", rand_c(g, (d, d))), ("unit", comp_ref(d, "row_major")[1])):
            pend.add("vecOfDensityRaw", [d, n, obq, cl(mm)], lambda mm=mm, ob=ob: mb.calc_matrix_expansion_coefficient(mm, ob), "c",
                     f"{cfg.name}/calc_matrix_expansion_coefficient(basis={oname})/{lab}")
        cv = rand_c(g, n)
        pend.add("densityLoop", [d, n, obq, cl(cv)], lambda cv=cv, ob=ob: mb.calc_mat_from_coefficient_basis(cv, ob), "c",
                 f"{cfg.name}/calc_mat_from_coefficient_basis(basis={oname})/complex")
        if c.is_orthonormal_hermitian_0thprop_identity:
            hss2 = [g.standard_normal((n, n)) for _ in range(2)]
            mp = MProcess(c, [h.copy() for h in hss2], is_physicality_required=False)
            for i in range(2):
                pend.add("convertHs", [n, n, cl(hss2[i]), d, n, Bq, d, n, obq], lambda mp=mp, ob=ob, i=i: mp.convert_basis(ob)[i], "c",
                         f"{cfg.name}/MProcess.convert_basis(->{oname})[{i}]")
        # matrix_util.vdot on every dense / sparse operand combination (complex, non-Hermitian operands)
        from scipy import sparse as _sp
        from quara.utils import matrix_util as _mu
        a, b = rand_c(g, (d, d)), dense_basis(ob)[int(g.integers(0, n))] + 0.25j * rand_c(g, (d, d)).real
        for ka, fa in (("dense", np.asarray), ("csr", _sp.csr_matrix), ("csc", _sp.csc_matrix)):
            for kb, fb in (("dense", np.asarray), ("csr", _sp.csr_matrix), ("csc", _sp.csc_matrix)):
                pend.add("vdot", [d, d, cl(a), cl(b)], lambda fa=fa, fb=fb, a=a, b=b: np.array([_mu.vdot(fa(a), fb(b))]), "c",
                         f"{cfg.name}/matrix_util.vdot({ka},{kb})/{oname}")
    for mode in ("row_major", "column_major"):
        pend.add("compBasis", [d, mode], lambda mode=mode: dense_basis(c.comp_basis(mode)), "c", f"{cfg.name}/comp_basis({mode})")
        pend.add("compBasis", [d, mode], lambda mode=mode: dense_basis(mb.get_comp_basis(d, mode)), "c", f"{cfg.name}/get_comp_basis({mode})")


def eig_tokens(cfg, hs):
    """numpy kernel results handed to the model: eigh of the implementation's Choi matrix, sqrt of the eigenvalues"""
    choi = G.to_choi_from_hs_with_sparsity(cfg.c, hs)
    w, v = np.linalg.eigh(choi)
    with np.errstate(all="ignore"):
        s = np.sqrt(np.where(w > 0, w, 0.0))
        ab = np.abs(s[:, None] * v.T)          # np.abs(np.sqrt(eigen_val) * eigen_vec), one row per eigenpair
    return [",".join(q(x) for x in w), ",".join(q(x) for x in s), cl(v.T), ",".join(q(x) for x in ab.flatten())]


def kraus_invariant(ks, d):
    return (len(ks), sum((np.kron(k, k.conj()) for k in ks), np.zeros((d * d, d * d), dtype=np.complex128)), [np.asarray(k) for k in ks])


def corr_kraus(ctx, pend, cfg, g, eps):
    c, d, n, Bq = cfg.c, cfg.d, cfg.n, cfg.Bq
    hd = [str(d), Bq]
    atol_s = q(Settings.get_atol())
    sets = kraus_sets(g, d)
    if d >= 4:
        sets = sets[:3] + sets[-1:]
    for ks in sets:
        lab = f"rank{len(ks)}"
        flat = cl(np.array(ks))
        pend.add("hsOfKraus", hd + [len(ks), flat, eps], lambda ks=ks: G.to_hs_from_kraus_matrices(c, ks), "r", f"{cfg.name}/to_hs_from_kraus_matrices/{lab}")
        hs = hs_of_kraus_ref(cfg, ks).real.copy()
        pend.add("kraus", hd + [cl(hs)] + eig_tokens(cfg, hs) + [atol_s, atol_s],
                 lambda hs=hs: kraus_invariant(G.to_kraus_matrices_from_hs(c, hs), d), "k", f"{cfg.name}/to_kraus_matrices_from_hs/{lab}")
        gate = Gate(c, hs, is_physicality_required=False)
        pend.add("kraus", hd + [cl(hs)] + eig_tokens(cfg, hs) + [q(gate.eps_proj_physical), atol_s],
                 lambda gate=gate: kraus_invariant(gate.to_kraus_matrices(), d), "k", f"{cfg.name}/Gate.to_kraus_matrices/{lab}")
    # non trace preserving Kraus lists, a single non-normalised operator, the empty list
    for r in (1, 2):
        ks = [rand_c(g, (d, d)) for _ in range(r)]
        pend.add("hsOfKraus", hd + [r, cl(np.array(ks)), eps], lambda ks=ks: G.to_hs_from_kraus_matrices(c, ks), "r",
                 f"{cfg.name}/to_hs_from_kraus_matrices/nonTP{r}")
    pend.add("hsOfKraus", hd + [0, "-", eps], lambda: G.to_hs_from_kraus_matrices(c, []), "r", f"{cfg.name}/to_hs_from_kraus_matrices/empty")
    # duplicate implementations of Kraus -> HS outside gate.py: catalogue m-processes, unitary -> HS helpers
    from quara.objects import mprocess_typical as MT, gate_typical as GT
    for name in MT.get_mprocess_names_type1() + MT.get_mprocess_names_type2():
        kset = MT.generate_mprocess_set_kraus_matrices_from_name(name)
        if kset[0][0].shape[0] != d or not c.is_orthonormal_hermitian_0thprop_identity:
            continue
        for i, ks_i in enumerate(kset):
            pend.add("hsOfKraus", hd + [len(ks_i), cl(np.array(ks_i)), eps], lambda name=name, i=i: MT.generate_mprocess_hss_from_name(name, c)[i], "r",
                     f"{cfg.name}/generate_mprocess_hss_from_name({name})[{i}]")
    for lab, u in (("S.RY", _S @ _RY), ("random", qobj.rand_unitary(g, d))) if d == 2 else (("random", qobj.rand_unitary(g, d)),):
        pend.add("hsOfKraus", hd + [1, cl(np.array([u])), eps], lambda u=u: GT.calc_gate_mat_from_unitary_mat_with_hermitian_basis(u, c.basis()), "r",
                 f"{cfg.name}/calc_gate_mat_from_unitary_mat_with_hermitian_basis/{lab}")
    # elements of different dtypes (real float64 / int64 next to complex128), both orders
    oq, _ = np.linalg.qr(g.standard_normal((d, d)))
    pm = np.eye(d, dtype=np.int64)[::-1].copy()
    uu = qobj.rand_unitary(g, d)
    for lab, ks in (("real-first", [np.sqrt(0.5) * oq, np.sqrt(0.5) * uu]), ("real-last", [np.sqrt(0.5) * uu, np.sqrt(0.5) * oq]),
                    ("int-first", [pm, 0.5 * uu]), ("all-real", [np.sqrt(0.5) * oq, np.sqrt(0.5) * pm.astype(np.float64)])):
        pend.add("hsOfKraus", hd + [len(ks), cl(np.array([np.asarray(k, dtype=np.complex128) for k in ks])), eps],
                 lambda ks=ks: G.to_hs_from_kraus_matrices(c, ks), "r", f"{cfg.name}/to_hs_from_kraus_matrices/dtypes-{lab}")
    # not CP: HS of a positive-but-not-CP map (transpose mixed with identity) and a random real matrix
    Bt = [b.T for b in cfg.B]
    hs_t = np.array([[np.trace(ba.conj().T @ bt) for bt in Bt] for ba in cfg.B]).real
    for lab, hs in (("transpose", hs_t), ("mixed", 0.5 * hs_t + 0.5 * np.eye(n)), ("random", g.standard_normal((n, n)))):
        pend.add("kraus", hd + [cl(hs)] + eig_tokens(cfg, hs) + [atol_s, atol_s],
                 lambda hs=hs: kraus_invariant(G.to_kraus_matrices_from_hs(c, hs), d), "k", f"{cfg.name}/to_kraus_matrices_from_hs/notCP-{lab}")


def corr_big(ctx, cfg, g, eps):
    """qubit x qutrit (d = 6): a sample of every conversion (the complete-basis sweep is done by the oracle)"""
    pend = Pend(ctx)
    c, d, n, Bq = cfg.c, cfg.d, cfg.n, cfg.Bq
    hd = [str(d), Bq]
    hd2 = [str(d), str(n), Bq]
    ks = qobj.rand_kraus(g, d, 1, 3)[0]
    hs = hs_of_kraus_ref(cfg, ks).real.copy()
    m = np.zeros((n, n)); m[7, 20] = 1.0
    for lab, h in (("physical", hs), ("unit", m)):
        pend.add("choiSparse", hd + [cl(h)], lambda h=h: G.to_choi_from_hs_with_sparsity(c, h), "c", f"{cfg.name}/to_choi_from_hs_with_sparsity/{lab}")
        pend.add("choiDict", hd + [cl(h)], lambda h=h: G.to_choi_from_hs_with_dict(c, h), "c", f"{cfg.name}/to_choi_from_hs_with_dict/{lab}")
        pend.add("choiLoop", hd + [cl(h)], lambda h=h: G.to_choi_from_hs(c, h), "c", f"{cfg.name}/to_choi_from_hs/{lab}")
    ch = rand_psd(g, d * d, 2)
    pend.add("hsOfChoiSparse", hd + [cl(ch), eps], lambda: G.to_hs_from_choi_with_sparsity(c, ch), "r", f"{cfg.name}/to_hs_from_choi_with_sparsity/physical")
    pend.add("hsOfChoiDict", hd + [cl(ch), eps], lambda: G.to_hs_from_choi_with_dict(c, ch), "r", f"{cfg.name}/to_hs_from_choi_with_dict/physical")
    pend.add("convertToComp", hd + [cl(hs), "row_major"], lambda: Gate(c, hs, is_physicality_required=False).convert_to_comp_basis(), "c",
             f"{cfg.name}/Gate.convert_to_comp_basis/physical")
    pend.add("hsOfKraus", hd + [len(ks), cl(np.array(ks)), eps], lambda: G.to_hs_from_kraus_matrices(c, ks), "r", f"{cfg.name}/to_hs_from_kraus_matrices/rank3")
    pend.add("kraus", hd + [cl(hs)] + eig_tokens(cfg, hs) + [q(Settings.get_atol())] * 2,
             lambda: kraus_invariant(G.to_kraus_matrices_from_hs(c, hs), d), "k", f"{cfg.name}/to_kraus_matrices_from_hs/rank3")
    for lab, v in (("physical", qobj.vec_of(c, qobj.rand_density(g, d, 2))), ("unit", unit(n, 17)), ("nonphysical", g.standard_normal(n))):
        st = State(c, v.copy(), is_physicality_required=False)
        pend.add("densityLoop", hd2 + [cl(v)], lambda st=st: st.to_density_matrix(), "c", f"{cfg.name}/State.to_density_matrix/{lab}")
        pend.add("densitySparse", hd2 + [cl(v)], lambda st=st: st.to_density_matrix_with_sparsity(), "c", f"{cfg.name}/State.to_density_matrix_with_sparsity/{lab}")
    rho = qobj.rand_density(g, d, 3)
    pend.add("vecOfDensity", hd2 + [cl(rho), eps], lambda: S.to_vec_from_density_matrix_with_sparsity(c, rho), "r",
             f"{cfg.name}/to_vec_from_density_matrix_with_sparsity/physical")
    ob = mb.get_comp_basis(d, "column_major")
    v = g.standard_normal(n)
    pend.add("convertVec", [d, n, Bq, d, n, cl(dense_basis(ob)), cl(v)], lambda: mb.convert_vec(v, c.basis(), ob), "c", f"{cfg.name}/convert_vec(->comp_col)/random")
    pend.start()
    return pend


def corr_errors(ctx):
    """parameter-check branches of convert_hs / convert_vec"""
    pend = Pend(ctx)
    c2, c3 = cfg_of("qubit/pauli"), cfg_of("qutrit/gellmann")
    pauli, gm = c2.c.basis(), c3.c.basis()
    comp2 = mb.get_comp_basis(2)
    over = mb.MatrixBasis(list(dense_basis(comp2)) + [np.eye(2, dtype=np.complex128)])   # 5 spanning matrices
    overq = cl(dense_basis(over))
    z = lambda r, cc: np.zeros((r, cc))
    cases = [
        ("notSquare", z(4, 3), pauli, comp2, [4, 3, cl(z(4, 3)), 2, 4, c2.Bq, 2, 4, cl(dense_basis(comp2))]),
        ("dimNotSquare", z(3, 3), pauli, comp2, [3, 3, cl(z(3, 3)), 2, 4, c2.Bq, 2, 4, cl(dense_basis(comp2))]),
        ("dimMismatch", z(4, 4), pauli, gm, [4, 4, cl(z(4, 4)), 2, 4, c2.Bq, 3, 9, c3.Bq]),
        ("lenMismatch", z(4, 4), pauli, over, [4, 4, cl(z(4, 4)), 2, 4, c2.Bq, 2, 5, overq]),
    ]
    for lab, hs, fb, tb, toks in cases:
        pend.add("convertHs", toks, lambda hs=hs, fb=fb, tb=tb: G.convert_hs(hs, fb, tb), "c", f"convert_hs/{lab}", nontrivial=True)
    pend.add("convertVec", [2, 4, c2.Bq, 3, 9, c3.Bq, cl(np.zeros(4))], lambda: mb.convert_vec(np.zeros(4), pauli, gm), "c", "convert_vec/lenMismatch")
    pend.add("convertVec", [2, 4, c2.Bq, 2, 5, overq, cl(np.zeros(4))], lambda: mb.convert_vec(np.zeros(4), pauli, over), "c", "convert_vec/lenMismatch2")
    pend.start()
    return pend


# ----------------------------------------------------------------------------- oracle
def enc(a):
    a = np.asarray(a, dtype=np.complex128)
    return {"shape": list(a.shape), "re": a.real.flatten().tolist(), "im": a.imag.flatten().tolist()}


def dec(o):
    return (np.array(o["re"]) + 1j * np.array(o["im"])).reshape(o["shape"])


def real_if(a):
    a = np.asarray(a)
    return a.real.astype(np.float64) if np.max(np.abs(a.imag)) == 0 else a


class Fail(Exception):
    def __init__(self, sig, what):
        self.sig, self.what = sig, what


class FailList(Exception):
    def __init__(self, fails):
        self.fails = fails


def sections(*fns):
    """run independent parts of a check; a failure in one does not hide the others"""
    out = []
    for fn in fns:
        try:
            fn()
        except Fail as f:
            out.append(f)
        except FailList as fl:
            out += fl.fails
    if out:
        raise FailList(out)


def dev(a, b):
    a = np.asarray(a, dtype=np.complex128); b = np.asarray(b, dtype=np.complex128)
    if a.shape != b.shape:
        return float("inf")
    if a.size == 0:
        return 0.0
    sc = float(np.max(np.abs(b)))
    return float(np.max(np.abs(a - b))) / (sc if sc > 1e-12 else 1.0)


def cut_band(ref):
    """entries of an exact reference that lie below 10 x the truncate_hs threshold: the conversion may legitimately return them as 0"""
    return np.abs(np.asarray(ref, dtype=np.complex128)) < 10 * Settings.get_atol()


def dev_cut(out, ref):
    """deviation from the exact reference for the output of a conversion that ends in `truncate_hs` (fluctuation cut |x| < eps -> 0):
    an entry in the band below 10·eps may be returned either as itself or as 0; all other entries as usual"""
    out = np.asarray(out, dtype=np.complex128); ref = np.asarray(ref, dtype=np.complex128)
    if out.shape != ref.shape:
        return float("inf")
    if ref.size == 0:
        return 0.0
    sc = float(np.max(np.abs(ref)))
    sc = sc if sc > 1e-12 else 1.0
    band = cut_band(ref)
    diff = np.abs(out - ref)
    d1 = float(diff[~band].max()) if (~band).any() else 0.0
    d2 = float(np.minimum(diff[band], np.abs(out[band])).max()) if band.any() else 0.0
    return max(d1, d2) / sc


def cut_slack(ref, target, gain=1.0):
    """what the zeroed band entries can contribute to a quantity rebuilt from the truncated output, relative to the target's scale"""
    sc = float(np.max(np.abs(target))) if np.size(target) else 1.0
    return float(cut_band(ref).sum()) * 10 * Settings.get_atol() * gain / (sc if sc > 1e-12 else 1.0)


def need(cond_dev, sig, what):
    if not (cond_dev <= OTOL):
        raise Fail(sig, f"{what}: deviation {cond_dev:.3g}")


def call(sig, fn):
    try:
        with np.errstate(all="ignore"):
            return fn()
    except Fail:
        raise
    except Exception as e:  # noqa
        raise Fail(f"{sig}/raises-{type(e).__name__}", f"{type(e).__name__}: {str(e)[:120]}")


# --- references computed from the channel action -------------------------------------------------
def apply_hs(cfg, hs, rho):
    """Λ(ρ) for the map whose HS matrix (in the system's basis) is hs"""
    v = np.array([np.trace(b.conj().T @ rho) for b in cfg.B])
    w = np.asarray(hs, dtype=np.complex128) @ v
    return sum(x * b for x, b in zip(w, cfg.B))


def choi_ref(cfg, hs):
    """C = Σ_kl Λ(E_kl) ⊗ E_kl  (= Σ_K |K>><<K| with row-major vec)"""
    d = cfg.d
    out = np.zeros((d * d, d * d), dtype=np.complex128)
    for k in range(d):
        for l in range(d):
            e = np.zeros((d, d), dtype=np.complex128); e[k, l] = 1
            out += np.kron(apply_hs(cfg, hs, e), e)
    return out


def hs_from_choi_ref(cfg, choi):
    """inverse of choi_ref: Λ(X)[i,j] = Σ_kl C[(i,k),(j,l)] X[k,l]; hs[a,b] = tr(B_a^† Λ(B_b))"""
    d = cfg.d
    c4 = np.asarray(choi, dtype=np.complex128).reshape(d, d, d, d)   # i,k,j,l
    imgs = [np.einsum("ikjl,kl->ij", c4, b) for b in cfg.B]
    return np.array([[np.trace(ba.conj().T @ im) for im in imgs] for ba in cfg.B])


# --- single checks (also the replay entry points) ---------------------------------------------------
def chk_state(cfg, v):
    c = cfg.c
    v = np.asarray(v)
    sig = "C02/state/vec->density"
    ref = sum(x * b for x, b in zip(v, cfg.B))
    if np.isrealobj(v):
        st = call("C02/State", lambda: State(c, v.copy(), is_physicality_required=False))
        need(dev(call(sig + "/loop", st.to_density_matrix), ref), sig + "/loop/formula", "State.to_density_matrix != Σ v_a B_a")
        need(dev(call(sig + "/sparse", st.to_density_matrix_with_sparsity), ref), sig + "/sparse/formula",
             "State.to_density_matrix_with_sparsity != Σ v_a B_a")
    need(dev(call(sig + "/fn", lambda: S.to_density_matrix_from_vec(c, v)), ref), sig + "/fn/formula", "to_density_matrix_from_vec != Σ v_a B_a")
    if np.isrealobj(v):
        back = call("C02/state/density->vec", lambda: S.to_vec_from_density_matrix_with_sparsity(c, ref))
        need(dev(back, v), "C02/state/roundtrip/vec-density-vec", "vec -> density -> vec is not the identity")
        if back.dtype != np.float64:
            raise Fail("C02/state/density->vec/dtype", f"dtype {back.dtype}")


def chk_density(cfg, rho):
    """Hermitian matrix -> vec -> matrix, defining formula tr(B_a^† ρ)"""
    c = cfg.c
    ref = np.array([np.trace(b.conj().T @ rho) for b in cfg.B])
    for nm, fn in (("state", S.to_vec_from_density_matrix_with_sparsity), ("povm", P.to_vec_from_matrix_with_sparsity)):
        v = call(f"C02/{nm}/matrix->vec", lambda: fn(c, rho))
        need(dev_cut(v, ref), f"C02/{nm}/matrix->vec/formula", f"{fn.__name__} != tr(B_a^† M)")
        back = call("C02/state/vec->density", lambda: S.to_density_matrix_from_vec(c, v))
        need(dev(back, rho) - cut_slack(ref, rho), f"C02/{nm}/roundtrip/matrix-vec-matrix", "matrix -> vec -> matrix is not the identity")
    var = call("C02/state/to_var_from_density_matrix", lambda: S.to_var_from_density_matrix(c, rho, on_para_eq_constraint=False))
    need(dev_cut(var, ref), "C02/state/to_var_from_density_matrix/formula", "to_var_from_density_matrix != tr(B_a^† ρ)")
    if cfg.n == cfg.d ** 2:
        co = call("C02/matrix_basis.calc_matrix_expansion_coefficient", lambda: mb.calc_matrix_expansion_coefficient(rho, c.basis()))
        need(dev(co, ref), "C02/matrix_basis.calc_matrix_expansion_coefficient/formula", "!= tr(B_a^† M)")
        back = call("C02/matrix_basis.calc_mat_from_coefficient_basis", lambda: mb.calc_mat_from_coefficient_basis(co, c.basis()))
        need(dev(back, rho), "C02/matrix_basis/roundtrip/matrix-coefficients-matrix", "calc_mat_from_coefficient_basis(calc_matrix_expansion_coefficient(M)) != M")
        hc = call("C02/matrix_basis.calc_hermitian_matrix_expansion_coefficient_hermitian_basis",
                  lambda: mb.calc_hermitian_matrix_expansion_coefficient_hermitian_basis(rho, c.basis()))
        need(dev_cut(hc, ref), "C02/matrix_basis.calc_hermitian_matrix_expansion_coefficient_hermitian_basis/formula", "!= tr(B_a^† M)")
    var = call("C02/state/to_var_from_density_matrix", lambda: S.to_var_from_density_matrix(c, rho, on_para_eq_constraint=True))
    need(dev_cut(var, ref[1:]), "C02/state/to_var_from_density_matrix(eq)/formula", "to_var_from_density_matrix(eq) != tr(B_a^† ρ), a ≥ 1")


def chk_povm(cfg, vecs):
    c, n = cfg.c, cfg.n
    vecs = [np.asarray(v, dtype=np.float64) for v in vecs]
    m = len(vecs)
    povm = call("C02/Povm", lambda: Povm(c, [v.copy() for v in vecs], is_physicality_required=False))
    refs = [sum(x * b for x, b in zip(v, cfg.B)) for v in vecs]

    def main():
        ms = call("C02/Povm.matrices", povm.matrices)
        mss = call("C02/Povm.matrices_with_sparsity", povm.matrices_with_sparsity)
        mf = call("C02/to_matrices_from_vecs", lambda: P.to_matrices_from_vecs(c, vecs))
        if not (len(ms) == len(mss) == len(mf) == m):
            raise Fail("C02/Povm.matrices/count", "number of matrices != number of outcomes")
        for i in range(m):
            need(dev(ms[i], refs[i]), "C02/Povm.matrices/formula", f"matrices()[{i}] != Σ v_a B_a")
            need(dev(mss[i], refs[i]), "C02/Povm.matrices_with_sparsity/formula", f"matrices_with_sparsity()[{i}] != Σ v_a B_a")
            need(dev(mf[i], refs[i]), "C02/to_matrices_from_vecs/formula", f"to_matrices_from_vecs()[{i}] != Σ v_a B_a")
            need(dev(call("C02/Povm.matrix", lambda: povm.matrix(i)), refs[i]), "C02/Povm.matrix/formula", f"matrix({i}) != Σ v_a B_a")
        back = call("C02/to_vecs_from_matrices_with_sparsity", lambda: P.to_vecs_from_matrices_with_sparsity(c, mss))
        need(dev(np.array(back), np.array(vecs)), "C02/povm/roundtrip/vecs-matrices_with_sparsity-vecs", "vecs -> matrices -> vecs is not the identity")
        var = call("C02/to_var_from_matrices", lambda: P.to_var_from_matrices(c, mss, on_para_eq_constraint=False))
        need(dev(var, np.hstack(vecs)), "C02/to_var_from_matrices/formula", "to_var_from_matrices != stacked tr(B_a^† M_x)")
        var = call("C02/to_var_from_matrices", lambda: P.to_var_from_matrices(c, mss, on_para_eq_constraint=True))
        need(dev(var, np.hstack(vecs[:-1])), "C02/to_var_from_matrices(eq)/formula", "to_var_from_matrices(eq) != stacked vecs without the last")

    def direct_roundtrip():
        # the documented inverse applied to exactly what matrices() / matrix(i) return
        for nm, mats in (("matrices()", povm.matrices()), ("matrix(i)", [povm.matrix(i) for i in range(m)])):
            try:
                back = P.to_vecs_from_matrices_with_sparsity(c, mats)
            except ValueError as e:
                if isinstance(mats[0], np.matrix) and "dimension mismatch" in str(e):
                    raise Fail(SIG_D13, f"to_vecs_from_matrices_with_sparsity(c_sys, povm.{nm}) raises ValueError: Povm.{nm} returns np.matrix "
                                        f"(ndarray += csr_matrix), whose .flatten() is 1 x d^2")
                raise Fail("C02/povm/roundtrip/direct/raises-ValueError", str(e)[:120])
            except Exception as e:  # noqa
                raise Fail(f"C02/povm/roundtrip/direct/raises-{type(e).__name__}", str(e)[:120])
            need(dev(np.array(back), np.array(vecs)), "C02/povm/roundtrip/direct", f"to_vecs_from_matrices_with_sparsity(povm.{nm}) != vecs")

    def alt_matrix():
        # alternative implementation of matrix(index): must agree with matrix(index)
        for i in range(m):
            try:
                alt = povm.matrix_with_sparsity(i)
            except NameError as e:
                raise Fail(SIG_D2, f"Povm.matrix_with_sparsity({i}) raises NameError: {e} (matrix({i}) returns the element)")
            except Exception as e:  # noqa
                raise Fail(f"C02/Povm.matrix_with_sparsity/raises-{type(e).__name__}", str(e)[:120])
            if np.shape(alt) != np.shape(refs[i]):
                raise Fail("C02/Povm.matrix_with_sparsity/shape", f"shape {np.shape(alt)}")
            need(dev(alt, refs[i]), "C02/Povm.matrix_with_sparsity/formula", f"matrix_with_sparsity({i}) != matrix({i})")

    sections(main, direct_roundtrip, alt_matrix)


CHOI_FWD = (("loop", G.to_choi_from_hs), ("dict", G.to_choi_from_hs_with_dict), ("sparse", G.to_choi_from_hs_with_sparsity))
CHOI_INV = (("loop", G.to_hs_from_choi), ("dict", G.to_hs_from_choi_with_dict), ("sparse", G.to_hs_from_choi_with_sparsity))


def chk_gate(cfg, hs, kraus=None, heavy=True):
    """HS -> Choi (3 implementations) against the channel-action definition, round trips through all 9 pairs,
    process matrix, computational-basis forms, variables"""
    c, d, n = cfg.c, cfg.d, cfg.n
    hs = real_if(hs)
    ref = choi_ref(cfg, hs)
    if kraus is not None:
        vk = [k.flatten() for k in kraus]
        need(dev(sum(np.outer(v, v.conj()) for v in vk), ref), "C02/oracle/self-check", "reference Choi != Σ|K>><<K|")
    chois = {}
    for nm, fn in CHOI_FWD:
        chois[nm] = call(f"C02/gate.to_choi_from_hs[{nm}]", lambda: fn(c, hs))
        need(dev(chois[nm], ref), f"C02/gate.to_choi_from_hs[{nm}]/formula", f"{fn.__name__} != Σ_kl Λ(E_kl)⊗E_kl")
    if np.isrealobj(hs):
        for nm, fn in CHOI_INV:
            for src in (("sparse",) if not heavy else ("loop", "dict", "sparse")):
                back = call(f"C02/gate.to_hs_from_choi[{nm}]", lambda: fn(c, chois[src]))
                need(dev(back, hs), f"C02/gate/roundtrip/hs-choi[{src}]-hs[{nm}]", f"{fn.__name__}(to_choi[{src}](hs)) != hs")
                if back.dtype != np.float64:
                    raise Fail(f"C02/gate.to_hs_from_choi[{nm}]/dtype", f"dtype {back.dtype}")
        gate = call("C02/Gate", lambda: Gate(c, hs.copy(), is_physicality_required=False))
        need(dev(call("C02/Gate.to_choi_matrix", gate.to_choi_matrix), ref), "C02/Gate.to_choi_matrix/formula", "Gate.to_choi_matrix")
        need(dev(call("C02/Gate.to_choi_matrix_with_dict", gate.to_choi_matrix_with_dict), ref), "C02/Gate.to_choi_matrix_with_dict/formula", "method")
        need(dev(call("C02/Gate.to_choi_matrix_with_sparsity", gate.to_choi_matrix_with_sparsity), ref), "C02/Gate.to_choi_matrix_with_sparsity/formula", "method")
        # computational-basis forms act on the flattened density matrix
        g = np.random.default_rng(5)
        rho = rand_c(g, (d, d))
        img = apply_hs(cfg, hs, rho)
        row = call("C02/Gate.convert_to_comp_basis", lambda: gate.convert_to_comp_basis("row_major"))
        col = call("C02/Gate.convert_to_comp_basis", lambda: gate.convert_to_comp_basis("column_major"))
        need(dev(row @ rho.flatten(), img.flatten()), "C02/Gate.convert_to_comp_basis(row_major)/action", "hs_cb · vec_row(ρ) != vec_row(Λ(ρ))")
        need(dev(col @ rho.flatten("F"), img.flatten("F")), "C02/Gate.convert_to_comp_basis(column_major)/action", "hs_cb · vec_col(ρ) != vec_col(Λ(ρ))")
        for mode, m in (("row_major", row), ("column_major", col)):
            back = call("C02/convert_hs", lambda: G.convert_hs(m, c.comp_basis(mode), c.basis()))
            need(dev(back, hs), f"C02/convert_hs/roundtrip/comp({mode})", "basis -> comp -> basis is not the identity")
        # process matrix: Λ(ρ) = Σ χ_ab E_a ρ E_b^†, and χ = Choi for the row-major computational basis
        chi = call("C02/gate.to_process_matrix_from_hs", lambda: G.to_process_matrix_from_hs(c, hs))
        need(dev(chi, ref), "C02/gate.to_process_matrix_from_hs/formula", "process matrix != Σ_K k k^† (computational-basis coefficients)")
        need(dev(call("C02/Gate.to_process_matrix", gate.to_process_matrix), ref), "C02/Gate.to_process_matrix/formula", "method")
        # variables
        def var_part(flag):
            if flag and np.max(np.abs(hs[0] - np.eye(1, n)[0])) > 1e-12:
                return
            var = G.convert_hs_to_var(c, hs, on_para_eq_constraint=flag)
            ch = call("C02/gate.to_choi_from_var", lambda: G.to_choi_from_var(c, var, on_para_eq_constraint=flag))
            need(dev(ch, ref), f"C02/gate.to_choi_from_var({flag})/formula", "to_choi_from_var != Choi of convert_var_to_hs(var)")
            try:
                with np.errstate(all="ignore"):
                    back = G.to_var_from_choi(c, ch, on_para_eq_constraint=flag)
            except Exception as e:  # noqa
                raise Fail(f"C02/gate.to_var_from_choi/raises-{type(e).__name__}", str(e)[:120])
            if np.shape(back) != np.shape(var) or dev(back, var) > OTOL:
                fwd = G.convert_hs_to_var(c, G.to_choi_from_hs_with_sparsity(c, ch), on_para_eq_constraint=flag)
                if np.shape(back) == np.shape(fwd) and dev(back, fwd) <= OTOL:
                    raise Fail(SIG_D3, f"to_var_from_choi(to_choi_from_var(var), on_para_eq_constraint={flag}) != var "
                                       f"(deviation {dev(back, var):.3g}, dtype {np.asarray(back).dtype}); it equals the FORWARD conversion applied to the Choi matrix")
                raise Fail("C02/gate.to_var_from_choi/roundtrip", f"to_var_from_choi(to_choi_from_var(var)) != var, deviation {dev(back, var):.3g}")
        sections(lambda: var_part(False), lambda: var_part(True))


def chk_choi(cfg, choi):
    """Hermitian Choi matrix -> HS (3 implementations) -> Choi"""
    c = cfg.c
    ref = hs_from_choi_ref(cfg, choi)
    outs = {}
    for nm, fn in CHOI_INV:
        outs[nm] = call(f"C02/gate.to_hs_from_choi[{nm}]", lambda: fn(c, choi))
        # the dict / sparse variants end in truncate_hs (entries below the threshold become 0), the plain loop does not
        need((dev if nm == "loop" else dev_cut)(outs[nm], ref), f"C02/gate.to_hs_from_choi[{nm}]/formula", f"{fn.__name__} != tr(B_a^† Λ_C(B_b))")
    for nm, fn in CHOI_FWD:
        back = call(f"C02/gate.to_choi_from_hs[{nm}]", lambda: fn(c, outs["sparse"]))
        need(dev(back, choi) - cut_slack(ref, choi), f"C02/gate/roundtrip/choi-hs-choi[{nm}]", "Choi -> HS -> Choi is not the identity")


def chk_kraus(cfg, ks):
    """Kraus -> HS against the channel action; HS -> Kraus -> HS; gauge invariant; ordering and phase convention"""
    c, d = cfg.c, cfg.d
    ref = hs_of_kraus_ref(cfg, ks)
    hs = call("C02/gate.to_hs_from_kraus_matrices", lambda: G.to_hs_from_kraus_matrices(c, ks))
    need(dev(hs, ref), "C02/gate.to_hs_from_kraus_matrices/formula", "to_hs_from_kraus_matrices != tr(B_a^† Σ K B_b K^†)")
    out = call("C02/gate.to_kraus_matrices_from_hs", lambda: G.to_kraus_matrices_from_hs(c, hs))
    rank = np.linalg.matrix_rank(np.array([k.flatten() for k in ks]), tol=1e-9)
    if len(out) != rank:
        raise Fail("C02/gate.to_kraus_matrices_from_hs/count", f"{len(out)} Kraus operators for a map of Kraus rank {rank}")
    inv_in = sum(np.kron(k, k.conj()) for k in ks)
    inv_out = sum(np.kron(k, k.conj()) for k in out)
    if dev(inv_out, inv_in) > 1e-8:
        raise Fail("C02/gate.to_kraus_matrices_from_hs/gauge-invariant", f"Σ K⊗conj(K) changed by {dev(inv_out, inv_in):.3g}")
    back = call("C02/gate.to_hs_from_kraus_matrices", lambda: G.to_hs_from_kraus_matrices(c, out))
    if dev(back, hs) > 1e-8:
        raise Fail("C02/gate/roundtrip/hs-kraus-hs", f"deviation {dev(back, hs):.3g}")
    ws = [np.trace(k.conj().T @ k).real for k in out]
    if any(ws[i] < ws[i + 1] - 1e-9 for i in range(len(ws) - 1)):
        raise Fail("C02/gate.to_kraus_matrices_from_hs/order", f"weights not decreasing: {ws}")
    for k in out:
        nz = [z for z in k.flatten() if z != 0]
        if nz and (nz[0].real < 0 or (nz[0].real == 0 and nz[0].imag < 0)):
            raise Fail("C02/gate.to_kraus_matrices_from_hs/phase", f"first non-zero entry {nz[0]} is negative")
    # pairwise orthogonality of the returned operators (they come from an eigen-decomposition)
    gram = np.array([[np.vdot(a, b) for b in out] for a in out])
    if dev(gram, np.diag(np.diag(gram))) > 1e-8:
        raise Fail("C02/gate.to_kraus_matrices_from_hs/orthogonal", "returned Kraus operators are not mutually orthogonal")


def chk_not_cp(cfg, hs):
    out = call("C02/gate.to_kraus_matrices_from_hs", lambda: G.to_kraus_matrices_from_hs(cfg.c, hs))
    w = np.linalg.eigvalsh((choi_ref(cfg, hs) + choi_ref(cfg, hs).conj().T) / 2)
    if w.min() < -1e-6 and len(out) != 0:
        raise Fail("C02/gate.to_kraus_matrices_from_hs/notCP", f"{len(out)} Kraus operators returned for a map whose Choi matrix has eigenvalue {w.min():.3g}")


def chk_convert(cfg, other, hs, v):
    """convert_hs / convert_vec to another orthonormal basis: same operator, and back"""
    c = cfg.c
    ob = dense_basis(other)
    mat = sum(x * b for x, b in zip(v, cfg.B))
    w = call("C02/convert_vec", lambda: mb.convert_vec(v, c.basis(), other))
    need(dev(sum(x * b for x, b in zip(w, ob)), mat), "C02/convert_vec/same-operator", "Σ w_a B'_a != Σ v_a B_a")
    need(dev(call("C02/convert_vec", lambda: mb.convert_vec(w, other, c.basis())), v), "C02/convert_vec/roundtrip", "there and back is not the identity")
    h2 = call("C02/convert_hs", lambda: G.convert_hs(hs, c.basis(), other))
    g = np.random.default_rng(6)
    rho = rand_c(g, (cfg.d, cfg.d))
    img = apply_hs(cfg, hs, rho)
    v2 = np.array([np.trace(b.conj().T @ rho) for b in ob])
    img2 = sum(x * b for x, b in zip(h2 @ v2, ob))
    need(dev(img2, img), "C02/convert_hs/same-operator", "the converted HS matrix acts differently on ρ")
    need(dev(call("C02/convert_hs", lambda: G.convert_hs(h2, other, c.basis())), hs), "C02/convert_hs/roundtrip", "there and back is not the identity")
    # expansion helpers of matrix_basis.py on this (possibly non-Hermitian) basis, non-symmetric complex matrix
    mm = rand_c(g, (cfg.d, cfg.d))
    co = call("C02/matrix_basis.calc_matrix_expansion_coefficient", lambda: mb.calc_matrix_expansion_coefficient(mm, other))
    need(dev(co, np.array([np.trace(b.conj().T @ mm) for b in ob])), "C02/matrix_basis.calc_matrix_expansion_coefficient/formula", "coefficients != tr(B_a^† M)")
    need(dev(call("C02/matrix_basis.calc_mat_from_coefficient_basis", lambda: mb.calc_mat_from_coefficient_basis(co, other)), mm),
         "C02/matrix_basis/roundtrip/matrix-coefficients-matrix", "calc_mat_from_coefficient_basis(calc_matrix_expansion_coefficient(M)) != M")
    # the object methods and the other storage of the same basis must give the same coefficients
    kind = "sparse" if isinstance(other, mb.SparseMatrixBasis) else "dense"
    twin = mb.MatrixBasis(list(ob)) if kind == "sparse" else sparse_stored(other)
    need(dev(call("C02/convert_vec", lambda: mb.convert_vec(v, c.basis(), twin)), w), f"C02/convert_vec/storage({kind} vs other)", "dense- and sparse-stored target basis give different coefficients")
    need(dev(call("C02/convert_hs", lambda: G.convert_hs(hs, c.basis(), twin)), h2), f"C02/convert_hs/storage({kind} vs other)", "dense- and sparse-stored target basis give different matrices")
    st = State(c, np.asarray(v, dtype=np.float64).copy(), is_physicality_required=False)
    need(dev(call("C02/State.convert_basis", lambda: st.convert_basis(other)), w), "C02/State.convert_basis/formula", "!= convert_vec")
    gt = Gate(c, np.asarray(hs, dtype=np.float64).copy(), is_physicality_required=False)
    need(dev(call("C02/Gate.convert_basis", lambda: gt.convert_basis(other)), h2), "C02/Gate.convert_basis/formula", "!= convert_hs")
    pv = Povm(c, [np.asarray(v, dtype=np.float64).copy(), -np.asarray(v, dtype=np.float64)], is_physicality_required=False)
    need(dev(call("C02/Povm.convert_basis", lambda: pv.convert_basis(other))[0], w), "C02/Povm.convert_basis/formula", "!= convert_vec")
    if c.is_orthonormal_hermitian_0thprop_identity:
        mp = MProcess(c, [np.asarray(hs, dtype=np.float64).copy(), np.asarray(hs, dtype=np.float64).T.copy()], is_physicality_required=False)
        need(dev(call("C02/MProcess.convert_basis", lambda: mp.convert_basis(other))[0], h2), "C02/MProcess.convert_basis/formula", "!= convert_hs")
    # matrix_util.vdot itself on every storage combination
    from scipy import sparse as _sp
    from quara.utils import matrix_util as _mu
    a, b = rand_c(g, (cfg.d, cfg.d)), ob[1] + 0.5j * ob[-1]
    for ka, fa in (("dense", np.asarray), ("csr", _sp.csr_matrix), ("csc", _sp.csc_matrix)):
        for kb, fb in (("dense", np.asarray), ("csr", _sp.csr_matrix), ("csc", _sp.csc_matrix)):
            r = call(f"C02/matrix_util.vdot({ka},{kb})", lambda: _mu.vdot(fa(a), fb(b)))
            need(dev(np.array([r]), np.array([np.sum(a.conj() * b)])), f"C02/matrix_util.vdot({ka},{kb})/formula", "vdot(a,b) != Σ conj(a_ij) b_ij")


def chk_linear(cfg, seed):
    """f(a x + b y) = a f(x) + b f(y) for every linear conversion"""
    c, d, n = cfg.c, cfg.d, cfg.n
    g = np.random.default_rng(seed)
    a, b = float(g.standard_normal()), float(g.standard_normal())
    x, y = g.standard_normal((n, n)), g.standard_normal((n, n))
    fns = [(f"gate.to_choi_from_hs[{nm}]", (lambda fn: lambda h: fn(c, h))(fn)) for nm, fn in CHOI_FWD]
    fns.append(("gate.to_process_matrix_from_hs", lambda h: G.to_process_matrix_from_hs(c, h)))
    fns.append(("gate.convert_hs(->comp)", lambda h: G.convert_hs(h, c.basis(), c.comp_basis())))
    fns.append(("gate.to_choi_from_var(False)", lambda h: G.to_choi_from_var(c, h.flatten(), on_para_eq_constraint=False)))
    for nm, f in fns:
        l = call(f"C02/{nm}", lambda: f(a * x + b * y)); r = a * call(f"C02/{nm}", lambda: f(x)) + b * call(f"C02/{nm}", lambda: f(y))
        need(dev(l, r), f"C02/{nm}/linear", "not linear")
    hx, hy = rand_herm(g, d * d), rand_herm(g, d * d)
    for nm, fn in CHOI_INV:
        l = call(f"C02/gate.to_hs_from_choi[{nm}]", lambda: fn(c, a * hx + b * hy))
        r = a * fn(c, hx) + b * fn(c, hy)
        need(dev(l, r), f"C02/gate.to_hs_from_choi[{nm}]/linear", "not linear")
    u, w = g.standard_normal(n), g.standard_normal(n)
    l = S.to_density_matrix_from_vec(c, a * u + b * w); r = a * S.to_density_matrix_from_vec(c, u) + b * S.to_density_matrix_from_vec(c, w)
    need(dev(l, r), "C02/state.to_density_matrix_from_vec/linear", "not linear")
    rx, ry = rand_herm(g, d), rand_herm(g, d)
    l = S.to_vec_from_density_matrix_with_sparsity(c, a * rx + b * ry)
    r = a * S.to_vec_from_density_matrix_with_sparsity(c, rx) + b * S.to_vec_from_density_matrix_with_sparsity(c, ry)
    need(dev(l, r), "C02/state.to_vec_from_density_matrix_with_sparsity/linear", "not linear")
    l = mb.convert_vec(a * u + b * w, c.basis(), c.comp_basis()); r = a * mb.convert_vec(u, c.basis(), c.comp_basis()) + b * mb.convert_vec(w, c.basis(), c.comp_basis())
    need(dev(l, r), "C02/convert_vec/linear", "not linear")


def chk_mprocess(cfg, hss):
    c = cfg.c
    hss = [np.asarray(h, dtype=np.float64) for h in hss]
    mp = call("C02/MProcess", lambda: MProcess(c, [h.copy() for h in hss], is_physicality_required=False))
    for i, hs in enumerate(hss):
        ref = choi_ref(cfg, hs)
        need(dev(call("C02/MProcess.to_choi_matrix", lambda: mp.to_choi_matrix(i)), ref), "C02/MProcess.to_choi_matrix/formula", f"outcome {i}")
        need(dev(call("C02/MProcess.to_choi_matrix_with_dict", lambda: mp.to_choi_matrix_with_dict(i)), ref), "C02/MProcess.to_choi_matrix_with_dict/formula", f"outcome {i}")
        need(dev(call("C02/MProcess.to_choi_matrix_with_sparsity", lambda: mp.to_choi_matrix_with_sparsity(i)), ref),
             "C02/MProcess.to_choi_matrix_with_sparsity/formula", f"outcome {i}")
        need(dev(call("C02/MProcess.to_process_matrix", lambda: mp.to_process_matrix(i)), ref), "C02/MProcess.to_process_matrix/formula", f"outcome {i}")
        for mode in ("row_major", "column_major"):
            m = call("C02/MProcess.convert_to_comp_basis", lambda: mp.convert_to_comp_basis(mode))[i]
            need(dev(m, G.convert_hs(hs, c.basis(), c.comp_basis(mode))), f"C02/MProcess.convert_to_comp_basis({mode})/formula", f"outcome {i}")
        ks = call("C02/MProcess.to_kraus_matrices", lambda: mp.to_kraus_matrices(i))
        if ks:
            need(dev(hs_of_kraus_ref(cfg, ks), hs) * 1e-2, "C02/MProcess.to_kraus_matrices/roundtrip", f"outcome {i}")


def comp_ref(d, mode):
    pairs = [(r, c) for r in range(d) for c in range(d)] if mode == "row_major" else [(r, c) for c in range(d) for r in range(d)]
    out = []
    for r, c in pairs:
        e = np.zeros((d, d), dtype=np.complex128); e[r, c] = 1
        out.append(e)
    return out


def chk_compform(cfg, hss):
    """computational-basis forms (row- and column-major) of a gate / of every outcome of a measurement process against the
    defining formula HS_cb[i,j] = tr(E_i^† Λ(E_j)), (E_i) the computational matrix basis in the requested order"""
    c, d = cfg.c, cfg.d
    hss = [np.asarray(h, dtype=np.float64) for h in hss]
    tag = f"{len(c._elemental_systems)}sys"
    def order(mode):
        cb = call(f"C02/CompositeSystem.comp_basis({mode})", lambda: dense_basis(c.comp_basis(mode)))
        need(dev(cb, np.array(comp_ref(d, mode))), f"C02/CompositeSystem.comp_basis({mode})/{tag}/order",
             f"comp_basis(mode={mode}) is not the {mode} computational basis")

    def forms(mode):
        E = comp_ref(d, mode)
        refs = []
        for hs in hss:
            imgs = [apply_hs(cfg, hs, e) for e in E]
            refs.append(np.array([[np.trace(ei.conj().T @ im) for im in imgs] for ei in E]))
        gate = call("C02/Gate", lambda: Gate(c, hss[0].copy(), is_physicality_required=False))
        m = call("C02/Gate.convert_to_comp_basis", lambda: gate.convert_to_comp_basis(mode))
        need(dev(m, refs[0]), f"C02/Gate.convert_to_comp_basis({mode})/{tag}/formula", "HS_cb[i,j] != tr(E_i^† Λ(E_j))")
        back = call("C02/convert_hs", lambda: G.convert_hs(m, mb.get_comp_basis(d, mode), c.basis()))
        need(dev(back, hss[0]), f"C02/convert_hs/roundtrip/comp({mode})/{tag}", "basis -> comp -> basis is not the identity")

    def mforms(mode):
        if len(hss) > 1 and c.is_orthonormal_hermitian_0thprop_identity:
            E = comp_ref(d, mode)
            mp = call("C02/MProcess", lambda: MProcess(c, [h.copy() for h in hss], is_physicality_required=False))
            ms = call("C02/MProcess.convert_to_comp_basis", lambda: mp.convert_to_comp_basis(mode))
            for i, hs in enumerate(hss):
                imgs = [apply_hs(cfg, hs, e) for e in E]
                ref = np.array([[np.trace(ei.conj().T @ im) for im in imgs] for ei in E])
                need(dev(ms[i], ref), f"C02/MProcess.convert_to_comp_basis({mode})/{tag}/formula", f"outcome {i}: HS_cb[i,j] != tr(E_i^† Λ(E_j))")

    parts = []
    for mode in ("row_major", "column_major"):
        parts += [lambda mode=mode: order(mode), lambda mode=mode: forms(mode), lambda mode=mode: mforms(mode)]
    sections(*parts)


_S = np.array([[1, 0], [0, 1j]], dtype=np.complex128)
_H = np.array([[1, 1], [1, -1]], dtype=np.complex128) / np.sqrt(2)
_RY = np.array([[1, -1], [1, 1]], dtype=np.complex128) / np.sqrt(2)


def multi_inputs(g, cfg):
    """(label, list of HS matrices) on a composite system with >= 2 subsystems: complex product unitaries, a random unitary,
    a 2-outcome measurement process with complex Kraus operators, a non-physical real matrix"""
    d, n = cfg.d, cfg.n
    out = []
    if d == 4:
        out.append(("S.RY(x)H.S", [hs_of_kraus_ref(cfg, [np.kron(_S @ _RY, _H @ _S)]).real.copy()]))
        out.append(("H.S(x)S", [hs_of_kraus_ref(cfg, [np.kron(_H @ _S, _S)]).real.copy()]))
    out.append(("unitary", [hs_of_kraus_ref(cfg, [qobj.rand_unitary(g, d)]).real.copy()]))
    groups = qobj.rand_kraus(g, d, 2, 1)
    out.append(("mprocess2", [hs_of_kraus_ref(cfg, ks).real.copy() for ks in groups]))
    out.append(("nonphysical", [g.standard_normal((n, n))]))
    return out


QUICK_MULTI = ["2qubit/pauli"]          # quick tier: multi-subsystem systems only for the computational-basis forms


def corr_multi(ctx, cfg, g):
    pend = Pend(ctx)
    c, d, Bq = cfg.c, cfg.d, cfg.Bq
    hd = [str(d), Bq]
    for mode in ("row_major", "column_major"):
        pend.add("compBasis", [d, mode], lambda mode=mode: dense_basis(c.comp_basis(mode)), "c", f"{cfg.name}/comp_basis({mode})")
    for lab, hss in multi_inputs(g, cfg):
        gate = Gate(c, hss[0].copy(), is_physicality_required=False)
        mp = MProcess(c, [h.copy() for h in hss], is_physicality_required=False) if len(hss) > 1 else None
        for mode in ("row_major", "column_major"):
            pend.add("convertToComp", hd + [cl(hss[0]), mode], lambda gate=gate, mode=mode: gate.convert_to_comp_basis(mode), "c",
                     f"{cfg.name}/Gate.convert_to_comp_basis({mode})/{lab}")
            if mp is not None:
                for i in range(len(hss)):
                    pend.add("convertToComp", hd + [cl(hss[i]), mode], lambda mp=mp, mode=mode, i=i: mp.convert_to_comp_basis(mode)[i], "c",
                             f"{cfg.name}/MProcess.convert_to_comp_basis({mode})[{i}]/{lab}")
    pend.start()
    return pend


def build_tensor_povm(factors, names):
    """tensor product of 1-qubit POVMs (factor k given by its real coefficient vectors in the normalised Pauli basis, placed
    on the elemental system named names[k]); returns the product POVM and the factor matrices"""
    from quara.objects.operators import tensor_product
    cs = [qobj.csys("qubit", names=(int(nm),)) for nm in names]
    ps = [Povm(c, [np.asarray(v, dtype=np.float64).copy() for v in vs], is_physicality_required=False) for c, vs in zip(cs, factors)]
    mats = [[qobj.mat_of(c, np.asarray(v, dtype=np.float64)) for v in vs] for c, vs in zip(cs, factors)]
    tp = ps[0]
    for pv in ps[1:]:
        tp = tensor_product(tp, pv)
    return tp, mats


def rand_factors(g, counts):
    c1 = qobj.csys("qubit")
    return [[qobj.vec_of(c1, e) for e in qobj.rand_povm_mats(g, 2, m)] for m in counts]


def chk_povm_tensor(factors, names):
    """tensor-product POVM with (possibly different) local outcome counts: tuple access = M_i ⊗ N_j ⊗ … (systems in name
    order), tuple access = serial access at the row-major serial index, for matrix / matrix_with_sparsity / vec"""
    tp, mats = call("C02/tensor_product(Povm)", lambda: build_tensor_povm(factors, names))
    order = [int(k) for k in np.argsort(names)]
    lens = [len(factors[k]) for k in order]
    tag = "x".join(str(l) for l in lens)
    if list(tp.nums_local_outcomes) != lens:
        raise Fail("C02/Povm.nums_local_outcomes/tensor", f"nums_local_outcomes {tp.nums_local_outcomes} != {lens}")
    ms = call("C02/Povm.matrices", tp.matrices)

    def per_index(t):
        ref = np.eye(1)
        for pos, k in enumerate(order):
            ref = np.kron(ref, mats[k][t[pos]])
        ser = int(np.ravel_multi_index(t, lens))
        need(dev(call("C02/Povm.matrix(tuple)", lambda: tp.matrix(tuple(t))), ref), f"C02/Povm.matrix(tuple)/tensor/formula",
             f"outcomes {tag}: matrix({tuple(t)}) != ⊗ of the factor elements")
        need(dev(call("C02/Povm.matrix_with_sparsity(tuple)", lambda: tp.matrix_with_sparsity(tuple(t))), ref),
             "C02/Povm.matrix_with_sparsity(tuple)/tensor/formula", f"outcomes {tag}: matrix_with_sparsity({tuple(t)}) != ⊗ of the factor elements")
        need(dev(call("C02/Povm.vec(tuple)", lambda: tp.vec(tuple(t))), tp.vecs[ser]), "C02/Povm.vec(tuple)/tensor/serial",
             f"outcomes {tag}: vec({tuple(t)}) != vecs[{ser}] (row-major serial index)")
        need(dev(tp.matrix(ser), ref), "C02/Povm.matrix(serial)/tensor/formula", f"outcomes {tag}: matrix({ser}) != ⊗ of the factor elements")
        need(dev(ms[ser], ref), "C02/Povm.matrices/tensor/formula", f"outcomes {tag}: matrices()[{ser}] != ⊗ of the factor elements")

    def bad_len():
        try:
            tp.vec(tuple([0] * (len(lens) + 1)))
        except ValueError:
            return
        except Exception as e:  # noqa
            raise Fail(f"C02/Povm.vec(tuple)/len/raises-{type(e).__name__}", str(e)[:100])
        raise Fail("C02/Povm.vec(tuple)/len/accepted", "a tuple with one index too many is accepted")

    sections(*([lambda t=t: per_index(t) for t in itertools.product(*[range(l) for l in lens])] + [bad_len]))


def corr_povm_tensor(ctx, g):
    """Povm.matrix(tuple) / matrix_with_sparsity(tuple) of 2-factor tensor-product POVMs with different outcome counts"""
    pend = Pend(ctx)
    for counts, names in (((2, 3), (0, 1)), ((3, 2), (0, 1)), ((2, 3), (1, 0)), ((2, 2), (0, 1))):
        factors = rand_factors(g, counts)
        tp, _ = build_tensor_povm(factors, names)
        c = tp.composite_system
        B = qobj.basis_mats(c)
        d, n = c.dim, len(B)
        Bq = cl(np.array(B))
        lens = list(tp.nums_local_outcomes)
        m = len(tp.vecs)
        flat = cl(np.array(tp.vecs))
        idxs = list(itertools.product(*[range(l) for l in lens])) + [tuple(lens[:-1]) + (0,), (0,) * (len(lens) + 1), (0,) * (len(lens) - 1)]
        lab = f"tensor{counts}names{names}"
        for t in idxs:
            pend.add("povmMatrixMd", [d, n, Bq, m, flat, ",".join(map(str, lens)), ",".join(map(str, t)) if t else "-", "0"],
                     lambda tp=tp, t=t: tp.matrix(tuple(t)), "c", f"{lab}/Povm.matrix({t})")
            pend.add("povmMatrixMd", [d, n, Bq, m, flat, ",".join(map(str, lens)), ",".join(map(str, t)) if t else "-", "1"],
                     lambda tp=tp, t=t: tp.matrix_with_sparsity(tuple(t)), "c", f"{lab}/Povm.matrix_with_sparsity({t})")
    pend.start()
    return pend


def layouts(x):
    """the same values in other memory layouts: Fortran order, a transposed view (as `y.conj().T` / LAPACK output), a strided view"""
    x = np.asarray(x)
    big = np.zeros((2 * x.shape[0], 2 * x.shape[1]), dtype=x.dtype)
    big[::2, ::2] = x
    tv = np.ascontiguousarray(x.T).T
    return [("fortran", np.asfortranarray(x)), ("transposed-view", tv), ("strided", big[::2, ::2])]


def chk_layout(cfg, seed):
    """every conversion that takes a matrix argument gives the same result (and the defining formula) whatever the memory layout"""
    c, d, n = cfg.c, cfg.d, cfg.n
    g = np.random.default_rng(seed)
    rho = rand_herm(g, d)
    choi = rand_herm(g, d * d)
    hs = g.standard_normal((n, n))
    ks = [rand_c(g, (d, d)) for _ in range(2)]
    povm_ms = [rand_herm(g, d) for _ in range(3)]
    vref = np.array([np.trace(b.conj().T @ rho) for b in cfg.B])
    jobs = [
        ("state.to_vec_from_density_matrix_with_sparsity", rho, lambda x: S.to_vec_from_density_matrix_with_sparsity(c, x), vref),
        ("povm.to_vec_from_matrix_with_sparsity", rho, lambda x: P.to_vec_from_matrix_with_sparsity(c, x), vref),
        ("state.to_var_from_density_matrix", rho, lambda x: S.to_var_from_density_matrix(c, x, on_para_eq_constraint=False), vref),
        ("gate.to_hs_from_choi[loop]", choi, lambda x: G.to_hs_from_choi(c, x), hs_from_choi_ref(cfg, choi)),
        ("gate.to_hs_from_choi[dict]", choi, lambda x: G.to_hs_from_choi_with_dict(c, x), hs_from_choi_ref(cfg, choi)),
        ("gate.to_hs_from_choi[sparse]", choi, lambda x: G.to_hs_from_choi_with_sparsity(c, x), hs_from_choi_ref(cfg, choi)),
        ("gate.to_var_from_choi", choi, lambda x: G.to_var_from_choi(c, x, on_para_eq_constraint=False), hs_from_choi_ref(cfg, choi).flatten()),
        ("gate.to_choi_from_hs[loop]", hs, lambda x: G.to_choi_from_hs(c, x), choi_ref(cfg, hs)),
        ("gate.to_choi_from_hs[dict]", hs, lambda x: G.to_choi_from_hs_with_dict(c, x), choi_ref(cfg, hs)),
        ("gate.to_choi_from_hs[sparse]", hs, lambda x: G.to_choi_from_hs_with_sparsity(c, x), choi_ref(cfg, hs)),
        ("gate.to_process_matrix_from_hs", hs, lambda x: G.to_process_matrix_from_hs(c, x), choi_ref(cfg, hs)),
        ("gate.convert_hs(->comp)", hs, lambda x: G.convert_hs(x, c.basis(), c.comp_basis()), None),
        ("Gate(hs).to_choi_matrix_with_sparsity", hs, lambda x: Gate(c, x, is_physicality_required=False).to_choi_matrix_with_sparsity(), choi_ref(cfg, hs)),
        ("Gate(hs).convert_to_comp_basis", hs, lambda x: Gate(c, x, is_physicality_required=False).convert_to_comp_basis(), None),
    ]

    def one(nm, x, f, ref):
        base = call(f"C02/{nm}", lambda: f(np.ascontiguousarray(x)))
        if ref is not None:
            need(dev(base, ref), f"C02/{nm}/formula", "C-contiguous input: result != defining formula")
        for lay, y in layouts(x):
            r = call(f"C02/{nm}/layout({lay})", lambda: f(y))
            need(dev(r, base), f"C02/{nm}/layout({lay})", f"{lay} input gives a different result than the C-contiguous copy of the same values")

    def lists():
        refs = hs_of_kraus_ref(cfg, ks)
        for lay in ("fortran", "transposed-view", "strided"):
            kl = [dict(layouts(k))[lay] for k in ks]
            need(dev(call("C02/gate.to_hs_from_kraus_matrices", lambda: G.to_hs_from_kraus_matrices(c, kl)), call("C02/x", lambda: G.to_hs_from_kraus_matrices(c, ks))),
                 f"C02/gate.to_hs_from_kraus_matrices/layout({lay})", f"{lay} Kraus operators give a different HS matrix")
            ml = [dict(layouts(m_))[lay] for m_ in povm_ms]
            pref = np.array([[np.trace(b.conj().T @ m_) for b in cfg.B] for m_ in povm_ms])
            need(dev(np.array(call("C02/to_vecs_from_matrices_with_sparsity", lambda: P.to_vecs_from_matrices_with_sparsity(c, ml))), pref),
                 f"C02/povm.to_vecs_from_matrices_with_sparsity/layout({lay})", f"{lay} matrices: vecs != tr(B_a^† M_x)")
            need(dev(call("C02/to_var_from_matrices", lambda: P.to_var_from_matrices(c, ml, on_para_eq_constraint=False)), pref.flatten()),
                 f"C02/povm.to_var_from_matrices/layout({lay})", f"{lay} matrices: var != stacked tr(B_a^† M_x)")
        del refs

    sections(*([lambda j=j: one(*j) for j in jobs] + [lists]))


def chk_reject(cfg, seed):
    """non-Hermitian input of a matrix -> REAL coefficient conversion: no real vector denotes that operator, so the conversion must
    raise (truncate_hs's ValueError) — or, if it returns, the returned coefficients must still denote the input operator.
    Inputs have sign-structured imaginary coefficient parts (all negative / all positive / mixed / a single negative one).
    (`to_hs_from_choi`, the plain variant, documents `.real` and is not part of this check.)"""
    c, d, n = cfg.c, cfg.d, cfg.n
    g = np.random.default_rng(seed)
    pats = {"all-negative": lambda k: -(0.2 + g.random(k)), "all-positive": lambda k: 0.2 + g.random(k),
            "mixed": lambda k: (0.2 + g.random(k)) * np.where(np.arange(k) % 2 == 0, 1.0, -1.0),
            "single-negative": lambda k: -0.7 * (np.arange(k) == k - 1)}
    B = cfg.B

    def probe(nm, pat, fn, X, rebuild):
        try:
            with np.errstate(all="ignore"):
                r = fn(X)
        except ValueError as e:
            if "imaginary" in str(e):
                return
            raise Fail(f"C02/{nm}/nonhermitian/raises-ValueError", str(e)[:100])
        except Exception as e:  # noqa
            raise Fail(f"C02/{nm}/nonhermitian/raises-{type(e).__name__}", str(e)[:100])
        back = rebuild(r)
        if np.shape(back) != np.shape(X) or dev(back, X) > 1e-8:
            raise Fail(f"C02/{nm}/nonhermitian-accepted({pat})",
                       f"non-Hermitian input with {pat} imaginary coefficient parts is not rejected; the returned real coefficients denote "
                       f"another operator (deviation {dev(back, X) if np.shape(back) == np.shape(X) else float('inf'):.3g}, dtype {np.asarray(r).dtype})")

    jobs = []
    for pat, gen in pats.items():
        coef = g.standard_normal(n) + 1j * gen(n)
        X = sum(z * b for z, b in zip(coef, B))
        mat_of = lambda r: sum(z * b for z, b in zip(np.asarray(r).flatten(), B))
        jobs.append(("state.to_vec_from_density_matrix_with_sparsity", pat, lambda x: S.to_vec_from_density_matrix_with_sparsity(c, x), X, mat_of))
        jobs.append(("povm.to_vec_from_matrix_with_sparsity", pat, lambda x: P.to_vec_from_matrix_with_sparsity(c, x), X, mat_of))
        jobs.append(("state.to_var_from_density_matrix", pat, lambda x: S.to_var_from_density_matrix(c, x, on_para_eq_constraint=False), X, mat_of))
        jobs.append(("povm.to_vecs_from_matrices_with_sparsity", pat, lambda x: P.to_vecs_from_matrices_with_sparsity(c, [x])[0], X, mat_of))
        jobs.append(("povm.to_var_from_matrices", pat, lambda x: P.to_var_from_matrices(c, [x], on_para_eq_constraint=False), X, mat_of))
        h = g.standard_normal((n, n)) + 1j * gen(n * n).reshape(n, n)
        C = choi_ref(cfg, h)
        choi_of = lambda r: choi_ref(cfg, np.asarray(r).reshape(n, n))
        jobs.append(("gate.to_hs_from_choi[dict]", pat, lambda x: G.to_hs_from_choi_with_dict(c, x), C, choi_of))
        jobs.append(("gate.to_hs_from_choi[sparse]", pat, lambda x: G.to_hs_from_choi_with_sparsity(c, x), C, choi_of))
        jobs.append(("gate.to_var_from_choi", pat, lambda x: G.to_var_from_choi(c, x, on_para_eq_constraint=False), C, choi_of))
    # matrix units E_ij (i != j) and H - i c 1
    e10 = np.zeros((d, d), dtype=np.complex128); e10[d - 1, 0] = 1
    for lab, X in (("unit-E_{d-1,0}", e10), ("unit-E_{0,d-1}", e10.T.copy()), ("H-i1", rand_herm(g, d) - 0.5j * np.eye(d))):
        mat_of = lambda r: sum(z * b for z, b in zip(np.asarray(r).flatten(), B))
        jobs.append(("state.to_vec_from_density_matrix_with_sparsity", lab, lambda x: S.to_vec_from_density_matrix_with_sparsity(c, x), X, mat_of))
        jobs.append(("povm.to_vec_from_matrix_with_sparsity", lab, lambda x: P.to_vec_from_matrix_with_sparsity(c, x), X, mat_of))

    def direct():
        from quara.utils import matrix_util as _mu
        eps = Settings.get_atol()
        for pat, gen in pats.items():
            z = g.standard_normal(6) + 1j * gen(6)
            try:
                r = _mu.truncate_hs(z)
            except ValueError:
                continue
            raise Fail(f"C02/matrix_util.truncate_hs/nonreal-accepted({pat})", f"truncate_hs returns {np.asarray(r)[:3]}… for entries with |imag| >= 0.2 (threshold {eps})")
        z = g.standard_normal(6) + 1j * (eps / 100) * np.array([1, -1, 1, -1, 0, 0])
        r = call("C02/matrix_util.truncate_hs", lambda: _mu.truncate_hs(z))
        need(dev(r, z.real), "C02/matrix_util.truncate_hs/real-part", "imaginary parts below the threshold: result != real part")

    sections(*([lambda j=j: probe(*j) for j in jobs] + [direct]))


def chk_sequence(cfg, seed):
    """method-level sequences on ONE object: every representation getter, again after the caller has overwritten the returned
    arrays in place, again after set_zero(): all alternative implementations keep agreeing with the object's current coefficients"""
    c, d, n = cfg.c, cfg.d, cfg.n
    g = np.random.default_rng(seed)

    def scribble(x):
        for a in (x if isinstance(x, (list, tuple)) else [x]):
            if isinstance(a, np.ndarray) and a.flags.writeable:
                a[...] = 7.25

    def gate_round(gate, stage):
        ref = choi_ref(cfg, gate.hs)
        outs = []
        for nm, fn in (("to_choi_matrix", gate.to_choi_matrix), ("to_choi_matrix_with_dict", gate.to_choi_matrix_with_dict),
                       ("to_choi_matrix_with_sparsity", gate.to_choi_matrix_with_sparsity), ("to_process_matrix", gate.to_process_matrix)):
            r = call(f"C02/Gate.{nm}", fn)
            need(dev(r, ref), f"C02/Gate.{nm}/sequence({stage})", f"{nm}() does not match the gate's current HS matrix {stage}")
            outs.append(r)
        cb = call("C02/Gate.convert_to_comp_basis", gate.convert_to_comp_basis)
        need(dev(cb, G.convert_hs(gate.hs, c.basis(), c.comp_basis())), f"C02/Gate.convert_to_comp_basis/sequence({stage})", "stale")
        outs.append(cb)
        return outs

    def gate_seq():
        ks = qobj.rand_kraus(g, d, 1, 2)[0]
        gate = Gate(c, hs_of_kraus_ref(cfg, ks).real.copy(), is_physicality_required=False)
        outs = gate_round(gate, "first call")
        if c.is_orthonormal_hermitian_0thprop_identity:
            call("C02/Gate.calc_proj_ineq_constraint", gate.calc_proj_ineq_constraint)
        call("C02/Gate.to_kraus_matrices", gate.to_kraus_matrices)
        scribble(outs)
        gate_round(gate, "after the caller overwrote the returned arrays")

    def gate_zero_seq():
        ks = qobj.rand_kraus(g, d, 1, 2)[0]
        gate = Gate(c, hs_of_kraus_ref(cfg, ks).real.copy(), is_physicality_required=False)
        call("C02/Gate.to_choi_matrix_with_sparsity", gate.to_choi_matrix_with_sparsity)
        if c.is_orthonormal_hermitian_0thprop_identity:
            call("C02/Gate.calc_proj_ineq_constraint", gate.calc_proj_ineq_constraint)
        gate.set_zero()
        gate_round(gate, "after set_zero()")

    def mp_round(mp, stage):
        outs = []
        for i, hs in enumerate(mp.hss):
            ref = choi_ref(cfg, hs)
            for nm, fn in (("to_choi_matrix", mp.to_choi_matrix), ("to_choi_matrix_with_dict", mp.to_choi_matrix_with_dict),
                           ("to_choi_matrix_with_sparsity", mp.to_choi_matrix_with_sparsity), ("to_process_matrix", mp.to_process_matrix)):
                r = call(f"C02/MProcess.{nm}", lambda: fn(i))
                need(dev(r, ref), f"C02/MProcess.{nm}/sequence({stage})", f"outcome {i}: {nm}() does not match the current HS matrix {stage}")
                outs.append(r)
        outs += list(call("C02/MProcess.convert_to_comp_basis", mp.convert_to_comp_basis))
        return outs

    def mp_seq():
        if not c.is_orthonormal_hermitian_0thprop_identity:
            return
        groups = qobj.rand_kraus(g, d, 2, 1)
        mp = MProcess(c, [hs_of_kraus_ref(cfg, ks).real.copy() for ks in groups], is_physicality_required=False)
        outs = mp_round(mp, "first call")
        scribble(outs)
        mp_round(mp, "after the caller overwrote the returned arrays")
        mp.set_zero()
        mp_round(mp, "after set_zero()")

    def state_povm_seq():
        st = State(c, g.standard_normal(n), is_physicality_required=False)
        pv = Povm(c, [g.standard_normal(n) for _ in range(3)], is_physicality_required=False)
        for stage in ("first call", "after the caller overwrote the returned arrays", "after set_zero()"):
            ref = sum(x * b for x, b in zip(st.vec, cfg.B))
            a, b2 = call("C02/State.to_density_matrix", st.to_density_matrix), call("C02/State.to_density_matrix_with_sparsity", st.to_density_matrix_with_sparsity)
            need(dev(a, ref), f"C02/State.to_density_matrix/sequence({stage})", "stale")
            need(dev(b2, ref), f"C02/State.to_density_matrix_with_sparsity/sequence({stage})", "stale")
            refs = [sum(x * b for x, b in zip(v, cfg.B)) for v in pv.vecs]
            ms, mss = call("C02/Povm.matrices", pv.matrices), call("C02/Povm.matrices_with_sparsity", pv.matrices_with_sparsity)
            for i in range(3):
                need(dev(ms[i], refs[i]), f"C02/Povm.matrices/sequence({stage})", "stale")
                need(dev(mss[i], refs[i]), f"C02/Povm.matrices_with_sparsity/sequence({stage})", "stale")
                need(dev(call("C02/Povm.matrix_with_sparsity", lambda: pv.matrix_with_sparsity(i)), refs[i]), f"C02/Povm.matrix_with_sparsity/sequence({stage})", "stale")
            scribble([a, b2] + list(ms) + list(mss))
            if stage.startswith("after the caller"):
                st.set_zero(); pv.set_zero()

    sections(gate_seq, gate_zero_seq, mp_seq, state_povm_seq)


def chk_catalogue(cfg, name):
    """duplicate implementations of Kraus -> HS: the catalogue's `generate_mprocess_hss_from_name` / `generate_mprocess_from_name` against
    the catalogue's own Kraus operators (channel action, and gate.to_hs_from_kraus_matrices), and the Kraus operators recovered from the object"""
    from quara.objects import mprocess_typical as MT
    c, d = cfg.c, cfg.d
    kset = call("C02/mprocess_typical.generate_mprocess_set_kraus_matrices_from_name", lambda: MT.generate_mprocess_set_kraus_matrices_from_name(name))
    hss = call("C02/mprocess_typical.generate_mprocess_hss_from_name", lambda: MT.generate_mprocess_hss_from_name(name, c))
    mp = call("C02/mprocess_typical.generate_mprocess_from_name", lambda: MT.generate_mprocess_from_name(c, name))
    if not (len(kset) == len(hss) == len(mp.hss)):
        raise Fail("C02/mprocess_typical/count", f"{name}: {len(kset)} Kraus sets, {len(hss)} HS matrices, {len(mp.hss)} in the object")

    def one_outcome(i):
        ks = [np.asarray(k, dtype=np.complex128) for k in kset[i]]
        ref = hs_of_kraus_ref(cfg, ks)
        need(dev(hss[i], ref), "C02/mprocess_typical.generate_mprocess_hss_from_name/kraus-formula", f"{name}[{i}]: HS != tr(B_a^† Σ K B_b K^†) of its own Kraus operators")
        need(dev(mp.hss[i], ref), "C02/mprocess_typical.generate_mprocess_from_name/kraus-formula", f"{name}[{i}]: object's HS != tr(B_a^† Σ K B_b K^†)")
        need(dev(call("C02/gate.to_hs_from_kraus_matrices", lambda: G.to_hs_from_kraus_matrices(c, ks)), hss[i]),
             "C02/mprocess_typical.generate_mprocess_hss_from_name/vs-to_hs_from_kraus_matrices", f"{name}[{i}]: two implementations of Kraus -> HS disagree")
        out = call("C02/MProcess.to_kraus_matrices", lambda: mp.to_kraus_matrices(i))
        inv_in = sum(np.kron(k, k.conj()) for k in ks)
        inv_out = sum((np.kron(k, k.conj()) for k in out), np.zeros_like(inv_in))
        if dev(inv_out, inv_in) > 1e-8:
            raise Fail("C02/mprocess_typical/object-kraus-vs-catalogue-kraus", f"{name}[{i}]: Σ K⊗conj(K) of to_kraus_matrices differs from the catalogue's Kraus operators by {dev(inv_out, inv_in):.3g}")

    sections(*[lambda i=i: one_outcome(i) for i in range(len(kset))])


def chk_unitary_hs(cfg, seed):
    """gate_typical's unitary -> HS helpers (another Kraus -> HS implementation) on complex unitaries, every stored basis"""
    from quara.objects import gate_typical as GT
    g = np.random.default_rng(seed)
    c, d = cfg.c, cfg.d
    us = [qobj.rand_unitary(g, d)] + ([_S @ _RY, _H @ _S] if d == 2 else [])
    for u in us:
        ref = hs_of_kraus_ref(cfg, [u])
        need(dev(call("C02/gate_typical.calc_gate_mat_from_unitary_mat", lambda: GT.calc_gate_mat_from_unitary_mat(u, c.basis())), ref),
             "C02/gate_typical.calc_gate_mat_from_unitary_mat/formula", "HS != tr(B_a^† U B_b U^†)")
        need(dev(call("C02/gate_typical.calc_gate_mat_from_unitary_mat_with_hermitian_basis", lambda: GT.calc_gate_mat_from_unitary_mat_with_hermitian_basis(u, c.basis())), ref),
             "C02/gate_typical.calc_gate_mat_from_unitary_mat_with_hermitian_basis/formula", "HS != tr(B_a^† U B_b U^†)")
        for oname, ob in other_bases(cfg)[:4]:
            obd = dense_basis(ob)
            refo = np.array([[np.trace(ba.conj().T @ u @ bb @ u.conj().T) for bb in obd] for ba in obd])
            need(dev(call("C02/gate_typical.calc_gate_mat_from_unitary_mat", lambda: GT.calc_gate_mat_from_unitary_mat(u, ob)), refo),
                 f"C02/gate_typical.calc_gate_mat_from_unitary_mat/formula(basis={oname.split('/')[0]})", "HS != tr(B_a^† U B_b U^†)")


def chk_dtypes(cfg, seed):
    """input dtypes: lists whose elements have DIFFERENT dtypes (real float64 / int64 operators next to complex ones, in every
    order), integer-valued arrays of integer dtype; every conversion must give what it gives for the complex128 / float64 copy of
    the same values, and the defining formula"""
    c, d, n = cfg.c, cfg.d, cfg.n
    g = np.random.default_rng(seed)
    o, _ = np.linalg.qr(g.standard_normal((d, d)))                      # real orthogonal, dtype float64
    perm = np.eye(d, dtype=np.int64)[list(g.permutation(d))]            # permutation matrix, dtype int64
    u1, u2 = qobj.rand_unitary(g, d), qobj.rand_unitary(g, d)           # complex128
    lists = {"real-first": [np.sqrt(0.5) * o, np.sqrt(0.3) * u1, np.sqrt(0.2) * u2],
             "real-last": [np.sqrt(0.3) * u1, np.sqrt(0.2) * u2, np.sqrt(0.5) * o],
             "int-first": [perm, 0.5 * u1],
             "int-last": [0.5 * u1, perm],
             "all-real": [np.sqrt(0.5) * o, np.sqrt(0.5) * perm.astype(np.float64)],
             "all-int": [perm, np.eye(d, dtype=np.int64)]}

    def kraus(lab, ks):
        ref = hs_of_kraus_ref(cfg, [np.asarray(k, dtype=np.complex128) for k in ks])
        r = call("C02/gate.to_hs_from_kraus_matrices", lambda: G.to_hs_from_kraus_matrices(c, ks))
        need(dev(r, ref), f"C02/gate.to_hs_from_kraus_matrices/dtypes({lab})",
             f"Kraus list with dtypes {[str(np.asarray(k).dtype) for k in ks]}: result != tr(B_a^† Σ K B_b K^†)")
        r2 = call("C02/gate.to_hs_from_kraus_matrices", lambda: G.to_hs_from_kraus_matrices(c, [np.asarray(k, dtype=np.complex128) for k in ks]))
        need(dev(r, r2), f"C02/gate.to_hs_from_kraus_matrices/dtypes({lab})/vs-complex-copy", "result depends on the dtypes of the list elements")

    def others():
        a, b = int(g.integers(0, n)), int(g.integers(0, n))
        hs_i = np.zeros((n, n), dtype=np.int64); hs_i[a, b] = 1; hs_i[b, a] += 2
        hs_f = hs_i.astype(np.float64)
        for nm, fn in CHOI_FWD:
            need(dev(call(f"C02/gate.to_choi_from_hs[{nm}]", lambda: fn(c, hs_i)), choi_ref(cfg, hs_f)), f"C02/gate.to_choi_from_hs[{nm}]/dtype(int64)", "integer HS matrix")
        need(dev(call("C02/gate.to_process_matrix_from_hs", lambda: G.to_process_matrix_from_hs(c, hs_i)), choi_ref(cfg, hs_f)),
             "C02/gate.to_process_matrix_from_hs/dtype(int64)", "integer HS matrix")
        need(dev(call("C02/convert_hs", lambda: G.convert_hs(hs_i, c.basis(), c.comp_basis())), G.convert_hs(hs_f, c.basis(), c.comp_basis())),
             "C02/convert_hs/dtype(int64)", "integer HS matrix")
        v_i = np.zeros(n, dtype=np.int64); v_i[a] = 3; v_i[b] -= 1
        ref = sum(float(x) * m for x, m in zip(v_i, cfg.B))
        need(dev(call("C02/to_density_matrix_from_vec", lambda: S.to_density_matrix_from_vec(c, v_i)), ref), "C02/state.to_density_matrix_from_vec/dtype(int64)", "integer vec")
        need(dev(call("C02/convert_vec", lambda: mb.convert_vec(v_i, c.basis(), c.comp_basis())), mb.convert_vec(v_i.astype(np.float64), c.basis(), c.comp_basis())),
             "C02/convert_vec/dtype(int64)", "integer vec")
        e = np.zeros((d, d), dtype=np.int64); e[0, 0] = 1; e[d - 1, d - 1] = 2
        vref = np.array([np.trace(m.conj().T @ e) for m in cfg.B])
        need(dev(call("C02/to_vec_from_density_matrix_with_sparsity", lambda: S.to_vec_from_density_matrix_with_sparsity(c, e)), vref),
             "C02/state.to_vec_from_density_matrix_with_sparsity/dtype(int64)", "integer matrix")
        rr = rand_herm(g, d)
        mixed = [e, rr]                                               # list of matrices with different dtypes
        pref = np.array([[np.trace(m.conj().T @ x) for m in cfg.B] for x in mixed])
        need(dev(np.array(call("C02/to_vecs_from_matrices_with_sparsity", lambda: P.to_vecs_from_matrices_with_sparsity(c, mixed))), pref),
             "C02/povm.to_vecs_from_matrices_with_sparsity/dtypes(int-first)", "mixed-dtype matrix list")
        need(dev(call("C02/to_var_from_matrices", lambda: P.to_var_from_matrices(c, mixed, on_para_eq_constraint=False)), pref.flatten()),
             "C02/povm.to_var_from_matrices/dtypes(int-first)", "mixed-dtype matrix list")
        ch_f = choi_ref(cfg, hs_f)
        for nm, fn in CHOI_INV:
            need(dev(call(f"C02/gate.to_hs_from_choi[{nm}]", lambda: fn(c, ch_f.real.copy() if np.max(np.abs(ch_f.imag)) == 0 else ch_f)), hs_f),
                 f"C02/gate.to_hs_from_choi[{nm}]/dtype(real-if-real)", "Choi matrix passed with its natural dtype")

    sections(*([lambda lab=lab, ks=ks: kraus(lab, ks) for lab, ks in lists.items()] + [others]))


CHECKS = {"catalogue": chk_catalogue, "unitary_hs": chk_unitary_hs, "dtypes": chk_dtypes, "compform": chk_compform, "layout": chk_layout, "reject": chk_reject, "sequence": chk_sequence, "state": chk_state, "density": chk_density, "povm": chk_povm, "gate": chk_gate, "choi": chk_choi, "kraus": chk_kraus,
          "notcp": chk_not_cp, "linear": chk_linear, "mprocess": chk_mprocess}


def run_check(ctx, kind, cfg, args, rep, **kw):
    ctx.count(f"oracle {kind}")
    try:
        CHECKS[kind](cfg, *args, **kw)
        return True
    except Fail as f:
        ctx.violate(f.sig, f"[{cfg.name}] {f.what}", rep)
        return False
    except FailList as fl:
        for f in fl.fails:
            ctx.violate(f.sig, f"[{cfg.name}] {f.what}", rep)
        return False


PARTIAL = [
    {"theorem": "QM.C02.kraus_full_roundtrip_exact_kernel / kraus_roundtrip_exact_kernel / kraus_channel_preserved_exact_kernel / "
                "hs_kraus_hs_executed_exact_kernel",
     "missing": "HS -> Kraus -> HS is proved for the complete executable to_kraus_matrices_from_hs only under EXACT eigh / sqrt / abs "
                "(EighContract, AbsContract): no floating-point kernel output satisfies these, so for the float run the clause rests on "
                "the correspondence (operators elementwise + gauge invariant) and on kraus_roundtrip_residual (deviation = Choi residual, "
                "contract-free); a bound of the residual by the kernels' float errors is not proved"},
    {"theorem": "QM.C02.*_executed (hs_choi_hs_executed, toVarFromChoi_executed, vec_density_vec_executed, toVarFromMatrices_executed, hsOfKraus_executed)",
     "missing": "executed round trips hold for entries 0 or >= eps in modulus only (hs_choi_hs_executed_needs_threshold is the "
                "counter-instance below the threshold); float rounding is not modelled"},
    {"theorem": "QM.C02.toVarFromChoi_roundtrip",
     "missing": "Raw form (any star-ring); the executed form is toVarFromChoi_executed; forward_is_not_inverse is the regression "
                "witness of the former defect D3; the call site is tied to the source by gen_callees"},
    {"theorem": "QM.C02.hs_choi_hs / vec_density_vec",
     "missing": "stated for the values before truncate_hs; truncEntry_spec / truncEntry_real give the exact effect of the truncation "
                "(identity on real entries of modulus >= eps); float rounding is not modelled"},
]


def oracle(ctx, volume=1):
    names = QUICK_CFGS if ctx.quick else THOROUGH_CFGS
    if not ctx.partial:
        ctx.partial += PARTIAL
        ctx.notes.append("MProcess/Povm/State/Gate method wrappers are covered by correspondence + oracle, not by theorems; "
                         "Kraus conversions are compared through the gauge invariant Σ K⊗conj(K)")
    for name in names:
        cfg = cfg_of(name)
        g = ctx.npgen(f"oracle-{name}-{volume}")
        c, d, n = cfg.c, cfg.d, cfg.n
        nr = (3 if ctx.quick else 8) * volume
        # states: complete basis of the coefficient space + physical (every rank) + non-physical + complex
        vs = [unit(n, k) for k in range(n)] + [qobj.vec_of(c, qobj.rand_density(g, d, r)) for r in range(1, d + 1)]
        vs += [g.standard_normal(n) for _ in range(nr)] + [rand_c(g, n) for _ in range(nr)]
        for v in vs:
            ctx.case(("o-state", name, tuple(np.asarray(v).tolist())))
            run_check(ctx, "state", cfg, (v,), {"check": "state", "cfg": name, "v": enc(v)})
        ms = herm_basis(d) + [qobj.rand_density(g, d, r) for r in range(1, d + 1)] + [rand_herm(g, d) for _ in range(nr)]
        ms += [1e-8 * rand_herm(g, d), 1e-10 * rand_herm(g, d)]
        for m in ms:
            ctx.case(("o-density", name, tuple(m.flatten().tolist())))
            run_check(ctx, "density", cfg, (m,), {"check": "density", "cfg": name, "m": enc(m)})
        for m in (2, 3, 5):
            sets = [[qobj.vec_of(c, e) for e in qobj.rand_povm_mats(g, d, m)], [g.standard_normal(n) for _ in range(m)]]
            if m == 2:
                sets.append([unit(n, 0), unit(n, n - 1)])
            for pv in sets:
                ctx.case(("o-povm", name, m, tuple(pv[0].tolist())))
                run_check(ctx, "povm", cfg, (pv,), {"check": "povm", "cfg": name, "vecs": enc(np.array(pv))})
        # gates: complete basis of the HS space (sampled for d = 6), physical of every Kraus rank, non-physical, complex
        units = [(a, b) for a in range(n) for b in range(n)]
        if n > 16:
            units = [units[i] for i in sorted(ctx.rng.sample(range(len(units)), 40 if d < 6 else 12))]
        for a, b in units:
            hs = np.zeros((n, n)); hs[a, b] = 1.0
            ctx.case(("o-gate-unit", name, a, b))
            run_check(ctx, "gate", cfg, (hs,), {"check": "gate", "cfg": name, "hs": enc(hs)}, heavy=d <= 3)
        sets = kraus_sets(g, d)
        if d >= 4:
            sets = sets[:2] + [sets[len(sets) // 2], sets[-1]]
        for ks in sets:
            hs = hs_of_kraus_ref(cfg, ks).real.copy()
            ctx.case(("o-gate-phys", name, len(ks), hs[1, 1]))
            run_check(ctx, "gate", cfg, (hs, ks), {"check": "gate", "cfg": name, "hs": enc(hs), "kraus": enc(np.array(ks))}, heavy=d <= 4)
            run_check(ctx, "kraus", cfg, (ks,), {"check": "kraus", "cfg": name, "kraus": enc(np.array(ks))})
        for _ in range(nr if d < 6 else 1):
            hs = g.standard_normal((n, n))
            ctx.case(("o-gate-nonphys", name, hs[0, 0]))
            run_check(ctx, "gate", cfg, (hs,), {"check": "gate", "cfg": name, "hs": enc(hs)}, heavy=d <= 3)
            hsc = rand_c(g, (n, n))
            run_check(ctx, "gate", cfg, (hsc,), {"check": "gate", "cfg": name, "hs": enc(hsc)}, heavy=False)
            run_check(ctx, "notcp", cfg, (hs,), {"check": "notcp", "cfg": name, "hs": enc(hs)})
        chs = (herm_basis(d * d) if d <= 3 else herm_basis(d * d)[::(17 if d == 4 else 131)])
        chs = chs + [rand_psd(g, d * d, r) for r in (1, 2, d * d)] + [rand_herm(g, d * d) for _ in range(nr if d < 6 else 1)]
        chs += [1e-8 * rand_herm(g, d * d), 1e-10 * rand_herm(g, d * d)]
        for ch in chs:
            ctx.case(("o-choi", name, tuple(ch.flatten()[:6].tolist()), float(np.abs(ch).sum())))
            run_check(ctx, "choi", cfg, (ch,), {"check": "choi", "cfg": name, "choi": enc(ch)})
        for oname, ob in other_bases(cfg):
            for _ in range(2):
                hs, v = g.standard_normal((n, n)), g.standard_normal(n)
                ctx.case(("o-convert", name, oname, hs[0, 0]))
                try:
                    chk_convert(cfg, ob, hs, v)
                except Fail as f:
                    ctx.violate(f.sig, f"[{name}->{oname}] {f.what}", {"check": "convert", "cfg": name, "other": oname, "hs": enc(hs), "v": enc(v)})
        for k in range(nr):
            seed = int(g.integers(0, 2 ** 31))
            ctx.case(("o-linear", name, seed))
            run_check(ctx, "linear", cfg, (seed,), {"check": "linear", "cfg": name, "seed": seed})
        for m in ((2, 3) if c.is_orthonormal_hermitian_0thprop_identity else ()):
            groups = qobj.rand_kraus(g, d, m, 1 + m % 2)
            hss = [hs_of_kraus_ref(cfg, ks).real.copy() for ks in groups]
            ctx.case(("o-mprocess", name, m, hss[0][1, 1]))
            run_check(ctx, "mprocess", cfg, (hss,), {"check": "mprocess", "cfg": name, "hss": enc(np.array(hss))})


    multi = QUICK_MULTI if ctx.quick else [nm for nm in THOROUGH_CFGS + ["qutritxqubit"] if len(cfg_of(nm).c._elemental_systems) > 1]
    for name in multi:
        cfg = cfg_of(name)
        g = ctx.npgen(f"oracle-multi-{name}-{volume}")
        for lab, hss in multi_inputs(g, cfg):
            ctx.case(("o-compform", name, lab, float(hss[0][1, 1])), sample={"op": "compform", "cfg": name, "case": lab})
            run_check(ctx, "compform", cfg, (hss,), {"check": "compform", "cfg": name, "case": lab, "hss": enc(np.array(hss))})


    # tensor-product POVMs with pairwise different local outcome counts, tuple-index access on every multi-index
    g = ctx.npgen(f"oracle-povm-tensor-{volume}")
    combos = [((2, 3), (0, 1)), ((3, 2), (0, 1)), ((2, 3), (1, 0)), ((2, 3, 4), (0, 1, 2)), ((4, 2, 3), (2, 0, 1))]
    if not ctx.quick:
        combos += [((3, 4), (0, 1)), ((2, 3, 4), (1, 2, 0)), ((3, 2, 2), (0, 1, 2))]
    for counts, nms in combos:
        factors = rand_factors(g, counts)
        ctx.case(("o-povm-tensor", counts, nms, float(factors[0][0][1])), sample={"op": "povm-tensor", "counts": counts, "names": nms})
        ctx.count("oracle povm-tensor")
        rep = {"check": "povm_tensor", "cfg": "-", "names": list(nms), "factors": [enc(np.array(f)) for f in factors]}
        try:
            chk_povm_tensor(factors, nms)
        except Fail as f:
            ctx.violate(f.sig, f"[tensor povm {counts} on {nms}] {f.what}", rep)
        except FailList as fl:
            for f in fl.fails:
                ctx.violate(f.sig, f"[tensor povm {counts} on {nms}] {f.what}", rep)
    # memory layouts of matrix arguments
    for name in (QUICK_CFGS if ctx.quick else THOROUGH_CFGS[:6]):
        cfg = cfg_of(name)
        g = ctx.npgen(f"oracle-layout-{name}-{volume}")
        for _ in range((1 if ctx.quick else 2) * volume):
            seed = int(g.integers(0, 2 ** 31))
            ctx.case(("o-layout", name, seed))
            run_check(ctx, "layout", cfg, (seed,), {"check": "layout", "cfg": name, "seed": seed})
            ctx.case(("o-reject", name, seed))
            run_check(ctx, "reject", cfg, (seed,), {"check": "reject", "cfg": name, "seed": seed})
            ctx.case(("o-sequence", name, seed))
            run_check(ctx, "sequence", cfg, (seed,), {"check": "sequence", "cfg": name, "seed": seed})
            ctx.case(("o-dtypes", name, seed))
            run_check(ctx, "dtypes", cfg, (seed,), {"check": "dtypes", "cfg": name, "seed": seed})
            ctx.case(("o-unitary-hs", name, seed))
            run_check(ctx, "unitary_hs", cfg, (seed,), {"check": "unitary_hs", "cfg": name, "seed": seed})
    # catalogue m-processes (every name; the configuration is chosen by the dimension of its Kraus operators)
    from quara.objects import mprocess_typical as MT
    for mname in MT.get_mprocess_names_type1() + MT.get_mprocess_names_type2():
        dd = MT.generate_mprocess_set_kraus_matrices_from_name(mname)[0][0].shape[0]
        cname = {2: "qubit/pauli", 3: "qutrit/gellmann", 4: "2qubit/pauli"}.get(dd)
        if cname is None:
            continue
        ctx.case(("o-catalogue", mname))
        run_check(ctx, "catalogue", cfg_of(cname), (mname,), {"check": "catalogue", "cfg": cname, "name": mname})


def search(ctx):
    oracle(ctx, volume=3)


def replay(ctx, data):
    r = data["replay"]
    print("replaying", {k: (v if not isinstance(v, dict) else "<array>") for k, v in r.items()})
    kind = r["check"]
    cfg = cfg_of(r["cfg"]) if kind != "povm_tensor" else None
    try:
        if kind == "povm_tensor":
            chk_povm_tensor([list(dec(f).real) for f in r["factors"]], tuple(r["names"]))
            print("property holds on this input now")
            return 0
        if kind == "catalogue":
            chk_catalogue(cfg, r["name"])
            print("property holds on this input now")
            return 0
        if kind in ("layout", "reject", "sequence", "dtypes", "unitary_hs"):
            CHECKS[kind](cfg, r["seed"])
            print("property holds on this input now")
            return 0
        if kind == "state":
            v = dec(r["v"]); chk_state(cfg, real_if(v))
        elif kind == "density":
            chk_density(cfg, dec(r["m"]))
        elif kind == "povm":
            chk_povm(cfg, list(dec(r["vecs"]).real))
        elif kind == "gate":
            chk_gate(cfg, real_if(dec(r["hs"])), list(dec(r["kraus"])) if "kraus" in r else None)
        elif kind == "choi":
            chk_choi(cfg, dec(r["choi"]))
        elif kind == "kraus":
            chk_kraus(cfg, list(dec(r["kraus"])))
        elif kind == "notcp":
            chk_not_cp(cfg, dec(r["hs"]).real)
        elif kind == "linear":
            chk_linear(cfg, r["seed"])
        elif kind == "mprocess":
            chk_mprocess(cfg, list(dec(r["hss"]).real))
        elif kind == "compform":
            chk_compform(cfg, list(dec(r["hss"]).real))
        elif kind == "convert":
            chk_convert(cfg, dict(other_bases(cfg))[r["other"]], dec(r["hs"]).real, dec(r["v"]).real)
        else:
            print("unknown replay kind"); return 2
    except Fail as f:
        print("STILL FAILS:", f.sig, "-", f.what)
        return 1
    except FailList as fl:
        for f in fl.fails:
            print("STILL FAILS:", f.sig, "-", f.what)
        return 1
    print("property holds on this input now")
    return 0
