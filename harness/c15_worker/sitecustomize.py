"""Loaded automatically by the joblib/loky worker interpreters that the C15 harness starts (the directory is put on
PYTHONPATH by harness/c15.py): installs the same scipy.linalg.kron import shim as harness/shim.py, so that quara's
object modules import inside the workers.  Harness-side only; nothing in /repo reads it."""
import os
import sys
import warnings

try:
    import numpy as _np
    import scipy.linalg as _sl
    if not hasattr(_sl, "kron"):
        _sl.kron = _np.kron
    warnings.filterwarnings("ignore")
    _repo = os.environ.get("QUARA_REPO", "/repo")
    if _repo not in sys.path:
        sys.path.insert(0, _repo)
except Exception:  # noqa  never break interpreter start-up
    pass
