"""pymat2lean — translator fragments for the tomography code (C08, C09): numpy matrix / vector expressions and the small
integer expressions of the `_set_coeffs` loops are read from the source with `ast` and written as Lean definitions over
`QM.Mat / QM.Vec / Nat`.  Anything outside the supported subset raises `Untranslatable` (the run then reports a broken
obligation).  Supported:
  * matrix expressions: names bound in `env`, `X.T`, `X @ Y` (matrix·matrix or matrix·vector, decided by the types and
    checked for matching dimensions), `X - Y`, `X + Y` on vectors, `np.linalg.inv(X)` on a square matrix (becomes the
    parameter `inv`);
  * natural-number expressions: literals, names bound in `env`, `+ - *`, `**` with a literal exponent, `min(a, b)`,
    `int(e)`.
"""
import ast
import os


class Untranslatable(Exception):
    pass


def fail(where, node, msg):
    raise Untranslatable(f"{where}:{getattr(node, 'lineno', '?')}: {msg}: `{ast.unparse(node) if isinstance(node, ast.AST) else node}`")


def load(path):
    return ast.parse(open(path).read())


def find_class(tree, name, where):
    for n in tree.body:
        if isinstance(n, ast.ClassDef) and n.name == name:
            return n
    fail(where, name, "class not found")


def find_func(scope, name, where):
    body = scope.body
    for n in body:
        if isinstance(n, ast.FunctionDef) and n.name == name:
            return n
    fail(where, name, "function not found")


def strip_doc(body):
    if body and isinstance(body[0], ast.Expr) and isinstance(getattr(body[0], "value", None), ast.Constant) \
            and isinstance(body[0].value.value, str):
        return body[1:]
    return body


# ----------------------------------------------------------------------------- matrix expressions
def mat_expr(e, env, where):
    """returns (lean text, type); type = ('mat', rows, cols) | ('vec', len) with symbolic dimensions"""
    if isinstance(e, ast.Name):
        if e.id not in env:
            fail(where, e, "unbound name in a matrix expression")
        return env[e.id]
    if isinstance(e, ast.Attribute) and e.attr == "T":
        t, ty = mat_expr(e.value, env, where)
        if ty[0] != "mat":
            fail(where, e, ".T of a non-matrix")
        return f"(QM.Mat.transpose {t})", ("mat", ty[2], ty[1])
    if isinstance(e, ast.BinOp) and isinstance(e.op, ast.MatMult):
        l, tl = mat_expr(e.left, env, where)
        r, tr = mat_expr(e.right, env, where)
        if tl[0] != "mat":
            fail(where, e, "left operand of @ is not a matrix")
        if tr[0] == "mat":
            if tl[2] != tr[1]:
                fail(where, e, f"dimension mismatch {tl} @ {tr}")
            return f"(QM.Mat.mul {l} {r})", ("mat", tl[1], tr[2])
        if tl[2] != tr[1]:
            fail(where, e, f"dimension mismatch {tl} @ {tr}")
        return f"(QM.Mat.mulVec {l} {r})", ("vec", tl[1])
    if isinstance(e, ast.BinOp) and isinstance(e.op, (ast.Sub, ast.Add)):
        l, tl = mat_expr(e.left, env, where)
        r, tr = mat_expr(e.right, env, where)
        if tl != tr or tl[0] != "vec":
            fail(where, e, f"+/- of {tl} and {tr}")
        fn = "QM.Vec.sub" if isinstance(e.op, ast.Sub) else "QM.Vec.add"
        return f"({fn} {l} {r})", tl
    if isinstance(e, ast.Call) and ast.unparse(e.func) == "np.linalg.inv" and len(e.args) == 1 and not e.keywords:
        t, ty = mat_expr(e.args[0], env, where)
        if ty[0] != "mat" or ty[1] != ty[2]:
            fail(where, e, "inv of a non-square matrix")
        return f"(inv {t})", ty
    fail(where, e, "unsupported matrix expression")


def lean_type(ty):
    return f"QM.Mat K {ty[1]} {ty[2]}" if ty[0] == "mat" else f"QM.Vec K {ty[1]}"


# ----------------------------------------------------------------------------- natural-number expressions
def nat_expr(e, env, where):
    if isinstance(e, ast.Constant) and isinstance(e.value, int) and not isinstance(e.value, bool) and e.value >= 0:
        return str(e.value)
    if isinstance(e, ast.Name):
        if e.id not in env:
            fail(where, e, "unbound name in an integer expression")
        return env[e.id]
    if isinstance(e, ast.BinOp) and isinstance(e.op, (ast.Add, ast.Sub, ast.Mult)):
        op = {ast.Add: "+", ast.Sub: "-", ast.Mult: "*"}[type(e.op)]
        return f"({nat_expr(e.left, env, where)} {op} {nat_expr(e.right, env, where)})"
    if isinstance(e, ast.BinOp) and isinstance(e.op, ast.Pow) and isinstance(e.right, ast.Constant) \
            and isinstance(e.right.value, int) and e.right.value >= 0:
        return f"({nat_expr(e.left, env, where)} ^ {e.right.value})"
    if isinstance(e, ast.Call) and isinstance(e.func, ast.Name) and e.func.id == "min" and len(e.args) == 2:
        return f"(min {nat_expr(e.args[0], env, where)} {nat_expr(e.args[1], env, where)})"
    if isinstance(e, ast.Call) and isinstance(e.func, ast.Name) and e.func.id == "int" and len(e.args) == 1:
        return nat_expr(e.args[0], env, where)
    fail(where, e, "unsupported integer expression")


def subscript_index(e, where):
    """constant index of `x[k]` (k may be negative: returned as int)"""
    if isinstance(e, ast.Subscript):
        s = e.slice
        if isinstance(s, ast.Constant) and isinstance(s.value, int):
            return s.value
        if isinstance(s, ast.UnaryOp) and isinstance(s.op, ast.USub) and isinstance(s.operand, ast.Constant):
            return -s.operand.value
    fail(where, e, "expected a constant subscript")


def write_if_changed(path, text):
    if not os.path.exists(path) or open(path).read() != text:
        os.makedirs(os.path.dirname(path), exist_ok=True)
        open(path, "w").write(text)
        return True
    return False


# ----------------------------------------------------------------------------- helpers for the `_set_coeffs` loops (C08)
def const_env(fn):
    """NAME = <int literal> assignments anywhere in a function"""
    out = {}
    for n in ast.walk(fn):
        if isinstance(n, ast.Assign) and len(n.targets) == 1 and isinstance(n.targets[0], ast.Name) \
                and isinstance(n.value, ast.Constant) and isinstance(n.value.value, int) and not isinstance(n.value.value, bool):
            out[n.targets[0].id] = n.value.value
    return out


def assigns(scope):
    """name -> list of Assign nodes (single Name target) found anywhere below `scope`"""
    out = {}
    for n in ast.walk(scope):
        if isinstance(n, ast.Assign) and len(n.targets) == 1 and isinstance(n.targets[0], ast.Name):
            out.setdefault(n.targets[0].id, []).append(n)
    return out


def schedule_item(fn, var, where, sched="schedule", consts=None):
    """`<var> = schedule[K][1]` → K (literal, negative literal or a NAME bound to a literal)"""
    a = assigns(fn).get(var)
    if not a or len(a) != 1:
        fail(where, fn, f"expected exactly one assignment `{var} = {sched}[K][1]`")
    v = a[0].value
    if not (isinstance(v, ast.Subscript) and isinstance(v.value, ast.Subscript) and ast.unparse(v.value.value) == sched):
        fail(where, v, f"expected `{sched}[K][1]`")
    if subscript_index(v, where) != 1:
        fail(where, v, "expected component [1] (the index) of the schedule item")
    k = v.value.slice
    if isinstance(k, ast.Name):
        env = const_env(consts if consts is not None else fn)
        if k.id not in env:
            fail(where, v, "schedule item position is not a literal")
        return env[k.id]
    return subscript_index(v.value, where)


def int_lit(k):
    return f"({k} : Int)"


def dict_stores(scope, names, where):
    """assignments `<dict>[(a, b)] = value` for dict names in `names` (attribute or plain): list of (dict, key node, value node, stmt)"""
    out = []
    for n in ast.walk(scope):
        if isinstance(n, ast.Assign) and len(n.targets) == 1 and isinstance(n.targets[0], ast.Subscript):
            d = ast.unparse(n.targets[0].value).replace("self.", "").lstrip("_")
            if d in names:
                out.append((d, n.targets[0].slice, n.value, n))
    return out


def key_function(stores, outer, inner, where):
    """all dictionary keys must be the same 2-tuple of the two loop indices; returns the Lean tuple text over
    parameters `schedule_index element_index`"""
    texts = set()
    for _, key, _, st in stores:
        if not (isinstance(key, ast.Tuple) and len(key.elts) == 2 and all(isinstance(x, ast.Name) for x in key.elts)):
            fail(where, st, "dictionary key is not a pair of names")
        comp = []
        for x in key.elts:
            if x.id == outer:
                comp.append("schedule_index")
            elif x.id == inner:
                comp.append("element_index")
            else:
                fail(where, st, f"dictionary key component `{x.id}` is not a loop index")
        texts.add("(" + ", ".join(comp) + ")")
    if len(texts) != 1:
        fail(where, stores[0][3] if stores else where, f"inconsistent dictionary keys {sorted(texts)}")
    return texts.pop()


class RowExpr:
    """numpy 1-D expressions of the coefficient rows → Lean list code.  `lists`: python expr text → Lean list name;
    `sqrt_dim`: python text of `np.sqrt(dim)`-like factors → Lean scalar; `nat`: python names → Lean Nat text."""

    def __init__(self, where, lists, sqrt_texts, nat, local):
        self.where, self.lists, self.sqrt_texts, self.nat, self.local = where, lists, sqrt_texts, nat, local
        self.reads = []      # (lean list, k, bound name)

    def resolve(self, e):
        """follow plain local names to their defining expressions"""
        while isinstance(e, ast.Name) and e.id in self.local and ast.unparse(e) not in self.lists:
            e = self.local[e.id]
        return e

    def nat_of(self, e):
        e = self.resolve(e) if isinstance(e, ast.Name) and e.id not in self.nat else e
        # int(d * d) with d = np.sqrt(v)  →  v
        if isinstance(e, ast.Call) and isinstance(e.func, ast.Name) and e.func.id == "int" and len(e.args) == 1:
            a = e.args[0]
            if isinstance(a, ast.BinOp) and isinstance(a.op, ast.Mult) and ast.unparse(a.left) == ast.unparse(a.right):
                d = self.resolve(a.left)
                if isinstance(d, ast.Call) and ast.unparse(d.func) == "np.sqrt" and len(d.args) == 1:
                    return self.nat_of(d.args[0])
            return self.nat_of(a)
        if isinstance(e, ast.Name) and e.id in self.nat:
            return self.nat[e.id]
        if ast.unparse(e) in self.nat:
            return self.nat[ast.unparse(e)]
        if isinstance(e, ast.Constant) and isinstance(e.value, int) and e.value >= 0:
            return str(e.value)
        if isinstance(e, ast.BinOp) and isinstance(e.op, (ast.Add, ast.Sub, ast.Mult)):
            op = {ast.Add: "+", ast.Sub: "-", ast.Mult: "*"}[type(e.op)]
            return f"({self.nat_of(e.left)} {op} {self.nat_of(e.right)})"
        if isinstance(e, ast.BinOp) and isinstance(e.op, ast.Pow) and isinstance(e.right, ast.Constant):
            return f"({self.nat_of(e.left)} ^ {e.right.value})"
        fail(self.where, e, "unsupported integer expression")

    def expr(self, e):
        """(lean, 'list' | 'scalar')"""
        t = ast.unparse(e)
        if t in self.lists:
            return self.lists[t], "list"
        if isinstance(e, ast.Name) and e.id in self.local:
            return self.expr(self.local[e.id])
        if isinstance(e, ast.Constant) and e.value == 0:
            return "0", "scalar"
        if isinstance(e, ast.Subscript):
            base, kind = self.expr(e.value)
            if kind != "list":
                fail(self.where, e, "subscript of a non-vector")
            s = e.slice
            if isinstance(s, ast.Slice):
                if s.upper is not None or s.step is not None or s.lower is None:
                    fail(self.where, e, "only `x[k:]` slices are supported")
                return f"(List.drop {self.nat_of(s.lower)} {base})", "list"
            k = subscript_index(e, self.where)
            if k < 0:
                fail(self.where, e, "negative element index")
            name = f"x{len(self.reads)}"
            for b, kk, nm in self.reads:
                if (b, kk) == (base, k):
                    return nm, "scalar"
            self.reads.append((base, k, name))
            return name, "scalar"
        if isinstance(e, ast.BinOp) and isinstance(e.op, ast.Div) and ast.unparse(self.resolve(e.right)) in self.sqrt_texts:
            l, kind = self.expr(e.left)
            if kind != "scalar":
                fail(self.where, e, "division of a vector")
            return f"({l} / r)", "scalar"
        if isinstance(e, ast.BinOp) and isinstance(e.op, ast.Mult) and ast.unparse(self.resolve(e.left)) in self.sqrt_texts:
            r_, kind = self.expr(e.right)
            if kind != "scalar":
                fail(self.where, e, "product with a vector")
            return f"(r * {r_})", "scalar"
        fail(self.where, e, "unsupported row expression")


def option_pair(rx, a, b):
    """`some (a, b)` guarded by the element reads recorded in `rx`"""
    text = f"some ({a}, {b})"
    for base, k, name in reversed(rx.reads):
        text = f"(match {base}[{k}]? with | some {name} => {text} | none => none)"
    return text


# ----------------------------------------------------------------------------- matrices as lists of rows (cqpt_to_cqmpt)
class RowMat:
    """numpy statements on 2-D arrays → Lean code on lists of rows with the helpers of QModel/C08.lean
    (`colsTo / colsFrom / negMat / zerosMat / hstack2 / hstackRep / blockDiagRep / colAt? / matWidth`).
    `kinds`: name → 'mat' | 'vec'; `reps`: name → (X, count) for lists `[X] * count`; `tuples`: name → tuple node."""

    def __init__(self, where, nat_names):
        self.where, self.nat_names = where, nat_names
        self.kinds, self.reps, self.tuples = {}, {}, {}

    def nat(self, e):
        if isinstance(e, ast.Constant) and isinstance(e.value, int) and e.value >= 0:
            return str(e.value)
        if isinstance(e, ast.Name) and e.id in self.nat_names:
            return self.nat_names[e.id]
        if isinstance(e, ast.Subscript) and isinstance(e.value, ast.Attribute) and e.value.attr == "shape" \
                and isinstance(e.value.value, ast.Name) and self.kinds.get(e.value.value.id) == "mat":
            k = subscript_index(e, self.where)
            if k == 0:
                return f"{e.value.value.id}.length"
            if k == 1:
                return f"(QM.C08.matWidth {e.value.value.id})"
        if isinstance(e, ast.BinOp) and isinstance(e.op, (ast.Add, ast.Sub, ast.Mult)):
            op = {ast.Add: "+", ast.Sub: "-", ast.Mult: "*"}[type(e.op)]
            return f"({self.nat(e.left)} {op} {self.nat(e.right)})"
        if isinstance(e, ast.BinOp) and isinstance(e.op, ast.Pow) and isinstance(e.right, ast.Constant):
            return f"({self.nat(e.left)} ^ {e.right.value})"
        fail(self.where, e, "unsupported size expression")

    def rep(self, e):
        """`[X] * count` → (X name, count text)"""
        if isinstance(e, ast.BinOp) and isinstance(e.op, ast.Mult) and isinstance(e.left, ast.List) and len(e.left.elts) == 1 \
                and isinstance(e.left.elts[0], ast.Name):
            return e.left.elts[0].id, self.nat(e.right)
        fail(self.where, e, "expected `[X] * count`")

    def expr(self, e):
        """(lean, kind) with kind 'mat' | 'vec' | 'optvec'"""
        if isinstance(e, ast.Name):
            if e.id not in self.kinds:
                fail(self.where, e, "unbound array name")
            return e.id, self.kinds[e.id]
        if isinstance(e, ast.UnaryOp) and isinstance(e.op, ast.USub):
            x, k = self.expr(e.operand)
            if k != "mat":
                fail(self.where, e, "negation of a non-matrix")
            return f"(QM.C08.negMat {x})", "mat"
        if isinstance(e, ast.Subscript) and isinstance(e.slice, ast.Tuple) and len(e.slice.elts) == 2:
            x, k = self.expr(e.value)
            r, c = e.slice.elts
            if k != "mat" or not (isinstance(r, ast.Slice) and r.lower is None and r.upper is None) or not isinstance(c, ast.Slice) \
                    or c.step is not None:
                fail(self.where, e, "only `X[:, :k]` / `X[:, k:]` are supported")
            if c.lower is None and c.upper is not None:
                return f"(QM.C08.colsTo {self.nat(c.upper)} {x})", "mat"
            if c.upper is None and c.lower is not None:
                return f"(QM.C08.colsFrom {self.nat(c.lower)} {x})", "mat"
            fail(self.where, e, "unsupported column slice")
        if isinstance(e, ast.Subscript) and isinstance(e.value, ast.Attribute) and e.value.attr == "T":
            x, k = self.expr(e.value.value)
            if k != "mat":
                fail(self.where, e, ".T of a non-matrix")
            return f"(QM.C08.colAt? {subscript_index(e, self.where)} {x})", "optvec"
        if isinstance(e, ast.Call):
            f = ast.unparse(e.func)
            if f == "block_diag" and len(e.args) == 1 and isinstance(e.args[0], ast.Starred) \
                    and isinstance(e.args[0].value, ast.Name) and e.args[0].value.id in self.reps:
                x, cnt = self.reps[e.args[0].value.id]
                return f"(QM.C08.blockDiagRep {cnt} {x})", "mat"
            if f == "np.zeros" and len(e.args) == 1:
                a = e.args[0]
                if isinstance(a, ast.Name) and a.id in self.tuples:
                    a = self.tuples[a.id]
                if isinstance(a, ast.Tuple) and len(a.elts) == 2:
                    return f"(QM.C08.zerosMat {self.nat(a.elts[0])} {self.nat(a.elts[1])})", "mat"
                return f"(QM.C08.zeros {self.nat(a)})", "vec"
            if f == "np.vstack" and len(e.args) == 1 and isinstance(e.args[0], ast.List) and len(e.args[0].elts) == 2:
                (x, kx), (y, ky) = self.expr(e.args[0].elts[0]), self.expr(e.args[0].elts[1])
                if (kx, ky) != ("mat", "mat"):
                    fail(self.where, e, "vstack of non-matrices")
                return f"({x} ++ {y})", "mat"
            if f == "np.hstack" and len(e.args) == 1:
                a = e.args[0]
                if isinstance(a, ast.List) and len(a.elts) == 2:
                    (x, kx), (y, ky) = self.expr(a.elts[0]), self.expr(a.elts[1])
                    if (kx, ky) == ("mat", "mat"):
                        return f"(QM.C08.hstack2 {x} {y})", "mat"
                    if (kx, ky) == ("vec", "vec"):
                        return f"({x} ++ {y})", "vec"
                    fail(self.where, e, "hstack of mixed kinds")
                if isinstance(a, ast.BinOp) and isinstance(a.op, ast.Add) and isinstance(a.right, ast.List) \
                        and len(a.right.elts) == 1:
                    d, cnt = self.rep(a.left)
                    y, ky = self.expr(a.right.elts[0])
                    if self.kinds.get(d) != "mat" or ky != "mat":
                        fail(self.where, e, "hstack([D] * k + [E]) of non-matrices")
                    return f"(QM.C08.hstackRep {cnt} {d} {y})", "mat"
        fail(self.where, e, "unsupported array expression")

    def block(self, stmts, result, offset, indent="    "):
        """let-chain for a statement list; returns Lean text ending in `some (<result>, <offset>)`"""
        lines, close = [], 0
        for st in stmts:
            if isinstance(st, ast.If) and ast.unparse(st.test) == "len(c_qpt.shape) < 2":
                continue          # promotion of a 1-D row to a 1-row matrix: the model always passes a list of rows
            if not (isinstance(st, ast.Assign) and len(st.targets) == 1 and isinstance(st.targets[0], ast.Name)):
                fail(self.where, st, "unsupported statement")
            name, v = st.targets[0].id, st.value
            if isinstance(v, ast.BinOp) and isinstance(v.left, ast.List):
                self.reps[name] = self.rep(v)
                continue
            if isinstance(v, ast.Tuple):
                self.tuples[name] = v
                continue
            t, k = self.expr(v)
            if k == "optvec":
                lines.append(f"{indent}match {t} with")
                lines.append(f"{indent}| none => none")
                lines.append(f"{indent}| some {name} =>")
                indent += "  "
                self.kinds[name] = "vec"
            else:
                ty = "List (List K)" if k == "mat" else "List K"
                lines.append(f"{indent}let {name} : {ty} := {t}")
                self.kinds[name] = k
        lines.append(f"{indent}some ({result}, {offset})")
        return "\n".join(lines)
