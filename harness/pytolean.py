"""pytolean — translator of straight-line integer Python functions (via `ast`) to Lean 4 definitions over `Int`.

Supported subset (anything else raises `Untranslatable`, loudly):
  * parameters annotated `int`, `bool`, `Tuple[int, ...]`; `CompositeSystem` (only `<p>.dim` may be used, becomes the
    Lean parameter `<p>_dim : Int`); `List[np.ndarray]` (only `len(<p>)` and `<p>[0].shape[0]` may be used, becomes
    `<p>_len : Int` and `<p>_size : Int`);
  * statements: docstring, `x = e`, `(a, b, ..) = e`, `x += e` / `-=` / `*=`, `if c: .. [else: ..]` (no `return` inside),
    one final `return e`;
  * expressions: int literals, names, `+ - * // %`, `e ** <non-negative int literal>`, unary `-`, `divmod(a, b)`,
    tuples, `a if c else b`; conditions: one comparison (`== != < <= > >=`) of integers, a boolean name, `not`, `and`, `or`.
Python's `//` and `%` are floor division / modulus: translated to `Int.fdiv` / `Int.fmod`.
An `if` statement becomes `let (vars assigned in a branch) := if c then (.., vars) else (.., vars)`; a variable assigned in
a branch must already be bound before the `if` (otherwise Python could leave it unbound on one path).
"""
import ast
import os

INT, BOOL = "Int", "Bool"


class Untranslatable(Exception):
    pass


def tname(t):
    if isinstance(t, tuple):
        return " × ".join(tname(x) if not isinstance(x, tuple) else "(" + tname(x) + ")" for x in t)
    return t


def proj(expr, i, n):
    """i-th component of an n-tuple expression (right-nested pairs)"""
    s = expr
    for _ in range(i):
        s += ".2"
    if i < n - 1:
        s += ".1"
    return s


class Fn:
    """translation of one function body"""

    def __init__(self, where):
        self.where = where
        self.env = {}      # python name -> (lean name, type)
        self.atoms = {}    # ast.unparse(expr) -> (lean expr, type)
        self.tmp = 0

    def fail(self, node, msg):
        line = getattr(node, "lineno", "?")
        raise Untranslatable(f"{self.where}:{line}: {msg}: `{ast.unparse(node) if isinstance(node, ast.AST) else node}`")

    # ------------------------------------------------------------------ expressions
    def expr(self, e):
        """returns (lean text, type)"""
        key = ast.unparse(e)
        if key in self.atoms:
            return self.atoms[key]
        if isinstance(e, ast.Constant):
            if type(e.value) is int:
                return (f"({e.value} : Int)" if e.value >= 0 else f"(-{-e.value} : Int)"), INT
            self.fail(e, "unsupported literal")
        if isinstance(e, ast.Name):
            if e.id in self.env:
                return self.env[e.id]
            self.fail(e, "unbound or unsupported name")
        if isinstance(e, ast.BinOp):
            if isinstance(e.op, ast.Pow):
                a, ta = self.expr(e.left)
                if ta != INT or not (isinstance(e.right, ast.Constant) and type(e.right.value) is int and e.right.value >= 0):
                    self.fail(e, "`**` needs an integer base and a non-negative integer literal exponent")
                return f"({a} ^ ({e.right.value} : Nat))", INT
            a, ta = self.expr(e.left)
            b, tb = self.expr(e.right)
            if ta != INT or tb != INT:
                self.fail(e, "arithmetic on non-integers")
            if isinstance(e.op, ast.Add):
                return f"({a} + {b})", INT
            if isinstance(e.op, ast.Sub):
                return f"({a} - {b})", INT
            if isinstance(e.op, ast.Mult):
                return f"({a} * {b})", INT
            if isinstance(e.op, ast.FloorDiv):
                return f"(Int.fdiv {a} {b})", INT
            if isinstance(e.op, ast.Mod):
                return f"(Int.fmod {a} {b})", INT
            self.fail(e, "unsupported binary operator")
        if isinstance(e, ast.UnaryOp) and isinstance(e.op, ast.USub):
            a, ta = self.expr(e.operand)
            if ta != INT:
                self.fail(e, "negation of a non-integer")
            return f"(-{a})", INT
        if isinstance(e, ast.Call) and isinstance(e.func, ast.Name) and e.func.id == "divmod" and len(e.args) == 2 \
                and not e.keywords:
            a, ta = self.expr(e.args[0])
            b, tb = self.expr(e.args[1])
            if ta != INT or tb != INT:
                self.fail(e, "divmod of non-integers")
            return f"(Int.fdiv {a} {b}, Int.fmod {a} {b})", (INT, INT)
        if isinstance(e, ast.Tuple):
            if len(e.elts) < 2:
                self.fail(e, "tuple of fewer than two elements")
            parts = [self.expr(x) for x in e.elts]
            return "(" + ", ".join(p[0] for p in parts) + ")", tuple(p[1] for p in parts)
        if isinstance(e, ast.IfExp):
            c = self.cond(e.test)
            a, ta = self.expr(e.body)
            b, tb = self.expr(e.orelse)
            if ta != tb:
                self.fail(e, "branches of different type")
            return f"(if {c} then {a} else {b})", ta
        if isinstance(e, (ast.Compare, ast.BoolOp)) or (isinstance(e, ast.UnaryOp) and isinstance(e.op, ast.Not)):
            self.fail(e, "boolean expression used as a value")
        self.fail(e, "unsupported expression")

    CMP = {ast.Eq: "=", ast.NotEq: "≠", ast.Lt: "<", ast.LtE: "≤", ast.Gt: ">", ast.GtE: "≥"}

    def cond(self, e):
        """a decidable Lean proposition"""
        if isinstance(e, ast.Compare):
            if len(e.ops) != 1 or type(e.ops[0]) not in self.CMP:
                self.fail(e, "unsupported comparison")
            a, ta = self.expr(e.left)
            b, tb = self.expr(e.comparators[0])
            if ta != INT or tb != INT:
                self.fail(e, "comparison of non-integers")
            return f"({a} {self.CMP[type(e.ops[0])]} {b})"
        if isinstance(e, ast.BoolOp):
            op = " ∧ " if isinstance(e.op, ast.And) else " ∨ "
            return "(" + op.join(self.cond(v) for v in e.values) + ")"
        if isinstance(e, ast.UnaryOp) and isinstance(e.op, ast.Not):
            return f"(¬ {self.cond(e.operand)})"
        if isinstance(e, ast.Name) or ast.unparse(e) in self.atoms:
            a, ta = self.expr(e)
            if ta != BOOL:
                self.fail(e, "truthiness of a non-boolean")
            return f"({a} = true)"
        self.fail(e, "unsupported condition")

    # ------------------------------------------------------------------ statements
    def fresh(self):
        self.tmp += 1
        return f"t_{self.tmp}"

    def bind(self, name, typ, lines, text, ind):
        lines.append(f"{ind}let {name} : {tname(typ)} := {text}")
        self.env[name] = (name, typ)

    def assigned(self, stmts):
        out = []
        for s in stmts:
            if isinstance(s, ast.Assign):
                for t in s.targets:
                    names = [t] if isinstance(t, ast.Name) else (t.elts if isinstance(t, ast.Tuple) else [None])
                    for n in names:
                        if not isinstance(n, ast.Name):
                            self.fail(s, "unsupported assignment target")
                        if n.id not in out:
                            out.append(n.id)
            elif isinstance(s, ast.AugAssign):
                if not isinstance(s.target, ast.Name):
                    self.fail(s, "unsupported assignment target")
                if s.target.id not in out:
                    out.append(s.target.id)
            elif isinstance(s, ast.If):
                for n in self.assigned(s.body) + self.assigned(s.orelse):
                    if n not in out:
                        out.append(n)
            elif isinstance(s, ast.Pass):
                pass
            else:
                self.fail(s, "unsupported statement")
        return out

    def stmts(self, body, lines, ind):
        for s in body:
            if isinstance(s, ast.Expr) and isinstance(s.value, ast.Constant) and isinstance(s.value.value, str):
                continue  # docstring
            if isinstance(s, ast.Pass):
                continue
            if isinstance(s, ast.Assign):
                if len(s.targets) != 1:
                    self.fail(s, "chained assignment")
                tgt = s.targets[0]
                text, typ = self.expr(s.value)
                if isinstance(tgt, ast.Name):
                    self.bind(tgt.id, typ, lines, text, ind)
                elif isinstance(tgt, ast.Tuple) and all(isinstance(x, ast.Name) for x in tgt.elts):
                    if not isinstance(typ, tuple) or len(typ) != len(tgt.elts):
                        self.fail(s, "tuple unpacking arity mismatch")
                    t = self.fresh()
                    lines.append(f"{ind}let {t} : {tname(typ)} := {text}")
                    for i, x in enumerate(tgt.elts):
                        self.bind(x.id, typ[i], lines, proj(t, i, len(typ)), ind)
                else:
                    self.fail(s, "unsupported assignment target")
                continue
            if isinstance(s, ast.AugAssign):
                if not isinstance(s.target, ast.Name) or s.target.id not in self.env:
                    self.fail(s, "augmented assignment to an unbound / unsupported target")
                a, ta = self.env[s.target.id]
                b, tb = self.expr(s.value)
                if ta != INT or tb != INT:
                    self.fail(s, "augmented assignment on non-integers")
                op = {ast.Add: "+", ast.Sub: "-", ast.Mult: "*"}.get(type(s.op))
                if op is None:
                    self.fail(s, "unsupported augmented operator")
                self.bind(s.target.id, INT, lines, f"({a} {op} {b})", ind)
                continue
            if isinstance(s, ast.If):
                c = self.cond(s.test)
                vs = self.assigned(s.body) + [n for n in self.assigned(s.orelse) if n not in self.assigned(s.body)]
                for v in vs:
                    if v not in self.env:
                        self.fail(s, f"variable `{v}` assigned under `if` is not bound before it")
                if not vs:
                    continue
                types = tuple(self.env[v][1] for v in vs)
                saved = dict(self.env)
                branches = []
                for br in (s.body, s.orelse):
                    self.env = dict(saved)
                    bl = []
                    self.stmts(br, bl, ind + "    ")
                    for v, t in zip(vs, types):
                        if self.env[v][1] != t:
                            self.fail(s, f"variable `{v}` changes type under `if`")
                    res = self.env[vs[0]][0] if len(vs) == 1 else "(" + ", ".join(self.env[v][0] for v in vs) + ")"
                    branches.append("\n".join(bl + [f"{ind}    {res}"]))
                self.env = dict(saved)
                typ = types[0] if len(vs) == 1 else types
                t = vs[0] if len(vs) == 1 else self.fresh()
                lines.append(f"{ind}let {t} : {tname(typ)} :=\n{ind}  if {c} then\n{branches[0]}\n{ind}  else\n{branches[1]}")
                if len(vs) == 1:
                    self.env[vs[0]] = (vs[0], types[0])
                else:
                    for i, v in enumerate(vs):
                        self.bind(v, types[i], lines, proj(t, i, len(vs)), ind)
                continue
            if isinstance(s, ast.Return):
                self.fail(s, "`return` is only supported as the last statement of the function")
            self.fail(s, "unsupported statement")


def _ann(a):
    return ast.unparse(a).replace(" ", "") if a is not None else None


def find_def(tree, name, cls=None):
    scope = tree.body
    if cls is not None:
        cs = [n for n in tree.body if isinstance(n, ast.ClassDef) and n.name == cls]
        if len(cs) != 1:
            raise Untranslatable(f"class {cls} not found exactly once")
        scope = cs[0].body
    fs = [n for n in scope if isinstance(n, ast.FunctionDef) and n.name == name]
    if len(fs) != 1:
        raise Untranslatable(f"function {name} not found exactly once")
    return fs[0]


def translate_function(path, name, lean_name=None, rel=None):
    """Lean `def` text for the module-level python function `name` of file `path`."""
    rel = rel or path
    tree = ast.parse(open(path).read())
    f = find_def(tree, name)
    fn = Fn(f"{rel}:{name}")
    a = f.args
    if a.vararg or a.kwarg or a.kwonlyargs or a.posonlyargs:
        raise Untranslatable(f"{rel}:{name}: unsupported parameter kinds")
    params = []
    for p in a.args:
        ann = _ann(p.annotation)
        if ann == "int":
            params.append(f"({p.arg} : Int)")
            fn.env[p.arg] = (p.arg, INT)
        elif ann == "bool":
            params.append(f"({p.arg} : Bool)")
            fn.env[p.arg] = (p.arg, BOOL)
        elif ann in ("Tuple[int,int]", "Tuple[int,int,int]"):
            k = ann.count("int")
            t = tuple([INT] * k)
            params.append(f"({p.arg} : {tname(t)})")
            fn.env[p.arg] = (p.arg, t)
        elif ann == "CompositeSystem":
            params.append(f"({p.arg}_dim : Int)")
            fn.atoms[f"{p.arg}.dim"] = (f"{p.arg}_dim", INT)
        elif ann == "List[np.ndarray]":
            params.append(f"({p.arg}_len : Int)")
            params.append(f"({p.arg}_size : Int)")
            fn.atoms[f"len({p.arg})"] = (f"{p.arg}_len", INT)
            fn.atoms[f"{p.arg}[0].shape[0]"] = (f"{p.arg}_size", INT)
        else:
            raise Untranslatable(f"{rel}:{name}: unsupported parameter annotation `{ann}` of `{p.arg}`")
    body = list(f.body)
    if not body or not isinstance(body[-1], ast.Return) or body[-1].value is None:
        raise Untranslatable(f"{rel}:{name}: the function must end with `return <expr>`")
    lines = []
    fn.stmts(body[:-1], lines, "  ")
    res, typ = fn.expr(body[-1].value)
    lean_name = lean_name or name
    head = f"/-- {rel}:{f.lineno} `{name}` -/\ndef {lean_name} {' '.join(params)} : {tname(typ)} :="
    return "\n".join([head] + lines + [f"  {res}"]) + "\n"


def translate_flag_attr(path, cls, method, attr, flag, atoms, lean_name, params, rel=None):
    """`if <flag>: self.<attr> = e1 else: self.<attr> = e2` inside `cls.method`  ->  Lean def.
    `atoms`: {python expression text: lean Int parameter name}; `params`: Lean parameter names (all Int) before the flag."""
    rel = rel or path
    tree = ast.parse(open(path).read())
    f = find_def(tree, method, cls)
    hits = []
    for s in ast.walk(f):
        if isinstance(s, ast.If) and isinstance(s.test, ast.Name) and s.test.id == flag:
            def single(br):
                if len(br) == 1 and isinstance(br[0], ast.Assign) and len(br[0].targets) == 1 and \
                        ast.unparse(br[0].targets[0]) == f"self.{attr}":
                    return br[0].value
                return None
            a, b = single(s.body), single(s.orelse)
            if a is not None and b is not None:
                hits.append((s, a, b))
    others = [s for s in ast.walk(f) if isinstance(s, (ast.Assign, ast.AugAssign)) and
              any(ast.unparse(t) == f"self.{attr}" for t in (s.targets if isinstance(s, ast.Assign) else [s.target]))]
    if len(hits) != 1 or len(others) != 2:
        raise Untranslatable(f"{rel}:{cls}.{method}: expected exactly one `if {flag}: self.{attr} = .. else: self.{attr} = ..` "
                             f"and no other assignment of self.{attr} (found {len(hits)} / {len(others)} assignments)")
    s, a, b = hits[0]
    fn = Fn(f"{rel}:{cls}.{method}")
    for k, v in atoms.items():
        fn.atoms[k] = (v, INT)
    fn.env[flag] = (flag, BOOL)
    ea, ta = fn.expr(a)
    eb, tb = fn.expr(b)
    if ta != INT or tb != INT:
        raise Untranslatable(f"{rel}:{cls}.{method}: self.{attr} is not an integer expression")
    ps = " ".join(f"({p} : Int)" for p in params)
    return (f"/-- {rel}:{s.lineno} `{cls}.{method}`: self.{attr} -/\n"
            f"def {lean_name} {ps} ({flag} : Bool) : Int :=\n  if {flag} = true then {ea} else {eb}\n")


def write_if_changed(path, text):
    if not os.path.exists(path) or open(path).read() != text:
        os.makedirs(os.path.dirname(path), exist_ok=True)
        open(path, "w").write(text)
        return True
    return False


def existing_def(path, name):
    """text of `def name ...` (with its doc comment) in a previously generated Lean file, or None"""
    import re
    if not os.path.exists(path):
        return None
    src = open(path).read()
    m = re.search(r"(/--(?:(?!-/).)*-/\n)?def " + re.escape(name) + r" .*?(?=\n/--|\n/-!|\nend |\Z)", src, re.S)
    return m.group(0).rstrip() + "\n" if m else None
