"""C14 translator: reads the sampling / seed-plumbing code of /repo with `ast` and writes lean/QGen/C14.lean.

GENERATED (used by QModel.C14, theorems are about them):
  * the inversion core `_random_number_to_data`: the comparison `random_number <op> cumulative_sum`, the start value of the
    running sum and the fall-through result `len(probdist) - k`;
  * `to_stream`: the decision table  None / int / anything else  ->  global numpy state / fresh Generator(MT19937(seed)) /
    the argument itself.
SKELETON-MATCHED ONLY (any structural edit fails loudly = broken obligation): `generate_data_from_prob_dist`,
`generate_dataset_from_prob_dists`, `calc_empi_dist_sequence`, `generate_empi_dist(s)_sequence_from_prob_dist(s)`,
`Experiment.generate_data / generate_dataset / generate_empi_dist_sequence / generate_empi_dists_sequence /
reset_seed_data / copy`, `QTomography.reset_seed`, and the three data-generation entry points of the four tomography classes (one shared skeleton)."""
import ast, os, re

from common import LEAN
from c20_translate import Untranslatable, _parse, _func, _norm_src, _match, _one, STD

DG = "quara/qcircuit/data_generator.py"
NU = "quara/utils/number_util.py"
EXP = "quara/qcircuit/experiment.py"


def _top(tree, name):
    for f in tree.body:
        if isinstance(f, ast.FunctionDef) and f.name == name:
            return f
    raise Untranslatable(f"function {name} not found")


T_R2D = """
def _random_number_to_data(probdist, random_number):
    cumulative_sum = %(start)s
    for index, prob in enumerate(probdist):
        cumulative_sum += prob
        if random_number %(op)s cumulative_sum:
            return index
    for index in range(len(probdist) - 1, -1, -1):
        if probdist[index] %(fop)s 0:
            return index
    return len(probdist) - %(off)d
"""
T_GEN_DATA = """
def generate_data_from_prob_dist(prob_dist, data_num, seed_or_generator=None, atol=None):
    atol = atol if atol else Settings.get_atol()
    validate_prob_dist(prob_dist, eps=atol)
    stream = to_stream(seed_or_generator)
    rand_val = stream.random(data_num)

    def curried_random_number_to_data(random_number):
        return _random_number_to_data(prob_dist, random_number)
    _random_number_to_data_func = np.frompyfunc(curried_random_number_to_data, 1, 1)
    return _random_number_to_data_func(rand_val).tolist()
"""
T_TO_STREAM = """
def to_stream(seed_or_generator=None):
    if seed_or_generator is None:
        stream = %(none)s
    elif type(seed_or_generator) == int:
        stream = %(int)s
    else:
        stream = %(other)s
    return stream
"""
STREAM_ACTIONS = {"np.random": 0, "np.random.Generator(np.random.MT19937(seed_or_generator))": 1, "seed_or_generator": 2}
T_EMPI_SEQ = """
def generate_empi_dist_sequence_from_prob_dist(prob_dist, num_sums, seed_or_generator=None):
    stream = to_stream(seed_or_generator)
    empi_dist_sequence = []
    for num_sum in num_sums:
        sampling = multinomial.rvs(num_sum, prob_dist, random_state=stream)
        empi_dist = sampling / num_sum
        empi_dist_sequence.append((num_sum, empi_dist))
    return empi_dist_sequence
"""
T_EMPIS_SEQ = """
def generate_empi_dists_sequence_from_prob_dists(prob_dists, list_num_sums, seed_or_generator=None):
    if len(prob_dists) != len(list_num_sums):
        raise ValueError('')
    stream = to_stream(seed_or_generator)
    empi_dists_sequence = []
    for prob_dist, num_sums in zip(prob_dists, list_num_sums):
        empi_dists = generate_empi_dist_sequence_from_prob_dist(prob_dist, num_sums, stream)
        empi_dists_sequence.append(empi_dists)
    return empi_dists_sequence
"""
T_DATASET = """
def generate_dataset_from_prob_dists(prob_dists, data_nums, seeds_or_generators=None):
    if len(prob_dists) != len(data_nums):
        raise ValueError('')
    if seeds_or_generators is not None:
        if len(prob_dists) != len(seeds_or_generators):
            raise ValueError('')
    dataset = []
    for index, (prob_dist, data_num) in enumerate(zip(prob_dists, data_nums)):
        seed_or_generator = None if seeds_or_generators is None else seeds_or_generators[index]
        data = generate_data_from_prob_dist(prob_dist, data_num, seed_or_generator)
        dataset.append(data)
    return dataset
"""
T_CALC_EMPI = """
def calc_empi_dist_sequence(measurement_num, data, num_sums):
    if measurement_num %(neg)s 0:
        raise ValueError('')
    empi_dists = []
    cumulative_frequency = np.zeros(measurement_num, dtype=int)
    if len(num_sums) == 0:
        return empi_dists
    next_num_sum = num_sums[0]
    next_num_sum_position = 0
    former_num_sum = 0
    if next_num_sum %(big)s len(data):
        raise ValueError('')
    for index, d in enumerate(data):
        if not 0 %(lo)s d %(hi)s measurement_num:
            raise ValueError('')
        cumulative_frequency[d] += 1
        if index + %(hitoff)d == next_num_sum:
            empidist = cumulative_frequency / (index + %(divoff)d)
            empi_dists.append((next_num_sum, empidist))
            if next_num_sum_position + 1 == len(num_sums):
                return empi_dists
            else:
                former_num_sum = next_num_sum
                next_num_sum_position += 1
                next_num_sum = num_sums[next_num_sum_position]
                if next_num_sum %(big)s len(data):
                    raise ValueError('')
                if former_num_sum %(inc)s next_num_sum:
                    raise ValueError('')
    return empi_dists
"""
T_EXP = {
    "generate_data": """
def generate_data(self, schedule_index, data_num, seed_or_generator=None):
    if type(data_num) != int:
        raise TypeError('')
    if data_num < 0:
        raise ValueError('')
    self._validate_schedule_index(schedule_index)
    prob_dist = self.calc_prob_dist(schedule_index)
    stream = to_stream(seed_or_generator)
    data = data_generator.generate_data_from_prob_dist(prob_dist, data_num, seed_or_generator=stream)
    return data
""",
    "generate_dataset": """
def generate_dataset(self, data_nums, seed_or_generator=None):
    self._validate_eq_schedule_len(data_nums, 'data_nums')
    prob_dists = self.calc_prob_dists()
    stream = to_stream(seed_or_generator)
    dataset = data_generator.generate_dataset_from_prob_dists(prob_dists=prob_dists, data_nums=data_nums, seeds_or_generators=[stream] * len(data_nums))
    return dataset
""",
    "generate_empi_dist_sequence": """
def generate_empi_dist_sequence(self, schedule_index, num_sums, seed_or_generator=None):
    prob_dist = self.calc_prob_dist(schedule_index)
    empi_dist_sequence = data_generator.generate_empi_dist_sequence_from_prob_dist(prob_dist, num_sums, seed_or_generator)
    return empi_dist_sequence
""",
    "generate_empi_dists_sequence": """
def generate_empi_dists_sequence(self, list_num_sums, seed_or_generator=None):
    for num_sums in list_num_sums:
        self._validate_eq_schedule_len(num_sums, 'list_num_sums')
    list_num_sums_tmp = [list(num_sums) for num_sums in zip(*list_num_sums)]
    prob_dists = self.calc_prob_dists()
    empi_dists_sequence = data_generator.generate_empi_dists_sequence_from_prob_dists(prob_dists, list_num_sums_tmp, seed_or_generator)
    return empi_dists_sequence
""",
    "reset_seed_data": """
def reset_seed_data(self, seed_data):
    self._seed_data = seed_data
    if self._seed_data is not None:
        np.random.seed(self._seed_data)
""",
    "copy": """
def copy(self):
    states = copy.copy(self.states)
    gates = copy.copy(self.gates)
    povms = copy.copy(self.povms)
    mprocesses = copy.copy(self.mprocesses)
    schedules = copy.copy(self.schedules)
    experiment = Experiment(states=states, gates=gates, povms=povms, mprocesses=mprocesses, schedules=schedules)
    return experiment
""",
}
T_TOMO = {
    "generate_empi_dist": """
def generate_empi_dist(self, schedule_index, %(par)s, num_sum, seed_or_generator=None):
    tmp_experiment = self._experiment.copy()
    %(tidx)s = self._get_target_index(tmp_experiment, schedule_index)
    tmp_experiment.%(attr)s[%(tidx)s] = %(par)s
    stream = to_stream(seed_or_generator)
    empi_dist_seq = tmp_experiment.generate_empi_dist_sequence(schedule_index, [num_sum], seed_or_generator=stream)
    return empi_dist_seq[0]
""",
    "generate_empi_dists": """
def generate_empi_dists(self, %(par)s, num_sum, seed_or_generator=None):
    tmp_experiment = self._experiment.copy()
    for schedule_index in range(len(tmp_experiment.schedules)):
        %(tidx)s = self._get_target_index(tmp_experiment, schedule_index)
        tmp_experiment.%(attr)s[%(tidx)s] = %(par)s
    num_sums = [num_sum] * self._num_schedules
    stream = to_stream(seed_or_generator)
    empi_dist_seq = tmp_experiment.generate_empi_dists_sequence([num_sums], seed_or_generator=stream)
    empi_dists = list(itertools.chain.from_iterable(empi_dist_seq))
    return empi_dists
""",
    "generate_empi_dists_sequence": """
def generate_empi_dists_sequence(self, %(par)s, num_sums, seed_or_generator=None):
    tmp_experiment = self._experiment.copy()
    list_num_sums = [num_sums] * self._num_schedules
    list_num_sums_tmp = [list(num_sums) for num_sums in zip(*list_num_sums)]
    for schedule_index in range(len(tmp_experiment.schedules)):
        %(tidx)s = self._get_target_index(tmp_experiment, schedule_index)
        tmp_experiment.%(attr)s[%(tidx)s] = %(par)s
    stream = to_stream(seed_or_generator)
    empi_dists_sequence_tmp = tmp_experiment.generate_empi_dists_sequence(list_num_sums_tmp, seed_or_generator=stream)
    empi_dists_sequence = [list(empi_dists) for empi_dists in zip(*empi_dists_sequence_tmp)]
    return empi_dists_sequence
""",
}
T_RESET_SEED = """
def reset_seed(self, seed=None):
    if seed is not None:
        self._experiment.reset_seed_data(seed)
    else:
        self._experiment.reset_seed_data(self._experiment.seed_data)
"""
T_EXEC_SAMPLING = """
def execute_random_sampling(self, num, size, random_generator=None):
    stream = to_stream(random_generator)
    samplings = list(multinomial.rvs(num, self.ps, size=size, random_state=stream))
    return samplings
"""
TOMO = [("StandardQst", "standard_qst.py", "state", "states", "state_index"),
        ("StandardPovmt", "standard_povmt.py", "povm", "povms", "target_index"),
        ("StandardQpt", "standard_qpt.py", "gate", "gates", "target_index"),
        ("StandardQmpt", "standard_qmpt.py", "mprocess", "mprocesses", "target_index")]
OPS = {"<": "u < c", "<=": "u ≤ c", ">": "u > c", ">=": "u ≥ c"}
LOP = {"<": "<", "<=": "≤", ">": ">", ">=": "≥", "==": "=", "!=": "≠"}


def extract():
    tb = {}
    dg = _parse(DG)
    # --- inversion core
    src = _norm_src(_top(dg, "_random_number_to_data"))
    start = _one(r"\n    cumulative_sum = (\S+)\n", src, "start of the running sum")
    op = _one(r"if random_number (<=|<|>=|>) cumulative_sum:", src, "comparison of the inversion loop")
    off = int(_one(r"\n    return len\(probdist\) - (\d+)$", src.rstrip(), "fall-through result"))
    fop = _one(r"\n        if probdist\[index\] (<=|<|>=|>|==|!=) 0:", src, "test of the backward loop")
    try:
        from fractions import Fraction
        startq = Fraction(ast.literal_eval(start))
    except Exception:
        raise Untranslatable(f"start value of the running sum is not a literal: {start}")
    _match(src, T_R2D % dict(start=start, op=op, off=off, fop=fop), "_random_number_to_data")
    tb.update(start=startq, op=op, off=off, fop=fop)
    # --- to_stream
    nu = _parse(NU)
    src = _norm_src(_top(nu, "to_stream"))
    m = re.search(r"is None:\n        stream = (.+)\n    elif type\(seed_or_generator\) == int:\n        stream = (.+)\n    else:\n        stream = (.+)\n", src)
    if not m:
        raise Untranslatable("to_stream: cannot find the three branches (None / int / else)")
    acts = []
    for what, expr in zip(("None", "int", "other"), m.groups()):
        if expr not in STREAM_ACTIONS:
            raise Untranslatable(f"to_stream: cannot translate the {what} branch `stream = {expr}`")
        acts.append(STREAM_ACTIONS[expr])
    _match(src, T_TO_STREAM % dict(none=m.group(1), int=m.group(2), other=m.group(3)), "to_stream")
    tb["stream"] = acts
    # --- skeleton only
    # --- calc_empi_dist_sequence: comparison directions and offsets
    CMP = r"(<=|<|>=|>|==|!=)"
    src = _norm_src(_top(dg, "calc_empi_dist_sequence"))
    e = dict(neg=_one(r"\n    if measurement_num " + CMP + r" 0:", src, "measurement_num test"),
             inc=_one(r"if former_num_sum " + CMP + r" next_num_sum:", src, "increasing test"),
             hitoff=int(_one(r"if index \+ (\d+) == next_num_sum:", src, "hit test")),
             divoff=int(_one(r"cumulative_frequency / \(index \+ (\d+)\)", src, "divisor")))
    bigs = set(re.findall(r"if next_num_sum " + CMP + r" len\(data\):", src))
    rng = re.findall(r"if not 0 " + CMP + r" d " + CMP + r" measurement_num:", src)
    if len(bigs) != 1 or len(rng) != 1:
        raise Untranslatable("calc_empi_dist_sequence: cannot read the size / range tests")
    e.update(big=bigs.pop(), lo=rng[0][0], hi=rng[0][1])
    _match(src, T_CALC_EMPI % e, "data_generator.calc_empi_dist_sequence")
    tb["empi"] = e
    for name, tpl in (("generate_data_from_prob_dist", T_GEN_DATA), ("generate_dataset_from_prob_dists", T_DATASET),
                      ("generate_empi_dist_sequence_from_prob_dist", T_EMPI_SEQ),
                      ("generate_empi_dists_sequence_from_prob_dists", T_EMPIS_SEQ)):
        _match(_norm_src(_top(dg, name)), tpl, f"data_generator.{name}")
    md = _parse("quara/objects/multinomial_distribution.py")
    _match(_norm_src(_func(md, "MultinomialDistribution", "execute_random_sampling")), T_EXEC_SAMPLING,
           "MultinomialDistribution.execute_random_sampling")
    qt = _parse("quara/protocol/qtomography/qtomography.py")
    _match(_norm_src(_func(qt, "QTomography", "reset_seed")), T_RESET_SEED, "QTomography.reset_seed")
    ex = _parse(EXP)
    for name, tpl in T_EXP.items():
        _match(_norm_src(_func(ex, "Experiment", name)), tpl, f"Experiment.{name}")
    for cls, fn, par, attr, tidx in TOMO:
        t = _parse(STD + fn)
        for name, tpl in T_TOMO.items():
            _match(_norm_src(_func(t, cls, name)), tpl % dict(par=par, attr=attr, tidx=tidx), f"{cls}.{name}")
    return tb


def render(tb):
    q = tb["start"]
    qtxt = f"{q.numerator}" if q.denominator == 1 else f"mkRat {q.numerator} {q.denominator}"
    return "\n".join([
        "/-! GENERATED on every run by harness/c14_translate.py from quara/qcircuit/data_generator.py and",
        "quara/utils/number_util.py - do not edit. QModel.C14 is defined with these; QProps.C14 is stated about them. -/",
        "namespace QGen.C14",
        f"/-- `if random_number {tb['op']} cumulative_sum:` of `_random_number_to_data` (u = random number, c = running sum) -/",
        f"def hit (u c : Rat) : Bool := decide ({OPS[tb['op']]})",
        "/-- start value of the running sum -/",
        f"def cumStart : Rat := {qtxt}",
        f"/-- the backward loop after a fall-through: `for index in range(len - 1, -1, -1): if probdist[index] {tb['fop']} 0: return index` -/",
        f"def fallKeep (p : Rat) : Bool := decide (p {LOP[tb['fop']]} 0)",
        f"/-- the final `return len(probdist) - {tb['off']}` (no entry passes the backward test) -/",
        f"def fallThrough (len : Int) : Int := len - {tb['off']}",
        "/-- `to_stream`: what the branches for `None`, an `int`, anything else return.",
        "0 = numpy's global state (`np.random`), 1 = a fresh `Generator(MT19937(seed))`, 2 = the argument itself -/",
        f"def streamOfNone : Nat := {tb['stream'][0]}",
        f"def streamOfInt : Nat := {tb['stream'][1]}",
        f"def streamOfOther : Nat := {tb['stream'][2]}",
        "/-! `calc_empi_dist_sequence`: its tests and offsets -/",
        f"/-- `if measurement_num {tb['empi']['neg']} 0: raise` -/",
        f"def empiNegative (m : Int) : Bool := decide (m {LOP[tb['empi']['neg']]} 0)",
        f"/-- `if next_num_sum {tb['empi']['big']} len(data): raise` (both occurrences) -/",
        f"def empiTooLarge (n len : Int) : Bool := decide (n {LOP[tb['empi']['big']]} len)",
        f"/-- `if not 0 {tb['empi']['lo']} d {tb['empi']['hi']} measurement_num: raise` (the positive condition) -/",
        f"def empiInRange (d m : Int) : Bool := decide (0 {LOP[tb['empi']['lo']]} d ∧ d {LOP[tb['empi']['hi']]} m)",
        f"/-- `if index + {tb['empi']['hitoff']} == next_num_sum:` -/",
        f"def empiHit (index : Nat) (next : Int) : Bool := decide ((index : Int) + {tb['empi']['hitoff']} = next)",
        f"/-- divisor of `cumulative_frequency / (index + {tb['empi']['divoff']})` -/",
        f"def empiDiv (index : Nat) : Nat := index + {tb['empi']['divoff']}",
        f"/-- `if former_num_sum {tb['empi']['inc']} next_num_sum: raise` -/",
        f"def empiNotIncreasing (former next : Int) : Bool := decide (former {LOP[tb['empi']['inc']]} next)",
        "end QGen.C14", ""])


def translate():
    tb = extract()
    new = render(tb)
    path = os.path.join(LEAN, "QGen", "C14.lean")
    if not os.path.exists(path) or open(path).read() != new:
        open(path, "w").write(new)
    return tb
