"""C19 — analytical error formulas equal exact expectations: correspondence with QModel.C19 and property oracle.

Correspondence: the helpers of matrix_util / data_analysis and the analytical methods of the four standard
tomographies are compared with the exact-rational model on the same inputs; in addition the model's *exact
multinomial expectation* (complete enumeration by recursion, exact rationals) is compared with the
implementation's analytical value.
Oracle: independent numpy references on the real code (Born-rule probabilities, enumeration of all
multinomial outcomes, estimator errors through the real LinearEstimator, Fisher/CRB textbook formulas)."""
import itertools, math
import numpy as np
import shim  # noqa: F401
from common import Driver, q, qlist, ilist, unq, unqlist, close, allclose
import qobj
from quara.utils import matrix_util as mu
from quara.data_analysis import data_analysis as da
from quara.protocol.qtomography.standard.standard_qst import StandardQst
from quara.protocol.qtomography.standard.standard_povmt import StandardPovmt
from quara.protocol.qtomography.standard.standard_qpt import StandardQpt
from quara.protocol.qtomography.standard.standard_qmpt import StandardQmpt
from quara.protocol.qtomography.standard.linear_estimator import LinearEstimator

EPS8 = "1/100000000"
KINDS = ("qst", "povmt", "qpt", "qmpt")


# ----------------------------------------------------------------------------- translator: source -> lean/QGen/C19.lean
class Untranslatable(Exception):
    pass


def _fn_src(rel, name, cls=None):
    import ast, os, common
    tree = ast.parse(open(os.path.join(common.REPO, rel), encoding="utf-8").read())
    nodes = tree.body
    if cls is not None:
        cn = [n for n in nodes if isinstance(n, ast.ClassDef) and n.name == cls]
        if not cn:
            raise Untranslatable(f"{rel}: class {cls} not found")
        nodes = cn[0].body
    fn = [n for n in nodes if isinstance(n, ast.FunctionDef) and n.name == name]
    if not fn:
        return None
    b = fn[0].body
    if b and isinstance(b[0], ast.Expr) and isinstance(b[0].value, ast.Constant) and isinstance(b[0].value.value, str):
        b = b[1:]
    return [ast.unparse(x) for x in b]


def _need(rel, name, cls=None):
    b = _fn_src(rel, name, cls)
    if b is None:
        raise Untranslatable(f"{rel}: {(cls + '.') if cls else ''}{name} not found")
    return b


def _one(lines, pattern, where):
    import re
    hits = [m for l in lines for m in [re.fullmatch(pattern, l)] if m]
    if len(hits) != 1:
        raise Untranslatable(f"{where}: expected exactly one statement matching `{pattern}`, found {len(hits)}")
    return hits[0]


def translate(ctx):
    """constants and formula skeletons of the anchored functions, regenerated on every run"""
    import os, common
    from fractions import Fraction
    MU, DA = "quara/utils/matrix_util.py", "quara/data_analysis/data_analysis.py"
    SQ = "quara/protocol/qtomography/standard/standard_qtomography.py"
    SP, SM = "quara/protocol/qtomography/standard/standard_povmt.py", "quara/protocol/qtomography/standard/standard_qmpt.py"
    try:
        cov = _need(MU, "calc_covariance_mat")
        cov_ok = cov == ["mat = np.diag(q) - np.array([q]).T @ np.array([q])", "return mat / n"]
        if not cov_ok:
            raise Untranslatable(f"{MU}: calc_covariance_mat body {cov} is not `(diag q - q qT) / n`")
        ddof = int(_one(_need(MU, "calc_mse_prob_dists"), r"std = np\.std\(se_list, dtype=np\.float64, ddof=(\d+)\)", MU).group(1))
        ddof2 = int(_one(_need(DA, "_calc_mse_linear_analytical_mode_qoperation"),
                         r"if with_std:\n    std = np\.std\(points, dtype=np\.float64, ddof=(\d+)\)\n    return \(mse, std\)\nelse:\n    return mse", DA).group(1))
        eps = {}
        for fn in ("calc_fisher_matrix", "replace_prob_dist", "calc_fisher_matrix_total"):
            eps[fn] = Fraction(_one(_need(MU, fn), r"eps = eps if eps is not None else ([0-9.e\-]+)", f"{MU}:{fn}").group(1))
        size_expr = _one(_need(MU, "calc_fisher_matrix_total"), r"matrix_size = (.+)", MU).group(1)
        if size_expr != "len(grad_prob_dists[0][0])":
            raise Untranslatable(f"{MU}: calc_fisher_matrix_total sizes its accumulator by `{size_expr}`")
        inner = _one(_need(MU, "calc_fisher_matrix_total"), r"for index in range\(size_prob_dists\):\n    matrix \+= (.+)", MU).group(1)
        if inner != "weights[index] * calc_fisher_matrix(prob_dists[index], grad_prob_dists[index], eps=eps)":
            raise Untranslatable(f"{MU}: calc_fisher_matrix_total accumulates `{inner}`")
        sq = _one(_need(MU, "calc_direct_sum"), r"for i, diag in enumerate\(matrices\):\n(?:.|\n)*if diag\.shape\[0\] != diag\.shape\[(\d)\]:(?:.|\n)*", MU).group(1)
        if _need(MU, "calc_conjugate") != ["return x @ v @ x.T"]:
            raise Untranslatable(f"{MU}: calc_conjugate is not `x @ v @ x.T`")
        li = _one(_need(MU, "calc_left_inv"), r"left_inv = (.+)", MU).group(1)
        if li != "np.linalg.pinv(matrix.T @ matrix) @ matrix.T":
            raise Untranslatable(f"{MU}: calc_left_inv computes `{li}`")
        mats_off = int(_one(_need(SP, "_generate_matS", "StandardPovmt"), r"I_list = \[I for _ in range\(self\._num_outcomes - (\d+)\)\]", SP).group(1))
        _one(_need(SP, "_generate_matS", "StandardPovmt"), r"matS = np\.hstack\(I_list\)", SP)
        base_qop = _need(SQ, "_calc_mse_linear_analytical_mode_qoperation", "StandardQTomography") == \
            ["return self._calc_mse_linear_analytical_mode_var(qope, data_num_list)"]
        var_mode = _need(SQ, "_calc_mse_linear_analytical_mode_var", "StandardQTomography") == \
            ["val = np.trace(self.calc_covariance_linear_mat_total(qope, data_num_list))", "return val"]
        crb = _need(SQ, "_calc_cramer_rao_bound", "StandardQTomography") == \
            ["weights = [tmp_N / N for tmp_N in list_N]", "fisher = self.calc_fisher_matrix_total(var, weights)",
             "val = np.trace(np.linalg.inv(fisher)) / N", "return val"]
        if not (base_qop and var_mode and crb):
            raise Untranslatable(f"{SQ}: base-class object-mode / var-mode / CRB bodies changed ({base_qop}, {var_mode}, {crb})")
        qmpt_qop = _fn_src(SM, "_calc_mse_linear_analytical_mode_qoperation", "StandardQmpt") is not None
        qmpt_crb = _fn_src(SM, "calc_cramer_rao_bound", "StandardQmpt") is not None
        povm_qop = _need(SP, "_calc_mse_linear_analytical_mode_qoperation", "StandardPovmt")
        povm_sum = any("val = val_1st_term + val_2nd_term" in l for l in povm_qop) and any("if qope.on_para_eq_constraint:" in l for l in povm_qop)
        if not povm_sum:
            raise Untranslatable(f"{SP}: POVM object-mode MSE is no longer `first term + second term` under the flag")
        fq = _need(SQ, "calc_fisher_matrix", "StandardQTomography")
        size_pd = _one(fq, r"size_prob_dist = (.+)", SQ).group(1)
        if size_pd != "int(len(matA) / self.num_schedules)":
            raise Untranslatable(f"{SQ}: calc_fisher_matrix slices by `{size_pd}`")
    except Untranslatable as e:
        return [f"translator (QGen/C19.lean): {e}"]

    def rat(fr):
        return f"mkRat {fr.numerator} {fr.denominator}"
    L = ["/-! GENERATED by harness/c19.py:translate from the anchored sources on every run — do not edit.",
         "The formula skeletons (`calc_covariance_mat`, `calc_conjugate`, `calc_left_inv`, Fisher accumulation, base-class object mode,",
         "CRB, row slicing) are matched statement by statement by the translator (it fails loudly otherwise); the constants below are",
         "read from the source. -/", "namespace QGen.C19", "",
         f"/-- `ddof` of `np.std` in `matrix_util.calc_mse_prob_dists` / `data_analysis.calc_mse_qoperations` -/",
         f"def ddofMseProbDists : Nat := {ddof}", f"def ddofMseQoperations : Nat := {ddof2}",
         "/-- default `eps` of `calc_fisher_matrix`, `replace_prob_dist`, `calc_fisher_matrix_total` -/",
         f"def epsFisher : Rat := {rat(eps['calc_fisher_matrix'])}", f"def epsReplace : Rat := {rat(eps['replace_prob_dist'])}",
         f"def epsFisherTotal : Rat := {rat(eps['calc_fisher_matrix_total'])}",
         "/-- `_generate_matS`: `num_outcomes - matSOffset` identity blocks -/", f"def matSOffset : Nat := {mats_off}",
         "/-- the axis `calc_direct_sum` compares `shape[0]` with -/", f"def directSumSquareAxis : Nat := {sq}",
         "/-- does `StandardQmpt` override the object-mode MSE / the Cramér–Rao bound of the base class? -/",
         f"def qmptOverridesQop : Bool := {'true' if qmpt_qop else 'false'}", f"def qmptOverridesCrb : Bool := {'true' if qmpt_crb else 'false'}",
         "", "end QGen.C19", ""]
    path = os.path.join(common.LEAN, "QGen", "C19.lean")
    new = "\n".join(L)
    if not os.path.exists(path) or open(path).read() != new:
        open(path, "w").write(new)
    return []


# ----------------------------------------------------------------------------- tomography builders
def _tester_states(g, c, n, pure_first=True):
    out = []
    for i in range(n):
        rank = 1 if (pure_first and i % 2 == 0) else None
        out.append(qobj.rand_state(g, c, rank=rank))
    return out


def build(g, kind, flag, m=2, mo=2, boundary=False, c=None, counts=None):
    """(qt, true_object, info).  m: tester-POVM outcome count, mo: outcome count of the estimated POVM/MProcess.
    boundary=True: pure state / projective measurements (zero probabilities occur)."""
    c = c or qobj.csys("qubit")
    d = c.dim
    rank = 1 if boundary else None
    if kind == "qst":
        counts = counts or [m] * 3
        povms = [qobj.rand_povm(g, c, k) for k in counts]
        qt = StandardQst(povms, on_para_eq_constraint=flag)
        true = qobj.State(c, qobj.vec_of(c, qobj.rand_density(g, d, rank)), on_para_eq_constraint=flag)
        testers = {"povms": povms}
    elif kind == "povmt":
        states = _tester_states(g, c, d * d)
        qt = StandardPovmt(states, mo, on_para_eq_constraint=flag)
        mats = qobj.rand_povm_mats(g, d, mo, rank)
        true = qobj.Povm(c, [qobj.vec_of(c, e) for e in mats], on_para_eq_constraint=flag)
        testers = {"states": states}
    elif kind == "qpt":
        states = _tester_states(g, c, d * d)
        povms = [qobj.rand_povm(g, c, m) for _ in range(3)]
        qt = StandardQpt(states, povms, on_para_eq_constraint=flag)
        true = qobj.Gate(c, qobj.rand_gate(g, c, 1 if boundary else 2).hs, on_para_eq_constraint=flag)
        testers = {"states": states, "povms": povms}
    elif kind == "qmpt":
        states = _tester_states(g, c, d * d)
        povms = [qobj.rand_povm(g, c, m) for _ in range(3)]
        qt = StandardQmpt(states, povms, num_outcomes=mo, on_para_eq_constraint=flag)
        true, _ = qobj.rand_mprocess(g, c, mo, on_para_eq_constraint=flag)
        testers = {"states": states, "povms": povms}
    else:
        raise ValueError(kind)
    return qt, true, testers


_SIG = [np.array([[0, 1], [1, 0]], dtype=complex), np.array([[0, -1j], [1j, 0]]), np.array([[1, 0], [0, -1]], dtype=complex)]
AXES_SETS = [
    [(1, 0, 0), (0, 1, 0), (1, 0, 1)],            # X, Y, (X+Z)/sqrt2
    [(1, 1, 0), (0, 1, 1), (1, 0, 1)],            # a skew set
    [(0, 0, 1), (1, 2, 0), (2, -1, 1)],
    [(1, 1, 1), (1, -1, 0), (0, 1, -2)],
]


def _axis_mat(n):
    n = np.array(n, dtype=float); n = n / np.linalg.norm(n)
    return sum(a * sg for a, sg in zip(n, _SIG))


def unsharp_povm(c, axis, vis):
    ns_ = _axis_mat(axis)
    return qobj.Povm(c, [qobj.vec_of(c, (np.eye(2) + sgn * vis * ns_) / 2) for sgn in (1, -1)])


def build_special(g, kind, flag, special):
    """'det:k'  – boundary true object that makes schedule k (not the last) deterministic, testers of unequal
                  sensitivity (visibilities 1, 1/2, 4/5 …), so a zero covariance block sits in a non-last position;
       'axes:i' – state tomography with three *projective* testers along the fixed axis set i: every such matA has the
                  same shape and Frobenius norm, the left inverses differ."""
    c = qobj.csys("qubit")
    what, k = special.split(":"); k = int(k)
    if what == "det2":
        # TWO schedules with a zero-probability outcome (the true object is an eigenstate of two sharp testers), others unsharp
        ax = g.standard_normal(3)
        if kind == "qst":
            axes = [ax, g.standard_normal(3), -ax, g.standard_normal(3)]
            vis = [1.0, 0.6, 1.0, 0.8]
            order = [[0, 1, 2, 3], [1, 0, 3, 2], [1, 2, 3, 0]][k % 3]
            povms = [unsharp_povm(c, axes[i], vis[i]) for i in order]
            qt = StandardQst(povms, on_para_eq_constraint=flag)
            true = qobj.State(c, qobj.vec_of(c, (np.eye(2) + _axis_mat(ax)) / 2), on_para_eq_constraint=flag)
            return qt, true, {"povms": povms}
        states = _tester_states(g, c, 4, pure_first=False)
        i1, i2 = [(0, 2), (1, 3), (0, 1)][k % 3]
        states[i1] = qobj.State(c, qobj.vec_of(c, (np.eye(2) + _axis_mat(ax)) / 2))
        states[i2] = qobj.State(c, qobj.vec_of(c, (np.eye(2) - _axis_mat(ax)) / 2))
        qt = StandardPovmt(states, 2, on_para_eq_constraint=flag)
        pm = unsharp_povm(c, ax, 1.0)
        true = qobj.Povm(c, [np.array(v) for v in pm.vecs], on_para_eq_constraint=flag)
        return qt, true, {"states": states}
    if what == "nearpure":
        povms = [unsharp_povm(c, ax, 1.0) for ax in AXES_SETS[2]]          # first tester: Z
        qt = StandardQst(povms, on_para_eq_constraint=flag)
        delta = [1e-5, 1e-7][k % 2]
        true = qobj.State(c, qobj.vec_of(c, (np.eye(2) + (1 - delta) * _axis_mat((0, 0, 1))) / 2), on_para_eq_constraint=flag)
        return qt, true, {"povms": povms}
    if what == "axes":
        povms = [unsharp_povm(c, ax, 1.0) for ax in AXES_SETS[k]]
        qt = StandardQst(povms, on_para_eq_constraint=flag)
        true = qobj.State(c, qobj.vec_of(c, qobj.rand_density(g, 2)), on_para_eq_constraint=flag)
        return qt, true, {"povms": povms}
    if kind == "qst":
        axes = [g.standard_normal(3) for _ in range(3)]
        vis = [0.5, 0.8, 0.65]
        vis[k] = 1.0
        povms = [unsharp_povm(c, ax, v) for ax, v in zip(axes, vis)]
        qt = StandardQst(povms, on_para_eq_constraint=flag)
        true = qobj.State(c, qobj.vec_of(c, (np.eye(2) + _axis_mat(axes[k])) / 2), on_para_eq_constraint=flag)
        return qt, true, {"povms": povms}
    if kind == "povmt":
        ax = g.standard_normal(3)
        states = _tester_states(g, c, 4, pure_first=False)
        states[k] = qobj.State(c, qobj.vec_of(c, (np.eye(2) + _axis_mat(ax)) / 2))
        qt = StandardPovmt(states, 2, on_para_eq_constraint=flag)
        pm = unsharp_povm(c, ax, 1.0)
        true = qobj.Povm(c, [np.array(v) for v in pm.vecs], on_para_eq_constraint=flag)
        return qt, true, {"states": states}
    raise ValueError(special)


def born_probs(kind, true, testers):
    """outcome distributions from the Born rule on the coefficient vectors (independent of matA/vecB), one per schedule;
    `testers["pairs"]` (optional) lists the testers actually assigned to each schedule of a custom schedule list"""
    pairs = testers.get("pairs")
    if kind == "qst":
        sel = testers["povms"] if pairs is None else [testers["povms"][j] for j in pairs]
        return [np.array([v @ true.vec for v in p.vecs]) for p in sel]
    if kind == "povmt":
        sel = testers["states"] if pairs is None else [testers["states"][i] for i in pairs]
        return [np.array([v @ s.vec for v in true.vecs]) for s in sel]
    if pairs is None:
        pairs = [(i, j) for i in range(len(testers["states"])) for j in range(len(testers["povms"]))]
    if kind == "qpt":
        return [np.array([v @ (true.hs @ testers["states"][i].vec) for v in testers["povms"][j].vecs]) for i, j in pairs]
    if kind == "qmpt":
        return [np.array([v @ (hs @ testers["states"][i].vec) for hs in true.hss for v in testers["povms"][j].vecs])
                for i, j in pairs]


def with_schedules(g, kind, flag, testers, mo, full=False):
    """the same testers in an explicit, PERMUTED (qst: permuted subset) schedule list; returns (qt, testers + pairs)"""
    if kind == "qst":
        n = len(testers["povms"])
        pairs = [int(x) for x in g.permutation(n)][:n if full else max(3, n - 1)]
        if pairs == sorted(pairs):
            pairs = pairs[1:] + pairs[:1]
        qt = StandardQst(testers["povms"], on_para_eq_constraint=flag, schedules=[[("state", 0), ("povm", j)] for j in pairs])
    elif kind == "povmt":
        n = len(testers["states"])
        pairs = [int(x) for x in g.permutation(n)]
        if pairs == sorted(pairs):
            pairs = pairs[1:] + pairs[:1]
        qt = StandardPovmt(testers["states"], mo, on_para_eq_constraint=flag, schedules=[[("state", i), ("povm", 0)] for i in pairs])
    else:
        allp = [(i, j) for i in range(len(testers["states"])) for j in range(len(testers["povms"]))]
        pairs = [allp[int(x)] for x in g.permutation(len(allp))]
        if kind == "qpt":
            qt = StandardQpt(testers["states"], testers["povms"], on_para_eq_constraint=flag,
                             schedules=[[("state", i), ("gate", 0), ("povm", j)] for i, j in pairs])
        else:
            qt = StandardQmpt(testers["states"], testers["povms"], num_outcomes=mo, on_para_eq_constraint=flag,
                              schedules=[[("state", i), ("mprocess", 0), ("povm", j)] for i, j in pairs])
    return qt, {**testers, "pairs": pairs}


def compositions(n, m):
    if m == 1:
        yield (n,)
        return
    for k in range(n + 1):
        for r in compositions(n - k, m - 1):
            yield (k,) + r


def multinomial_outcomes(n, p):
    """all (empirical distribution, probability) pairs of Multinomial(n, p)"""
    for ks in compositions(n, len(p)):
        w = math.factorial(n)
        pr = 1.0
        for k, pi in zip(ks, p):
            w //= math.factorial(k)
            pr *= pi ** k if k else 1.0
        yield np.array(ks, dtype=float) / n, w * pr


def cov_enum(n, p):
    p = np.asarray(p, dtype=float)
    C = np.zeros((len(p), len(p)))
    for f, w in multinomial_outcomes(n, p):
        C += w * np.outer(f - p, f - p)
    return C


def block_diag(mats):
    n = sum(a.shape[0] for a in mats)
    out = np.zeros((n, n))
    i = 0
    for a in mats:
        k = a.shape[0]
        out[i:i + k, i:i + k] = a
        i += k
    return out


def jacobian_stacked(qt):
    """stacked vector of the estimated object as an affine function of the variables: (J, offset)"""
    nv = qt.calc_matA().shape[1]
    z = qt.convert_var_to_qoperation(np.zeros(nv)).to_stacked_vector()
    J = np.array([qt.convert_var_to_qoperation(e).to_stacked_vector() - z for e in np.eye(nv)]).T
    return J, z


def err_kind(e):
    s = str(e)
    if "non-negative number" in s and "weight" not in s:
        return "negative"
    if "size of prob_dist" in s or "size of prob_dists" in s:
        return "sizeMismatch"
    if "sum of prob_dist" in s:
        return "sumNotOne"
    if "eps must be a positive" in s:
        return "epsNonPos"
    if "square matrices" in s:
        return "nonSquare"
    if "broadcast" in s:
        return "broadcast"
    if "full rank" in s:
        return "rank"
    if "each weight" in s:
        return "weightNeg"
    if isinstance(e, IndexError):
        return "sizeMismatch" if "list index" in s else "empty"
    return type(e).__name__


def mat_tokens(a):
    a = np.asarray(a, dtype=float)
    return [a.shape[0], a.shape[1], qlist(a.flatten())]


def parse_mat(line):
    t = line.split()
    if t[0] == "err":
        return ("err", t[1])
    return ("ok", int(t[1]), int(t[2]), [float(x) for x in unqlist(t[3])])


def impl_mat(fn):
    try:
        a = np.asarray(fn(), dtype=float)
        return ("ok", a.shape[0], a.shape[1], [float(x) for x in a.flatten()])
    except Exception as e:  # noqa
        return ("err", err_kind(e))


def same_mat(a, b, tol=1e-9):
    if a[0] != b[0]:
        return False
    if a[0] == "err":
        return a[1] == b[1]
    scale = max([1.0] + [abs(x) for x in a[3]])
    return a[1:3] == b[1:3] and len(a[3]) == len(b[3]) and all(abs(x - y) <= tol * scale for x, y in zip(a[3], b[3]))


def dy(g, shape, bits=8, scale=1.0):
    return qobj.dyadic(g, shape, bits, scale)


def rand_prob(g, m, zeros=False, bits=10):
    w = g.integers(1, 2 ** bits, size=m).astype(float)
    if zeros and m > 2:
        w[int(g.integers(0, m))] = 0.0
    return w / w.sum()


# ----------------------------------------------------------------------------- correspondence
def correspondence(ctx):
    ctx.notes.append("not proved (oracle only): the QMPT object-parametrisation formula, which the code does not have (finding D13)")
    ctx.partial = []
    ctx.notes.append("fisherQtTotal (tomography-level total Fisher matrix) is stated structurally (sum of its terms, fisherQt_block per term); the "
                     "weights n_s/N of the Cramér–Rao bound are computed by the harness exactly as `_calc_cramer_rao_bound` does")
    drv = Driver("C19")
    pend = []   # (op, input, impl, idx, kind)

    def ask_mat(op, inp, impl, *toks):
        pend.append((op, inp, impl, drv.ask(op, *toks), "mat"))
        ctx.corr_ops.add(op)

    def ask_num(op, inp, impl, *toks, tol=1e-9):
        pend.append((op, inp, impl, drv.ask(op, *toks), ("num", tol)))
        ctx.corr_ops.add(op)

    g = ctx.npgen(1)
    N = 12 if ctx.quick else 60
    # ---- covariance (matrix_util + data_analysis twins), direct sum, conjugate, left inverse
    for t in range(N):
        m = int(g.integers(2, 6))
        p = rand_prob(g, m, zeros=(t % 3 == 0))
        n = int(g.integers(1, 2000))
        ask_mat("cov", (p.tolist(), n), impl_mat(lambda: mu.calc_covariance_mat(p, n)), qlist(p), n)
        ask_mat("cov", ("da", p.tolist(), n), impl_mat(lambda: da.calc_covariance_matrix_of_prob_dist(p, n)), qlist(p), n)
        ctx.case(("cov", tuple(p), n), sample={"op": "cov", "p": p.tolist(), "n": n})
        ctx.count(f"cov m={m}")
        # total: different outcome counts and sample sizes per block
        ks = [int(g.integers(2, 5)) for _ in range(int(g.integers(1, 5)))]
        ps = [rand_prob(g, k, zeros=(t % 4 == 1)) for k in ks]
        ns = [int(g.integers(1, 500)) for _ in ks]
        toks = [len(ks)] + [x for n_, p_ in zip(ns, ps) for x in (n_, qlist(p_))]
        ask_mat("covtot", (ns, [x.tolist() for x in ps]),
                impl_mat(lambda: mu.calc_covariance_mat_total(list(zip(ns, ps)))), *toks)
        toks2 = [len(ks)] + [x for p_ in ps for x in (ns[0], qlist(p_))]
        ask_mat("covtot", ("da", ns[0], [x.tolist() for x in ps]),
                impl_mat(lambda: da.calc_covariance_matrix_of_prob_dists(ps, ns[0])), *toks2)
        ctx.case(("covtot", tuple(ks), tuple(ns)), nontrivial=len(ks) > 1)
        # direct sum of arbitrary (non symmetric) square blocks, and of non-square ones
        blocks = [dy(g, (k, k)) for k in ks]
        if t % 4 == 2:
            blocks.insert(int(g.integers(0, len(blocks) + 1)), dy(g, (int(g.integers(2, 4)), 1)))
        if t % 4 == 3:
            blocks.append(dy(g, (2, 3)))
        if t % 3 == 0:      # an all-zero block in the first / a middle position
            blocks.insert(0 if t % 2 == 0 else max(1, len(blocks) // 2), np.zeros((int(g.integers(1, 3)),) * 2))
        toks = [len(blocks)] + [x for b in blocks for x in mat_tokens(b)]
        ask_mat("dsum", [b.tolist() for b in blocks], impl_mat(lambda: mu.calc_direct_sum(blocks)), *toks)
        ctx.case(("dsum", tuple(b.shape for b in blocks), t), nontrivial=len(blocks) > 1)
        ctx.count("dsum nonsquare" if t % 4 >= 2 else "dsum square")
        k, nn = int(g.integers(1, 5)), int(g.integers(1, 5))
        X, V = dy(g, (k, nn)), dy(g, (nn, nn))
        ask_mat("conj", (X.tolist(), V.tolist()), impl_mat(lambda: mu.calc_conjugate(X, V)),
                k, nn, qlist(X.flatten()), qlist(V.flatten()))
        ctx.case(("conj", k, nn, t))
        # left inverse: full-rank tall, rank-deficient
        mm, nn = int(g.integers(2, 7)), int(g.integers(1, 4))
        A = dy(g, (max(mm, nn), nn), bits=4)
        if t % 5 == 4 and nn > 1:
            A[:, -1] = A[:, 0] * 2
        rank = int(np.linalg.matrix_rank(A))
        G = np.linalg.pinv(A.T @ A)
        ask_mat("leftinv", (A.tolist(),), impl_mat(lambda: mu.calc_left_inv(A)),
                A.shape[0], A.shape[1], qlist(A.flatten()), rank, qlist(G.flatten()))
        # a different matrix of the same shape and the same Frobenius norm right afterwards
        A2 = A[::-1].copy()
        G2 = np.linalg.pinv(A2.T @ A2)
        ask_mat("leftinv", (A2.tolist(), "rows reversed"), impl_mat(lambda: mu.calc_left_inv(A2)),
                A2.shape[0], A2.shape[1], qlist(A2.flatten()), rank, qlist(G2.flatten()))
        ctx.case(("leftinv", A.shape, t), nontrivial=rank == nn)
        ctx.count("leftinv full" if rank == nn else "leftinv deficient")
    # ---- replace_prob_dist, Fisher matrix (validation branches included)
    for t in range(N):
        m = int(g.integers(2, 6))
        nv = int(g.integers(1, 5))
        p = rand_prob(g, m)
        mode = t % 6
        eps = 1e-8
        if mode == 1:      # entries below eps (replacement active)
            k = int(g.integers(0, m))
            p = p * (1 - 1e-10); p[k] = 1e-10 * 0.5; p = p / p.sum()
            eps = [1e-8, 1e-3][t % 2]
            if eps == 1e-3:
                p[k] = 1e-5; p /= p.sum()
        elif mode == 2:    # negative entry beyond tolerance
            p = p.copy(); p[0] = -0.25; p[1] += 0.25 + p[0] * 0 + (1 - p.sum())
        elif mode == 3:    # sum != 1
            p = p * 0.75
        elif mode == 4:    # eps <= 0 (after a distribution that validates with atol 0: exact dyadic sum)
            p = np.array([0.5, 0.25, 0.25][:3]); m = 3; eps = 0.0
        grads = [dy(g, (nv,), bits=4) for _ in range(m if mode != 5 else m + 1)]
        ask_mat("replace", (p.tolist(), eps), ("ok", 1, m, [float(x) for x in mu.replace_prob_dist(p, eps)]), qlist(p), q(eps))
        ask_mat("fisher", (p.tolist(), [x.tolist() for x in grads], eps),
                impl_mat(lambda: mu.calc_fisher_matrix(p, grads, eps=eps)),
                qlist(p), q(eps), len(grads), *[qlist(x) for x in grads])
        ctx.case(("fisher", tuple(p), nv, mode), nontrivial=mode in (0, 1), sample={"op": "fisher", "p": p.tolist(), "nv": nv})
        ctx.count(f"fisher mode={mode}")
        # total Fisher (outcome count == variable count is the only shape the code supports)
        S = int(g.integers(1, 4))
        for nv2 in (m, nv):
            pss = [rand_prob(g, m) for _ in range(S)]
            gss = [[dy(g, (nv2,), bits=4) for _ in range(m)] for _ in range(S)]
            ws = [float(x) for x in g.integers(0, 5, size=S)]
            if t % 7 == 6:
                ws[0] = -1.0
            if t % 5 == 3:      # wrong number of weights (one too few / one too many)
                ws = ws[:-1] if (t // 5) % 2 == 0 and S > 1 else ws + [1.0]
            toks = ["default", qlist(ws), S] + [qlist(x) for x in pss] + [S]
            for gs in gss:
                toks += [len(gs)] + [qlist(x) for x in gs]
            ask_mat("fishertot", ([x.tolist() for x in pss], nv2, ws),
                    impl_mat(lambda: mu.calc_fisher_matrix_total(pss, gss, ws)), *toks)
            ctx.case(("fishertot", m, nv2, S, t), nontrivial=nv2 == m)
            ctx.count("fishertot nv==m" if nv2 == m else "fishertot nv!=m")
    # ---- squared error statistics
    for t in range(N):
        S = int(g.integers(1, 4)); m = int(g.integers(2, 5)); R = int(g.integers(2, 6))
        xsl = [[dy(g, (m,)) for _ in range(S)] for _ in range(R)]
        ysl = [[dy(g, (m,)) for _ in range(S)] for _ in range(R)]
        se = float(mu.calc_se(xsl[0], ysl[0]))
        ask_num("se", t, se, S, *[qlist(x) for x in xsl[0]], S, *[qlist(y) for y in ysl[0]])
        mse, std = mu.calc_mse_prob_dists(xsl, ysl)
        toks = [R]
        for xs in xsl:
            toks += [S] + [qlist(x) for x in xs]
        toks += [R]
        for ys in ysl:
            toks += [S] + [qlist(y) for y in ys]
        pend.append(("mseprob", t, (float(mse), float(std) ** 2), drv.ask("mseprob", *toks), "pair"))
        ctx.corr_ops.add("mseprob")
        ctx.case(("se", t, S, m, R))
        # degenerate shapes: one repetition (std is nan), an array of length 1 (numpy broadcasts), mismatched lengths (numpy raises)
        with np.errstate(all="ignore"):
            one = ([xsl[0]], [ysl[0]])
            m1, s1 = mu.calc_mse_prob_dists(*one)
        pend.append(("mseprob", (t, "one repetition"), (float(m1), float(s1) ** 2),
                     drv.ask("mseprob", 1, S, *[qlist(x) for x in xsl[0]], 1, S, *[qlist(y) for y in ysl[0]]), "pair"))
        xb = [dy(g, (1,))] + xsl[0][1:]
        sb = float(mu.calc_se(xb, ysl[0]))
        ask_num("se", (t, "broadcast"), sb, S, *[qlist(x) for x in xb], S, *[qlist(y) for y in ysl[0]])
        if m > 2:
            xbad = [dy(g, (m - 1,))] + xsl[0][1:]
            try:
                mu.calc_se(xbad, ysl[0]); impl_bad = "ok"
            except ValueError:
                impl_bad = "err broadcast"
            pend.append(("se", (t, "length mismatch"), impl_bad,
                         drv.ask("se", S, *[qlist(x) for x in xbad], S, *[qlist(y) for y in ysl[0]]), "errkind"))
        # python's zip truncates the outer lists
        if S > 1:
            ask_num("se", (t, "outer truncation"), float(mu.calc_se(xsl[0][:-1], ysl[0])),
                    S - 1, *[qlist(x) for x in xsl[0][:-1]], S, *[qlist(y) for y in ysl[0]])
    # ---- the tomography formulas on real tomography objects
    gq = ctx.npgen(2)
    confs = []
    for kind in KINDS:
        for flag in (True, False):
            confs.append((kind, flag, 2, 2, False))
    confs += [("qst", True, 3, 2, False), ("qst", False, 4, 2, True), ("povmt", True, 2, 3, False),
              ("povmt", True, 2, 4, True), ("povmt", False, 2, 3, False), ("qpt", True, 3, 2, True)]
    if not ctx.quick:
        confs += [("qmpt", True, 2, 3, False), ("qmpt", False, 3, 2, False), ("qpt", False, 4, 2, False),
                  ("qst", True, 2, 2, True), ("povmt", False, 2, 2, True)] * 2
    for (kind, flag, m, mo, boundary) in confs:
        qt, true, testers = build(gq, kind, flag, m=m, mo=mo, boundary=boundary)
        S = qt.num_schedules
        ns = [int(x) for x in gq.integers(1, 200, size=S)]
        ps = qt.calc_prob_dists(true)
        A = qt.calc_matA()
        b = qt.calc_vecB()
        Ainv = mu.calc_left_inv(A)
        covargs = [S] + [x for n_, p_ in zip(ns, ps) for x in (n_, qlist(p_))]
        key = (kind, flag, m, mo, boundary)
        ctx.count(f"qt {kind} flag={flag}")
        ctx.case(("qt", key, tuple(ns)), sample={"op": "qt formulas", "kind": kind, "on_para_eq_constraint": flag,
                                                   "tester_outcomes": m, "object_outcomes": mo, "boundary": boundary})
        ask_mat("covtot", ("qt", key), impl_mat(lambda: qt.calc_covariance_mat_total(true, ns)), *covargs)
        ask_num("mseempi", key, float(qt.calc_mse_empi_dists_analytical(true, ns)), *covargs)
        ask_num("mselin", key + ("var",), float(qt.calc_mse_linear_analytical(true, ns, mode="var")),
                "var", 0, 0, Ainv.shape[0], qlist(Ainv.flatten()), *covargs, tol=1e-7)
        if kind == "povmt" and flag:
            ask_num("mselin", key + ("qoperation",), float(qt.calc_mse_linear_analytical(true, ns, mode="qoperation")),
                    "povmq", true.dim ** 2, mo, Ainv.shape[0], qlist(Ainv.flatten()), *covargs, tol=1e-7)
            S_impl = qt._generate_matS()
        else:  # the base class returns the var value
            ask_num("mselin", key + ("qoperation",), float(qt.calc_mse_linear_analytical(true, ns, mode="qoperation")),
                    "var", 0, 0, Ainv.shape[0], qlist(Ainv.flatten()), *covargs, tol=1e-7)
        # Fisher matrices per schedule and total, Cramér–Rao bound; interior objects only (clipping excluded)
        if not boundary:
            var = true.to_var()
            j = int(gq.integers(0, S))
            base = [A.shape[0], A.shape[1], qlist(A.flatten()), qlist(b), S]
            ask_mat("fisherqt", key + (j,), impl_mat(lambda: qt.calc_fisher_matrix(j, var)), *base, j, qlist(var), "default")
            Ntot = int(gq.integers(10, 1000))
            ws = [n_ / Ntot for n_ in ns]
            Ftot = qt.calc_fisher_matrix_total(var, ws)
            ask_mat("fisherqttot", key, impl_mat(lambda: Ftot), *base, qlist(ws), qlist(var), "default")
            Finv = np.linalg.inv(Ftot)
            crb = float(qt.calc_cramer_rao_bound(var, Ntot, ns))
            if kind == "povmt" and flag:
                ask_num("crbpovm", key, crb, true.dim ** 2, mo, qlist(Finv.flatten()), Ntot, tol=1e-7)
            else:
                ask_num("crb", key, crb, Finv.shape[0], qlist(Finv.flatten()), Ntot, tol=1e-7)
    # ---- the implied-element maps: _generate_matS of the real POVM tomography; Jacobian rows of the implied first row of a
    #      real MProcess (stacked vector as a function of the variables) = -matSQmpt
    for mo in (2, 3) if ctx.quick else (2, 3, 4):
        qtp, _, _ = build(gq, "povmt", True, mo=mo)
        ask_mat("mats", ("povmt", mo), impl_mat(lambda: qtp._generate_matS()), 4, mo)
        qtm, _, _ = build(gq, "qmpt", True, m=2, mo=mo)
        J, _ = jacobian_stacked(qtm)
        d2 = 4
        rows = J[(mo - 1) * d2 * d2:(mo - 1) * d2 * d2 + d2]
        ask_mat("matsqmpt", ("qmpt", mo), impl_mat(lambda: -rows), d2, mo)
        ctx.case(("implied-maps", mo), sample={"op": "matS / implied-row Jacobian", "outcomes": mo})
    # ---- exact expectation (model enumerates the multinomial law in exact rationals) vs analytical value
    ge = ctx.npgen(3)
    nmax = 5 if ctx.quick else 8
    reps = 8 if ctx.quick else 30
    for t in range(reps):
        m = 2 + t % 3
        n = 1 + (t * 3 + int(ge.integers(0, 2))) % nmax
        if m == 4 and n > 6:
            n = 6
        p = rand_prob(ge, m, zeros=(t % 5 == 4), bits=6)
        ask_mat("enumcov", (p.tolist(), n), impl_mat(lambda: mu.calc_covariance_mat(p, n)), qlist(p), n)
        ask_num("enummseempi", (p.tolist(), n), float(np.trace(mu.calc_covariance_mat(p, n))), qlist(p), n)
        ctx.case(("enumcov", tuple(p), n), sample={"op": "exact covariance by enumeration", "p": p.tolist(), "n": n})
        ctx.count(f"enum n={n}")
    # joint law through a real tomography: E||A^+(f-p)||^2 by complete enumeration vs calc_mse_linear_analytical
    jconfs = [("qst", True, 2, 2), ("qst", False, 2, 2), ("povmt", True, 2, 2), ("povmt", False, 2, 2)]
    if not ctx.quick:
        jconfs += [("qst", True, 3, 2), ("povmt", True, 2, 3)]
    for (kind, flag, m, mo) in jconfs:
        qt, true, testers = build(ge, kind, flag, m=m, mo=mo)
        S = qt.num_schedules
        ns = [int(x) for x in ge.integers(1, 3 if ctx.quick else 4, size=S)]
        ps = qt.calc_prob_dists(true)
        Ainv = mu.calc_left_inv(qt.calc_matA())
        mm = len(ps[0])
        toks = [mm, Ainv.shape[0], S]
        for s in range(S):
            toks += [ns[s], qlist(ps[s]), qlist(Ainv[:, s * mm:(s + 1) * mm].flatten())]
        ask_num("enummselin", (kind, flag, m, mo, ns), float(qt.calc_mse_linear_analytical(true, ns, mode="var")),
                *toks, tol=1e-7)
        ctx.case(("enummselin", kind, flag, tuple(ns)), sample={"op": "exact E||v^-v||^2 by enumeration", "kind": kind, "ns": ns})
    out = drv.run()
    for op, inp, impl, i, kindc in pend:
        line = out[i]
        if line == "bad-op":
            ctx.disagree(op, inp, impl, line); continue
        if kindc == "mat":
            mres = parse_mat(line) if not line.startswith("ok -") and op != "replace" else None
            if op == "replace":
                vals = [float(x) for x in unqlist(line.split()[1])]
                mres = ("ok", 1, len(vals), vals)
            if not same_mat(impl, mres, 1e-9 if op not in ("fisherqt", "fisherqttot") else 1e-7):
                ctx.disagree(op, inp, impl, line[:300])
        elif kindc == "pair":
            t = line.split()

            def same(a, tok, tol):
                if tok == "nan":
                    return a != a
                return a == a and close(a, unq(tok), tol)
            if t[0] != "ok" or not (same(impl[0], t[1], 1e-9) and same(impl[1], t[2], 1e-8)):
                ctx.disagree(op, inp, impl, line[:300])
        elif kindc == "errkind":
            if (line.split()[0] == "ok") != (impl == "ok") or (impl != "ok" and line != impl):
                ctx.disagree(op, inp, impl, line[:300])
        else:
            t = line.split()
            if t[0] != "ok" or not close(impl, unq(t[1]), kindc[1]):
                ctx.disagree(op, inp, impl, line[:300])


# ----------------------------------------------------------------------------- oracle
def _viol(ctx, sig, what, rep):
    ctx.violate(sig, what, rep)


def check_qt(ctx, kind, flag, m, mo, boundary, salt, nmax, joint=False, counts=None, special=None):
    """all analytical formulas of one tomography configuration against enumeration / textbook formulas"""
    g = ctx.npgen(salt)
    rep = {"kind": "qt", "tomo": kind, "flag": flag, "m": m, "mo": mo, "boundary": boundary, "salt": salt,
           "nmax": nmax, "joint": joint, "counts": counts, "special": special}
    tag = f"{kind}-{'on_para' if flag else 'free'}"
    if special and special.startswith("perm"):
        # explicit permuted schedule list: quantities must follow the tester ASSIGNED to each schedule
        full = special.endswith(":1")
        qt, true, testers = build(g, kind, flag, m=m, mo=mo, boundary=boundary,
                                  counts=([m] * 3 if full else [m] * 4) if kind == "qst" else None)
        qt, testers = with_schedules(g, kind, flag, testers, mo, full=full)
        rep["pairs"] = testers["pairs"]
    elif special:
        qt, true, testers = build_special(g, kind, flag, special)
    else:
        qt, true, testers = build(g, kind, flag, m=m, mo=mo, boundary=boundary, counts=counts)
    S = qt.num_schedules
    ns = [int(x) for x in g.integers(1, nmax + 1, size=S)]
    if special:   # pairwise different sample sizes
        ns = [2 + ((j * 2 + salt) % max(2, nmax - 1)) for j in range(S)]
        if len(set(ns)) < min(S, 3):
            ns = [2 + j % max(2, nmax - 1) for j in range(S)]
        if special.startswith("perm"):
            ns = [int(x) for x in (1 + g.permutation(max(S, nmax)))[:S]] if S <= 4 else [1 + (j * 5 + salt) % nmax for j in range(S)]
    p_ref = born_probs(kind, true, testers)
    rep["ns"] = ns
    ctx.case(("oracle-qt", kind, flag, m, mo, boundary, salt, special), sample={"op": "oracle", **{k: rep[k] for k in ("tomo", "flag", "m", "mo", "ns")}})
    unequal = len({len(p) for p in p_ref}) > 1
    try:
        ps = qt.calc_prob_dists(true)
        cov_tot = qt.calc_covariance_mat_total(true, ns)
        covs = [qt.calc_covariance_mat_single(true, s, ns[s]) for s in range(S)]
        mse_empi = qt.calc_mse_empi_dists_analytical(true, ns)
        mse_var = qt.calc_mse_linear_analytical(true, ns, mode="var")
        mse_qop = qt.calc_mse_linear_analytical(true, ns, mode="qoperation")
    except Exception as e:  # noqa
        sig = "C19/qt/unequal-outcome-counts/raises" if unequal else f"C19/qt/{tag}/raises"
        _viol(ctx, sig, f"{type(e).__name__}: {e} (outcome counts {[len(p) for p in p_ref]})", rep)
        return
    for s in range(S):
        if len(ps[s]) != len(p_ref[s]) or not np.allclose(ps[s], p_ref[s], atol=1e-9):
            _viol(ctx, "C19/qt/unequal-outcome-counts/wrong-values" if unequal else f"C19/prob_dists/{tag}", f"schedule {s}: calc_prob_dists {ps[s]} != Born rule {p_ref[s]}", rep)
            return
    # (1) exact covariance by enumeration of all multinomial outcomes
    V_enum = [cov_enum(ns[s], np.clip(p_ref[s], 0, None) / np.clip(p_ref[s], 0, None).sum()) for s in range(S)]
    for s in range(S):
        if covs[s].shape != V_enum[s].shape or not np.allclose(covs[s], V_enum[s], atol=1e-10):
            _viol(ctx, f"C19/covariance_single/{tag}",
                  f"schedule {s}, n={ns[s]}: analytical covariance differs from the enumerated E[(f-p)(f-p)^T] by "
                  f"{np.abs(covs[s] - V_enum[s]).max():.3e}", rep)
            return
    Vtot = block_diag(V_enum)
    if cov_tot.shape != Vtot.shape or not np.allclose(cov_tot, Vtot, atol=1e-10):
        _viol(ctx, f"C19/covariance_total/{tag}", "total covariance is not the block-diagonal of the schedules' exact covariances", rep)
        return
    # (2) mse of the empirical distributions
    ref = sum(sum(w * np.sum((f - p) ** 2) for f, w in multinomial_outcomes(n, p)) for n, p in
              ((ns[s], np.clip(p_ref[s], 0, None) / np.clip(p_ref[s], 0, None).sum()) for s in range(S)))
    if not close(mse_empi, ref, 1e-9):
        _viol(ctx, f"C19/mse_empi/{tag}", f"analytical {mse_empi} vs exact expectation {ref}", rep)
    # (3) mse of the linear estimate, both modes, by linearity with an independent pseudo-inverse
    A, b = qt.calc_matA(), qt.calc_vecB()
    Ap = np.linalg.pinv(A)
    W = Ap @ Vtot @ Ap.T
    J, _ = jacobian_stacked(qt)
    ref_var, ref_qop = np.trace(W), np.trace(J @ W @ J.T)
    # calc_left_inv goes through pinv(A^T A): its rounding error grows with cond(A)^2 (ill-conditioned random tester sets)
    tol_lin = max(1e-7, 1e-13 * float(np.linalg.cond(A)) ** 2)
    if not close(mse_var, ref_var, tol_lin):
        _viol(ctx, f"C19/mse_linear/var/{tag}", f"analytical {mse_var} vs exact E||v^-v||^2 = {ref_var}", rep)
    if not close(mse_qop, ref_qop, tol_lin):
        _viol(ctx, f"C19/mse_linear/qoperation/{tag}",
              f"analytical {mse_qop} vs exact E||stacked(v^)-stacked(v)||^2 = {ref_qop} (var-mode value {ref_var})", rep)
    # (4) scaling in n
    k = 7
    if not close(qt.calc_mse_linear_analytical(true, [k * n for n in ns], mode="qoperation") * k, mse_qop, 1e-9) or \
            not close(qt.calc_mse_empi_dists_analytical(true, [k * n for n in ns]) * k, mse_empi, 1e-9):
        _viol(ctx, f"C19/scaling/{tag}", "mse does not scale as 1/n", rep)
    # (5) full joint enumeration through the real LinearEstimator (tiny sizes)
    if joint:
        est = LinearEstimator()
        tv, ts = true.to_var(), true.to_stacked_vector()
        lists = [list(multinomial_outcomes(ns[s], ps[s])) for s in range(S)]
        ev = eq = 0.0
        for combo in itertools.product(*lists):
            w = float(np.prod([c[1] for c in combo]))
            if w == 0.0:
                continue
            empi = [(ns[s], combo[s][0]) for s in range(S)]
            res = est.calc_estimate(qt, empi)
            v = res.estimated_var
            ev += w * float(np.sum((v - tv) ** 2))
            eq += w * float(np.sum((qt.convert_var_to_qoperation(v).to_stacked_vector() - ts) ** 2))
        if not close(mse_var, ev, 1e-7):
            _viol(ctx, f"C19/mse_linear/var/{tag}/joint", f"analytical {mse_var} vs enumerated estimator error {ev}", rep)
        if not close(mse_qop, eq, 1e-7):
            _viol(ctx, f"C19/mse_linear/qoperation/{tag}", f"analytical {mse_qop} vs enumerated estimator error {eq}", rep)
    # (6) Fisher matrices and Cramér–Rao bound (interior objects: all probabilities far above eps)
    if boundary or min(float(np.min(p)) for p in p_ref) < 1e-4:
        return
    var = true.to_var()
    nv = len(var)

    def probs_at(v):
        obj = qt.convert_var_to_qoperation(v)
        return born_probs(kind, obj, testers)
    p0 = probs_at(var)
    grads = [probs_at(var + e) for e in np.eye(nv)]       # affine ⇒ exact gradient by unit differences
    Ntot = int(g.integers(20, 500))
    try:
        F_impl = [qt.calc_fisher_matrix(s, var) for s in range(S)]
        F_obj = qt.calc_fisher_matrix(0, true)
        ws = [n / Ntot for n in ns]
        Ft_impl = qt.calc_fisher_matrix_total(var, ws)
        crb = qt.calc_cramer_rao_bound(var, Ntot, ns)
    except Exception as e:  # noqa
        _viol(ctx, f"C19/fisher/{tag}/raises", f"{type(e).__name__}: {e}", rep)
        return
    F_ref = []
    for s in range(S):
        Gs = np.array([[grads[a][s][x] - p0[s][x] for a in range(nv)] for x in range(len(p0[s]))])
        F_ref.append(sum(np.outer(Gs[x], Gs[x]) / p0[s][x] for x in range(len(p0[s]))))
        if F_impl[s].shape != F_ref[s].shape or not np.allclose(F_impl[s], F_ref[s], rtol=1e-7, atol=1e-7):
            _viol(ctx, f"C19/fisher/{tag}", f"schedule {s}: Fisher matrix differs from sum_x grad p_x grad p_x^T / p_x by "
                  f"{np.abs(F_impl[s] - F_ref[s]).max():.3e}", rep)
            return
    if not np.allclose(F_obj, F_ref[0], rtol=1e-7, atol=1e-7):
        _viol(ctx, f"C19/fisher/{tag}/object-argument", "calc_fisher_matrix(0, object) differs from the variable call", rep)
    Ft_ref = sum(w * F for w, F in zip(ws, F_ref))
    if not np.allclose(Ft_impl, Ft_ref, rtol=1e-7, atol=1e-7):
        _viol(ctx, f"C19/fisher_total/{tag}", "total Fisher matrix is not the weighted sum of the schedules' matrices", rep)
        return
    Fi = np.linalg.inv(Ft_ref)
    crb_var, crb_obj = np.trace(Fi) / Ntot, np.trace(J @ Fi @ J.T) / Ntot
    if not close(crb, crb_obj, max(1e-6, 1e-12 * float(np.linalg.cond(Ft_ref)))):
        _viol(ctx, f"C19/crb/{tag}", f"Cramér–Rao bound {crb}: object parametrisation tr(J F^-1 J^T)/N = {crb_obj}, "
              f"variable parametrisation tr(F^-1)/N = {crb_var}", rep)
    # Cramér–Rao inequality for the unbiased linear estimate (N-independent form)
    crb_n = np.trace(np.linalg.inv(sum(n * F for n, F in zip(ns, F_ref))))
    # (needs a genuine statistical model: sum_x p_x(v) = 1 for every v, i.e. on_para_eq_constraint=True)
    if flag and crb_n > ref_var * (1 + 1e-6):
        _viol(ctx, f"C19/crb/{tag}/inequality", f"bound {crb_n} exceeds the exact mse {ref_var} of the unbiased linear estimate", rep)


def check_helpers(ctx, salt, n):
    g = ctx.npgen(salt)
    for t in range(n):
        rep = {"kind": "helpers", "salt": salt, "n": n}
        m = int(g.integers(2, 6)); nn = int(g.integers(1, 9))
        p = rand_prob(g, m, zeros=(t % 3 == 0), bits=8)
        ctx.case(("oracle-helpers", salt, t))
        # covariance vs enumeration (both twins)
        C = cov_enum(nn, p)
        for name, fn in (("matrix_util.calc_covariance_mat", mu.calc_covariance_mat),
                         ("data_analysis.calc_covariance_matrix_of_prob_dist", da.calc_covariance_matrix_of_prob_dist)):
            if not np.allclose(fn(p, nn), C, atol=1e-12):
                _viol(ctx, f"C19/{name}", f"p={p.tolist()} n={nn}: differs from the enumerated covariance by {np.abs(fn(p, nn) - C).max():.3e}",
                      {**rep, "p": p.tolist(), "nn": nn})
        # nearly deterministic distributions: exact rational reference, relative tolerance
        from fractions import Fraction as Fr
        for delta in (1e-5, 1e-7, 1e-9):
            for pn in (np.array([1 - delta, delta]), np.array([delta / 4, 1 - delta, 3 * delta / 4])):
                pf = [Fr(float(x)) for x in pn]
                ref = np.array([[float(((pf[i] if i == j else 0) - pf[i] * pf[j]) / nn) for j in range(len(pf))] for i in range(len(pf))])
                for name, fn in (("matrix_util.calc_covariance_mat", mu.calc_covariance_mat),
                                 ("data_analysis.calc_covariance_matrix_of_prob_dist", da.calc_covariance_matrix_of_prob_dist)):
                    got = fn(pn, nn)
                    if not np.allclose(got, ref, rtol=1e-6, atol=1e-9 * np.abs(ref).max()):
                        _viol(ctx, f"C19/{name}/nearly-deterministic", f"p={pn.tolist()} n={nn}: covariance {got.tolist()} vs exact {ref.tolist()}",
                              {**rep, "p": pn.tolist(), "nn": nn})
        # closed-form 1/N scaling far beyond enumeration: N = 1e6 … 1e13, exact rational reference, relative tolerance per entry
        pbig = rand_prob(g, int(g.integers(2, 5)), bits=6)
        for Nbig in (10 ** 6, 10 ** 9, 10 ** 12, 10 ** 13):
            pf = [Fr(float(x)) for x in pbig]
            refb = np.array([[float(((pf[i] if i == j else 0) - pf[i] * pf[j]) / Nbig) for j in range(len(pf))] for i in range(len(pf))])
            for name, fn in (("matrix_util.calc_covariance_mat", mu.calc_covariance_mat),
                             ("data_analysis.calc_covariance_matrix_of_prob_dist", da.calc_covariance_matrix_of_prob_dist)):
                gotb = fn(pbig, Nbig)
                if not np.allclose(gotb, refb, rtol=1e-9, atol=0.0):
                    _viol(ctx, f"C19/{name}/large-N", f"p={pbig.tolist()} N={Nbig}: covariance is not (diag p - p p^T)/N entrywise "
                          f"(max relative deviation {np.max(np.abs(gotb - refb) / np.abs(refb)):.2e})", {**rep, "p": pbig.tolist(), "N": Nbig})
                    break
        ks = [int(g.integers(1, 5)) for _ in range(int(g.integers(1, 5)))]
        blocks = [g.standard_normal((k, k)) for k in ks]
        if not np.array_equal(mu.calc_direct_sum(blocks), block_diag(blocks)):
            _viol(ctx, "C19/calc_direct_sum/layout", f"block sizes {ks}", rep)
        # all-zero blocks in first / middle / last position must still occupy their slot
        for pos in range(len(blocks) + 1):
            zb = blocks[:pos] + [np.zeros((int(g.integers(1, 4)),) * 2)] + blocks[pos:]
            if not np.array_equal(mu.calc_direct_sum(zb), block_diag(zb)):
                _viol(ctx, "C19/calc_direct_sum/zero-block", f"block sizes {[b.shape[0] for b in zb]}, all-zero block at position {pos}",
                      {**rep, "pos": pos})
                break
        ps = [rand_prob(g, k + 1) for k in ks]
        nsl = [int(g.integers(1, 50)) for _ in ks]
        refc = block_diag([(np.diag(x) - np.outer(x, x)) / n_ for x, n_ in zip(ps, nsl)])
        if not np.allclose(mu.calc_covariance_mat_total(list(zip(nsl, ps))), refc, atol=1e-14):
            _viol(ctx, "C19/matrix_util.calc_covariance_mat_total", f"sizes {ks}", rep)
        if not np.allclose(da.calc_covariance_matrix_of_prob_dists(ps, nsl[0]),
                           block_diag([(np.diag(x) - np.outer(x, x)) / nsl[0] for x in ps]), atol=1e-14):
            _viol(ctx, "C19/data_analysis.calc_covariance_matrix_of_prob_dists", f"sizes {ks}", rep)
        X, V = g.standard_normal((3, 4)), g.standard_normal((4, 4))
        if not np.allclose(mu.calc_conjugate(X, V), np.einsum("ai,ij,bj->ab", X, V, X), atol=1e-12):
            _viol(ctx, "C19/calc_conjugate", "x v x^T", rep)
        A = g.standard_normal((int(g.integers(3, 8)), 3))
        if not np.allclose(mu.calc_left_inv(A) @ A, np.eye(3), atol=1e-9):
            _viol(ctx, "C19/calc_left_inv", "L A != 1", rep)
        # distinct matrices of equal shape and equal Frobenius norm, one after another (row / column permutations, sign flips, rotations)
        rot, _ = np.linalg.qr(g.standard_normal((3, 3)))
        for name, A2 in (("rows reversed", A[::-1].copy()), ("columns permuted", A[:, [1, 2, 0]].copy()),
                         ("sign flipped", -A), ("rotated", A @ rot)):
            L2 = mu.calc_left_inv(A2)
            if not np.allclose(L2 @ A2, np.eye(3), atol=1e-8):
                _viol(ctx, "C19/calc_left_inv/sequence", f"left inverse of a second matrix with the same shape and norm ({name}) is not a left inverse: "
                      f"max |LA-1| = {np.abs(L2 @ A2 - np.eye(3)).max():.3e}", rep)
                break
        # squared error statistics
        R, S = int(g.integers(2, 7)), int(g.integers(1, 4))
        xsl = [[g.standard_normal(m) for _ in range(S)] for _ in range(R)]
        ysl = [[g.standard_normal(m) for _ in range(S)] for _ in range(R)]
        ses = [sum(float(np.sum((x - y) ** 2)) for x, y in zip(xs, ys)) for xs, ys in zip(xsl, ysl)]
        mse, std = mu.calc_mse_prob_dists(xsl, ysl)
        mean = sum(ses) / R
        sd = math.sqrt(sum((s - mean) ** 2 for s in ses) / (R - 1))
        if not close(mu.calc_se(xsl[0], ysl[0]), ses[0], 1e-12) or not close(mse, mean, 1e-12) or not close(std, sd, 1e-10):
            _viol(ctx, "C19/calc_mse_prob_dists", f"(mse,std)=({mse},{std}) vs mean {mean}, sample std(ddof=1) {sd}", rep)
        y = g.standard_normal(m)
        xs = [g.standard_normal(m) for _ in range(R)] + [y.copy(), y.copy()]      # samples that hit the true value exactly
        R = len(xs)
        refn = sum(float(np.linalg.norm(x - y)) ** 2 for x in xs) / R
        if not close(da.calc_mse_general_norm(xs, y, lambda a, b_: np.linalg.norm(a - b_)), refn, 1e-12):
            _viol(ctx, "C19/calc_mse_general_norm", "mean of squared norms", rep)
        # complete enumeration of all 2^N equally likely outcome sequences at p = (1/2, 1/2): the mean squared error of the
        # empirical distribution equals the analytical trace; for even N the outcome f = p (error exactly 0) occurs
        for N in (2, 3, 4):
            ph = np.array([0.5, 0.5])
            fs = [np.array([k, N - k], dtype=float) / N for k in (sum(bits) for bits in itertools.product((0, 1), repeat=N))]
            got = da.calc_mse_general_norm(fs, ph, lambda a, b_: np.linalg.norm(a - b_))
            want = float(np.trace(mu.calc_covariance_mat(ph, N)))
            if not close(got, want, 1e-12):
                _viol(ctx, "C19/calc_mse_general_norm/enumeration", f"N={N}, p=(1/2,1/2): mean squared error over all {2 ** N} outcome sequences "
                      f"{got} vs analytical trace {want}", rep)
                break
        # Fisher matrix helpers under default and NON-DEFAULT global tolerance (Settings.set_atol): the default eps of
        # calc_fisher_matrix is 1e-8 whatever the tolerance; probabilities above 1e-8 are used as they are
        from quara.settings import Settings
        atol0 = Settings.get_atol()
        for atol_ in (atol0, 1e-6, 1e-4):
            try:
                Settings.set_atol(atol_)
                msm = int(g.integers(2, 5)); nvs = int(g.integers(1, 4))
                psm = rand_prob(g, msm); psm = np.clip(psm, 0.05, None); psm[int(g.integers(0, msm))] = 2e-7; psm /= psm.sum()
                gsm = [g.standard_normal(nvs) for _ in range(msm)]
                want = sum(np.outer(gx, gx) / px for gx, px in zip(gsm, psm))
                got = mu.calc_fisher_matrix(psm, gsm)
                gott = mu.calc_fisher_matrix_total([psm], [gsm], [2.0])
                if not np.allclose(got, want, rtol=1e-9) or not np.allclose(gott, 2.0 * want, rtol=1e-9):
                    _viol(ctx, "C19/matrix_util.calc_fisher_matrix/non-default-atol",
                          f"Settings atol={atol_}, p={psm.tolist()}: Fisher matrix differs from sum_x g g^T / p by {np.abs(got - want).max():.3e} "
                          f"(relative {np.abs(got - want).max() / np.abs(want).max():.2e})", {**rep, "atol": atol_})
            finally:
                Settings.set_atol(atol0)
        # Fisher matrix helpers
        nv = int(g.integers(1, 5))
        pp = rand_prob(g, m)
        grads = [g.standard_normal(nv) for _ in range(m)]
        Fref = sum(np.outer(gx, gx) / px for gx, px in zip(grads, pp))
        if not np.allclose(mu.calc_fisher_matrix(pp, grads), Fref, rtol=1e-9):
            _viol(ctx, "C19/matrix_util.calc_fisher_matrix", "sum_x g g^T / p", rep)
        # clipping of small probabilities: mass is moved, not created (|sum change| <= clipped mass), uniform shift
        eps = [1e-3, 1e-2][t % 2]
        pc = np.clip(pp.copy(), 0.05, None)
        ksmall = [int(x) for x in g.permutation(m)[:(2 if m >= 3 else 1) + (1 if m >= 5 and t % 3 == 0 else 0)]]
        for kk, val in zip(ksmall, (1e-5, 3e-4, 2e-6)):
            pc[kk] = val                                   # several outcomes below eps in one distribution
        pc /= pc.sum()
        small = pc < eps
        r = mu.replace_prob_dist(pc, eps)
        shift = r[~small] - pc[~small]
        if not (np.all(r[small] == eps) and abs(r.sum() - pc.sum()) <= pc[small].sum() + 1e-12
                and np.allclose(shift, shift[0], atol=1e-15)
                and (pp.min() < eps or np.array_equal(mu.replace_prob_dist(pp, eps), pp))):
            _viol(ctx, "C19/replace_prob_dist", f"p={pc.tolist()} eps={eps}: replaced {r.tolist()} (sum {r.sum()})", {**rep, "p": pc.tolist()})
        rr = np.where(small, eps, pc - eps * small.sum() / (m - small.sum()))
        if not np.allclose(mu.calc_fisher_matrix(pc, grads, eps=eps), sum(np.outer(gx, gx) / px for gx, px in zip(grads, rr)), rtol=1e-9):
            _viol(ctx, "C19/matrix_util.calc_fisher_matrix/clipped", "sum_x g g^T / replaced p", rep)
        Sn = int(g.integers(1, 4))
        pss = [rand_prob(g, m) for _ in range(Sn)]
        gss = [[g.standard_normal(nv) for _ in range(m)] for _ in range(Sn)]
        ws = [float(x) for x in g.integers(1, 5, size=Sn)]
        Ft = sum(w * sum(np.outer(gx, gx) / px for gx, px in zip(gs, ps_)) for w, gs, ps_ in zip(ws, gss, pss))
        repf = {"kind": "fishertot", "m": m, "nv": nv, "pss": [x.tolist() for x in pss], "gss": [[x.tolist() for x in gs] for gs in gss], "ws": ws}
        try:
            got = mu.calc_fisher_matrix_total(pss, gss, ws)
            if got.shape != Ft.shape or not np.allclose(got, Ft, rtol=1e-9):
                sig = "C19/matrix_util.calc_fisher_matrix_total/size" if nv != m else "C19/matrix_util.calc_fisher_matrix_total/value"
                _viol(ctx, sig, f"{m} outcomes, {nv} variables: result shape {got.shape}, expected {Ft.shape}", repf)
        except ValueError as e:
            sig = "C19/matrix_util.calc_fisher_matrix_total/size" if nv != m else "C19/matrix_util.calc_fisher_matrix_total/raises"
            _viol(ctx, sig, f"{m} outcomes, {nv} variables: {e}", repf)
        # non-default eps with probabilities below it: total == sum_j w_j * single(p_j, grads_j, eps)
        eps2 = 1e-2
        pss2 = []
        for ps_ in pss:
            pz = np.clip(ps_.copy(), 0.05, None); pz[int(g.integers(0, m))] = 1e-4; pss2.append(pz / pz.sum())
        try:
            tot2 = mu.calc_fisher_matrix_total(pss2, gss, ws, eps=eps2)
            ref2 = sum(w * mu.calc_fisher_matrix(ps_, gs, eps=eps2) for w, ps_, gs in zip(ws, pss2, gss))
            rr2 = [np.where(ps_ < eps2, eps2, ps_ - eps2 * (ps_ < eps2).sum() / (m - (ps_ < eps2).sum())) for ps_ in pss2]
            ref3 = sum(w * sum(np.outer(gx, gx) / px for gx, px in zip(gs, r_)) for w, gs, r_ in zip(ws, gss, rr2))
            if tot2.shape == ref2.shape and (not np.allclose(tot2, ref2, rtol=1e-9) or not np.allclose(tot2, ref3, rtol=1e-9)):
                _viol(ctx, "C19/matrix_util.calc_fisher_matrix_total/eps", f"eps={eps2} with probabilities below it: total differs from "
                      f"sum_j w_j F_j(eps) by {np.abs(tot2 - ref2).max():.3e}", rep)
        except ValueError:
            pass    # shape defects are reported above
        for wbad, what in ((ws[:-1], "one weight too few"), (ws + [1.0], "one weight too many")):
            try:
                mu.calc_fisher_matrix_total(pss, gss, wbad)
                _viol(ctx, "C19/matrix_util.calc_fisher_matrix_total/weights-length", f"{what}: accepted ({Sn} distributions, {len(wbad)} weights)", rep)
            except ValueError:
                pass
            except Exception as e:  # noqa
                _viol(ctx, "C19/matrix_util.calc_fisher_matrix_total/weights-length", f"{what}: {type(e).__name__} instead of the documented ValueError", rep)
    # tomography-level Fisher matrix of a nearly pure state (outcome probability 5e-8) under a loosened global tolerance
    from quara.settings import Settings
    atol0 = Settings.get_atol()
    for flag in (True, False):
        qtn, truen, testn = build_special(g, "qst", flag, "nearpure:1")
        varn = np.array(truen.to_var(), dtype=np.float64)
        An, bn = qtn.calc_matA(), qtn.calc_vecB()
        pz = (An @ varn + bn)[:2]
        wantF = sum(np.outer(An[x], An[x]) / pz[x] for x in range(2))
        for atol_ in (atol0, 1e-6):
            try:
                Settings.set_atol(atol_)
                gotF = qtn.calc_fisher_matrix(0, varn)
            except Exception as e:  # noqa
                _viol(ctx, "C19/fisher/nearly-pure/raises", f"atol={atol_}: {type(e).__name__}: {e}", {"kind": "helpers", "salt": salt, "n": n})
                continue
            finally:
                Settings.set_atol(atol0)
            if pz.min() > 1e-8 and not np.allclose(gotF, wantF, rtol=1e-6):
                _viol(ctx, "C19/fisher/nearly-pure/non-default-atol" if atol_ != atol0 else "C19/fisher/nearly-pure",
                      f"Settings atol={atol_}, Z-schedule probabilities {pz.tolist()}: Fisher matrix differs from sum_x grad p grad p^T / p "
                      f"(relative {np.abs(gotF - wantF).max() / np.abs(wantF).max():.2e})", {"kind": "helpers", "salt": salt, "n": n})
    # non-square input of calc_direct_sum must be rejected (docstring: ValueError)
    try:
        r = mu.calc_direct_sum([np.eye(2), np.array([[1.0], [2.0]])])
        _viol(ctx, "C19/calc_direct_sum/nonsquare-accepted", f"a 2x1 block is accepted and broadcast: {r.tolist()}", {"kind": "dsum-nonsquare"})
    except ValueError:
        pass
    # calc_mse_qoperations on real objects of every type and both parametrisations: mean / std(ddof=1) of the squared
    # distance of the *whole* objects (all POVM elements, all HS rows), whatever the variable parametrisation
    c = qobj.csys("qubit")

    def whole(o):
        if hasattr(o, "hss"):
            return np.concatenate([np.asarray(h).flatten() for h in o.hss])
        if hasattr(o, "hs"):
            return np.asarray(o.hs).flatten()
        if hasattr(o, "vecs"):
            return np.concatenate([np.asarray(v) for v in o.vecs])
        return np.asarray(o.vec)
    for flag in (True, False):
        makers = {
            "state": lambda: qobj.State(c, qobj.vec_of(c, qobj.rand_density(g, 2)), on_para_eq_constraint=flag),
            "povm": lambda: qobj.Povm(c, [qobj.vec_of(c, e) for e in qobj.rand_povm_mats(g, 2, 3)], on_para_eq_constraint=flag),
            "gate": lambda: qobj.Gate(c, qobj.rand_gate(g, c).hs, on_para_eq_constraint=flag),
            "mprocess": lambda: qobj.rand_mprocess(g, c, 2, on_para_eq_constraint=flag)[0],
        }
        for name, mk in makers.items():
            xs = [mk() for _ in range(4)]
            y = mk()
            pts = [float(np.sum((whole(x) - whole(y)) ** 2)) for x in xs]
            mse, std = da.calc_mse_qoperations(xs, [y] * 4)
            mse2 = da.calc_mse_qoperations(xs, [y] * 4, with_std=False)
            ctx.case(("mse_qoperations", name, flag, salt))
            if not close(mse, np.mean(pts), 1e-10) or not close(std, np.std(pts, ddof=1), 1e-9) or not close(mse2, np.mean(pts), 1e-10):
                _viol(ctx, f"C19/calc_mse_qoperations/{name}-{'on_para' if flag else 'free'}",
                      f"(mse,std)=({mse},{std}) vs mean {np.mean(pts)} / std(ddof=1) {np.std(pts, ddof=1)} of the squared distances of the whole objects",
                      {"kind": "helpers", "salt": salt, "n": n})


def guarded(ctx, fn, *args, **kw):
    """run one oracle group; an unexpected exception raised by the real code is a violation (…/raises), not a crash"""
    import traceback
    try:
        return fn(*args, **kw)
    except Exception as e:  # noqa
        frames = [f for f in traceback.extract_tb(e.__traceback__) if "quara" in f.filename.replace("\\", "/").split("/harness/")[-1] and "/harness/" not in f.filename]
        where = (frames[-1].name if frames else fn.__name__)
        mod = (frames[-1].filename.split("/")[-1][:-3] if frames else "harness")
        ctx.violate(f"C19/{mod}.{where}/raises", f"{type(e).__name__}: {e} (inside {fn.__name__}{tuple(a for a in args[1:] if isinstance(a, (str, int, bool)))})",
                    {"kind": "guarded", "fn": fn.__name__, "args": [a for a in args[1:] if isinstance(a, (str, int, bool, type(None)))], "kw": {k: v for k, v in kw.items() if isinstance(v, (str, int, bool, type(None), list))}})


def oracle(ctx, volume=1):
    quick = ctx.quick and volume == 1
    nmax = 5 if quick else 8
    salt = 100
    confs = []
    for kind in KINDS:
        for flag in (True, False):
            confs.append((kind, flag, 2, 2, False, False))
    confs += [("qst", True, 3, 2, False, False), ("qst", False, 4, 2, True, False), ("povmt", True, 2, 3, False, False),
              ("povmt", False, 2, 4, True, False), ("qpt", True, 3, 2, True, False), ("qmpt", True, 2, 3, False, False),
              ("qst", True, 2, 2, False, True), ("qst", False, 2, 2, True, True), ("povmt", True, 2, 2, False, True)]
    if not quick:
        confs = confs * (2 * volume) + [("qmpt", False, 3, 2, False, False), ("qmpt", True, 3, 3, False, False),
                                        ("qpt", False, 4, 2, False, False), ("povmt", True, 2, 3, False, True),
                                        ("povmt", False, 2, 2, False, True), ("qst", True, 3, 2, False, True),
                                        ("povmt", True, 2, 4, False, False)]
    for (kind, flag, m, mo, boundary, joint) in confs:
        salt += 1
        ctx.count(f"oracle {kind} flag={flag}")
        guarded(ctx, check_qt, ctx, kind, flag, m, mo, boundary, salt, 2 if joint else nmax, joint=joint)
    # boundary true objects with a deterministic NON-LAST schedule (zero covariance block first / in the middle)
    for kind in ("qst", "povmt"):
        for flag in (True, False):
            for k in (0, 1) if kind == "qst" else (0, 2):
                salt += 1
                ctx.count(f"oracle deterministic schedule {kind} k={k}")
                guarded(ctx, check_qt, ctx, kind, flag, 2, 2, True, salt, nmax, special=f"det:{k}")
    # boundary objects with TWO schedules that contain a zero-probability outcome (each distribution is normalised on its own)
    for kind in ("qst", "povmt"):
        for k, flag in ((0, True), (1, False), (2, True)) if not quick else ((0, True), (1, False)):
            salt += 1
            ctx.count(f"oracle two deterministic schedules {kind}")
            guarded(ctx, check_qt, ctx, kind, flag, 2, 2, True, salt, nmax, special=f"det2:{k}")
    # nearly pure true state (Bloch vector (0,0,1-delta)): the covariance of the Z schedule is small, not zero
    for k, flag in ((0, True), (1, False)):
        salt += 1
        guarded(ctx, check_qt, ctx, "qst", flag, 2, 2, True, salt, nmax, special=f"nearpure:{k}")
    # explicit permuted (qst: permuted subset) schedule lists with pairwise different sample sizes, all four tomographies
    for kind in KINDS:
        for flag in (True, False) if (not quick or kind in ("qst", "povmt")) else (True,):
            salt += 1
            ctx.count(f"oracle custom schedule list {kind}")
            guarded(ctx, check_qt, ctx, kind, flag, 2, 2, False, salt, nmax, special="perm:0")
            if kind == "qst":       # all testers, permuted order
                salt += 1
                guarded(ctx, check_qt, ctx, kind, flag, 2, 2, False, salt, nmax, special="perm:1")
    # several DIFFERENT experiments with matA of equal shape and equal norm, back to back in this process
    for flag in (True, False):
        for i in range(len(AXES_SETS)):
            salt += 1
            ctx.count("oracle equal-norm tester sets in sequence")
            guarded(ctx, check_qt, ctx, "qst", flag, 2, 2, False, salt, nmax, special=f"axes:{i}", joint=(i == 1 and flag))
    # testers with different outcome counts (property: testers with 2..4 outcomes)
    for counts in ([2, 2, 3], [2, 3, 4]):
        salt += 1
        guarded(ctx, check_qt, ctx, "qst", True, 2, 2, False, salt, 3, counts=counts)
    guarded(ctx, check_helpers, ctx, 900, (6 if quick else 40) * volume)


def search(ctx):
    oracle(ctx, volume=3)


def replay(ctx, data):
    r = data["replay"]
    print("replaying", {k: v for k, v in r.items() if k not in ("pss", "gss")})
    before = len(ctx.violations)
    if r.get("kind") == "guarded":
        fn = globals()[r["fn"]]
        guarded(ctx, fn, ctx, *r["args"], **r.get("kw", {}))
        for v in ctx.violations[before:]:
            print(" ", v["signature"], "-", v["what"])
        return 1 if len(ctx.violations) > before else 0
    if r["kind"] == "qt" and str(r.get("special") or "").startswith("axes"):
        # sequence clause: the failure may depend on the experiments evaluated before in the same process
        for i in range(len(AXES_SETS)):
            check_qt(ctx, r["tomo"], r["flag"], r["m"], r["mo"], r["boundary"], r["salt"] - int(r["special"].split(":")[1]) + i,
                     r["nmax"], joint=False, special=f"axes:{i}")
    elif r["kind"] == "qt":
        check_qt(ctx, r["tomo"], r["flag"], r["m"], r["mo"], r["boundary"], r["salt"], r["nmax"], joint=r["joint"], counts=r.get("counts"), special=r.get("special"))
    elif r["kind"] == "helpers":
        check_helpers(ctx, r["salt"], r["n"])
    elif r["kind"] == "fishertot":
        pss = [np.array(x) for x in r["pss"]]
        gss = [[np.array(x) for x in gs] for gs in r["gss"]]
        ref = sum(w * sum(np.outer(gx, gx) / px for gx, px in zip(gs, ps_)) for w, gs, ps_ in zip(r["ws"], gss, pss))
        print("reference total Fisher matrix\n", ref)
        try:
            got = mu.calc_fisher_matrix_total(pss, gss, r["ws"])
            print("implementation\n", got)
            return 0 if got.shape == ref.shape and np.allclose(got, ref) else 1
        except Exception as e:  # noqa
            print("implementation raises", type(e).__name__, e)
            return 1
    elif r["kind"] == "dsum-nonsquare":
        try:
            print("implementation", mu.calc_direct_sum([np.eye(2), np.array([[1.0], [2.0]])]))
            return 1
        except ValueError as e:
            print("rejected:", e)
            return 0
    for v in ctx.violations[before:]:
        print(" ", v["signature"], "-", v["what"])
    return 1 if len(ctx.violations) > before else 0
