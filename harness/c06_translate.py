"""c06_translate — regenerates lean/QGen/C06.lean from quara/objects/operators.py with an `ast` skeleton matcher.

Translated fragments (a source that does not match the expected skeleton raises `Untranslatable`, loudly):
  * `_compose_qoperations_MProcess_MProcess`: nesting of the two `for` loops, operand order of the `@` product,
    operand order of the reported `shape`;
  * `_compose_qoperations_Povm_MProcess`: nesting of the loops and the expression `hs.T @ vec`;
  * `_compose_qoperations_MProcess_StateEnsemble` / `_compose_qoperations_Povm_StateEnsemble`: operand order of the
    reported shape;
  * `_compose_qoperations_MProcess_State_for_States`: which probability list the post states are divided by
    (`zip(Mx_rhos, <list>)`), and the truncation test `weight * p_x <= elem1.eps_zero`.
QProps/C06.lean proves the hand-written model equal to these generated definitions (`*_matches_source`)."""
import ast
import os

import common


class Untranslatable(Exception):
    pass


def fail(node, msg):
    raise Untranslatable(f"operators.py:{getattr(node, 'lineno', '?')}: {msg}: {ast.unparse(node)[:140]}")


def two_loops(fn, acc):
    """outermost `for a in X: for b in Y: <acc>.append(e)` -> (a, X, b, Y, e)"""
    for n in fn.body:
        if isinstance(n, ast.For) and len(n.body) == 1 and isinstance(n.body[0], ast.For) and not n.orelse:
            inner = n.body[0]
            if len(inner.body) == 1 and isinstance(inner.body[0], ast.Expr) and isinstance(inner.body[0].value, ast.Call) \
                    and ast.unparse(inner.body[0].value.func) == f"{acc}.append" and len(inner.body[0].value.args) == 1:
                return (ast.unparse(n.target), ast.unparse(n.iter), ast.unparse(inner.target), ast.unparse(inner.iter),
                        inner.body[0].value.args[0])
    fail(fn, f"no two-level loop appending to {acc}")


def shape_sum(fn, var="shape", which=-1):
    """`shape = A + B` (the `which`-th such assignment) -> (A, B) as source text"""
    found = [n for n in ast.walk(fn) if isinstance(n, ast.Assign) and ast.unparse(n.targets[0]) == var
             and isinstance(n.value, ast.BinOp) and isinstance(n.value.op, ast.Add)]
    if not found:
        fail(fn, f"no `{var} = A + B`")
    found.sort(key=lambda n: n.lineno)
    n = found[which]
    return ast.unparse(n.value.left), ast.unparse(n.value.right)


def translate():
    path = os.path.join(common.REPO, "quara", "objects", "operators.py")
    tree = ast.parse(open(path).read())
    fns = {n.name: n for n in tree.body if isinstance(n, ast.FunctionDef)}

    def need(name):
        if name not in fns:
            raise Untranslatable(f"{name} not found in operators.py")
        return fns[name]

    out = ["/-! GENERATED on every run by harness/c06.py:translate (harness/c06_translate.py) from quara/objects/operators.py — do not edit.",
           "Import-free; the scalar/matrix operations are parameters. -/", "namespace QGen.C06", ""]

    # ---- MProcess ∘ MProcess
    fn = need("_compose_qoperations_MProcess_MProcess")
    a, X, b, Y, e = two_loops(fn, "hss")
    src = {"elem1.hss": "hss1", "elem2.hss": "hss2"}
    if X not in src or Y not in src or X == Y:
        fail(fn, "unexpected loop sources")
    if not (isinstance(e, ast.BinOp) and isinstance(e.op, ast.MatMult) and {ast.unparse(e.left), ast.unparse(e.right)} == {a, b}):
        fail(e, "expected a product of the two loop variables")
    l, r = ast.unparse(e.left), ast.unparse(e.right)
    sl, sr = shape_sum(fn)
    sh = {"elem1.shape": "shape1", "elem2.shape": "shape2"}
    if sl not in sh or sr not in sh or sl == sr:
        fail(fn, "unexpected shape operands")
    out += [f"/-! ### operators.py:{fn.lineno} `_compose_qoperations_MProcess_MProcess` -/", "",
            "/-- the nested loops and the `@` product -/",
            "def mmCompose {α : Type} (matmul : α → α → α) (hss1 hss2 : List α) : List α :=",
            f"  {src[X]}.flatMap fun {a} => {src[Y]}.map fun {b} => matmul {l} {r}", "",
            "/-- the reported shape -/",
            "def mmShape (shape1 shape2 : List Nat) : List Nat :=",
            f"  {sh[sl]} ++ {sh[sr]}", ""]

    # ---- Povm ∘ MProcess
    fn = need("_compose_qoperations_Povm_MProcess")
    a, X, b, Y, e = two_loops(fn, "vecs")
    src = {"elem2.hss": "hss", "elem1.vecs": "vecs"}
    if X not in src or Y not in src or X == Y:
        fail(fn, "unexpected loop sources")
    hsvar = a if src[X] == "hss" else b
    vvar = b if src[X] == "hss" else a
    if ast.unparse(e) != f"{hsvar}.T @ {vvar}":
        fail(e, f"expected {hsvar}.T @ {vvar}")
    out += [f"/-! ### operators.py:{fn.lineno} `_compose_qoperations_Povm_MProcess` -/", "",
            "/-- the nested loops; `tmv hs v` stands for `hs.T @ v` -/",
            "def pmCompose {μ ν : Type} (tmv : μ → ν → ν) (vecs : List ν) (hss : List μ) : List ν :=",
            f"  {src[X]}.flatMap fun {a} => {src[Y]}.map fun {b} => tmv {hsvar} {vvar}", ""]

    # ---- shapes of MProcess ∘ StateEnsemble and Povm ∘ StateEnsemble
    fn = need("_compose_qoperations_MProcess_StateEnsemble")
    alls = [(ast.unparse(x.value.left), ast.unparse(x.value.right)) for x in ast.walk(fn)
            if isinstance(x, ast.Assign) and ast.unparse(x.targets[0]) == "shape"
            and isinstance(x.value, ast.BinOp) and isinstance(x.value.op, ast.Add)]
    if len(alls) != 2 or alls[0] != alls[1]:
        fail(fn, "expected the same `shape = A + B` in the zero-distribution branch and in the return branch")
    sl, sr = alls[0]
    sh = {"elem2.prob_dist.shape": "ensShape", "elem1.shape": "mpShape"}
    if sl not in sh or sr not in sh or sl == sr:
        fail(fn, "unexpected shape operands")
    out += [f"/-! ### operators.py:{fn.lineno} `_compose_qoperations_MProcess_StateEnsemble` -/", "",
            "def meShape (ensShape mpShape : List Nat) : List Nat :=", f"  {sh[sl]} ++ {sh[sr]}", ""]
    fn = need("_compose_qoperations_Povm_StateEnsemble")
    n = [x for x in ast.walk(fn) if isinstance(x, ast.Assign) and ast.unparse(x.targets[0]) == "shape"]
    if len(n) != 1:
        fail(fn, "expected one shape assignment")
    txt = ast.unparse(n[0].value)
    opts = {"tuple(list(elem2.prob_dist.shape) + elem1.nums_local_outcomes)": "ensShape ++ nums",
            "tuple(elem1.nums_local_outcomes + list(elem2.prob_dist.shape))": "nums ++ ensShape"}
    if txt not in opts:
        fail(n[0], "unexpected shape expression")
    out += [f"/-! ### operators.py:{fn.lineno} `_compose_qoperations_Povm_StateEnsemble` -/", "",
            "def peShape (ensShape nums : List Nat) : List Nat :=", f"  {opts[txt]}", ""]

    # ---- for_States: truncation test and the list the post states are divided by
    fn = need("_compose_qoperations_MProcess_State_for_States")
    tests = [x for x in ast.walk(fn) if isinstance(x, ast.If) and "eps_zero" in ast.unparse(x.test)]
    if not tests or any(ast.unparse(x.test) != "weight * p_x <= elem1.eps_zero" for x in tests):
        fail(fn, "unexpected truncation test")
    zips = [x for x in ast.walk(fn) if isinstance(x, ast.For) and isinstance(x.iter, ast.Call) and ast.unparse(x.iter.func) == "zip"
            and ast.unparse(x.iter.args[0]) == "Mx_rhos"]
    if len(zips) != 1 or len(zips[0].iter.args) != 2:
        fail(fn, "expected one `for Mx_rho, p_x in zip(Mx_rhos, <list>)`")
    lst = ast.unparse(zips[0].iter.args[1])
    raws = [x for x in ast.walk(fn) if isinstance(x, ast.Assign) and ast.unparse(x.targets[0]) == "ps_raw"]
    norm = [x for x in ast.walk(fn) if isinstance(x, ast.Assign) and ast.unparse(x.targets[0]) == "ps"
            and ast.unparse(x.value) == "ps / np.sum(ps)"]
    if lst == "ps_raw":
        if len(raws) != 1 or ast.unparse(raws[0].value) != "list(ps)" or len(norm) != 1 or raws[0].lineno > norm[0].lineno:
            fail(fn, "ps_raw must be a copy of ps taken before the renormalisation")
        use_raw = "true"
    elif lst == "ps":
        use_raw = "false"
    else:
        fail(zips[0], "unexpected list in zip")
    out += [f"/-! ### operators.py:{fn.lineno} `_compose_qoperations_MProcess_State_for_States` -/", "",
            "/-- the truncation test `weight * p_x <= elem1.eps_zero` -/",
            "def truncated {K : Type} [Mul K] [LE K] [DecidableLE K] (weight p_x eps_zero : K) : Bool :=",
            "  decide (weight * p_x ≤ eps_zero)", "",
            "/-- the post states are divided by the probabilities taken before the renormalisation -/",
            f"def postStatesUseRaw : Bool := {use_raw}", ""]

    # ---- eps_zero handed to the composite in G∘M, M∘G, M∘M, G∘StateEnsemble
    def eps_expr(call, who):
        kw = [k for k in call.keywords if k.arg == "eps_zero"]
        if not kw:
            return "(1 : Rat) / 100000000"          # constructor default 10 ** -8
        txt = ast.unparse(kw[0].value)
        table = {"elem1.eps_zero": "eps1", "elem2.eps_zero": "eps2",
                 "max(elem1.eps_zero, elem2.eps_zero)": "(if eps1 < eps2 then eps2 else eps1)",
                 "max(elem2.eps_zero, elem1.eps_zero)": "(if eps2 < eps1 then eps1 else eps2)"}
        if txt not in table:
            fail(call, f"unexpected eps_zero argument in {who}")
        return table[txt]

    def ctor_call(stmts, cls, who):
        calls = [x for st in stmts for x in ast.walk(st) if isinstance(x, ast.Call) and ast.unparse(x.func) == cls]
        if len(calls) != 1:
            fail(stmts[0], f"expected one {cls}(...) in {who}")
        return calls[0]

    disp = need("_compose_qoperations")
    branches = {}
    node = [x for x in disp.body if isinstance(x, ast.If) and "type(elem1) == Gate and type(elem2) == Gate" in ast.unparse(x.test)]
    if len(node) != 1:
        fail(disp, "dispatch chain not found")
    cur = node[0]
    while isinstance(cur, ast.If):
        branches[ast.unparse(cur.test)] = cur.body
        cur = cur.orelse[0] if len(cur.orelse) == 1 and isinstance(cur.orelse[0], ast.If) else None
    def br(t1, t2):
        key = f"type(elem1) == {t1} and type(elem2) == {t2}"
        if key not in branches:
            fail(disp, f"branch {key} not found")
        return branches[key]
    gm = eps_expr(ctor_call(br("Gate", "MProcess"), "MProcess", "Gate∘MProcess"), "Gate∘MProcess")
    mg = eps_expr(ctor_call(br("MProcess", "Gate"), "MProcess", "MProcess∘Gate"), "MProcess∘Gate")
    ge = eps_expr(ctor_call(br("Gate", "StateEnsemble"), "StateEnsemble", "Gate∘StateEnsemble"), "Gate∘StateEnsemble")
    mm = eps_expr(ctor_call(need("_compose_qoperations_MProcess_MProcess").body, "MProcess", "MProcess∘MProcess"), "MProcess∘MProcess")
    out += [f"/-! ### operators.py:{disp.lineno} `_compose_qoperations`: the `eps_zero` handed to the composite",
            "(`eps1` / `eps2` = `elem1.eps_zero` / `elem2.eps_zero`) -/", "",
            f"def gmEps (eps1 eps2 : Rat) : Rat := {gm}",
            f"def mgEps (eps1 eps2 : Rat) : Rat := {mg}",
            f"def mmEps (eps1 eps2 : Rat) : Rat := {mm}",
            f"def geEps (eps1 eps2 : Rat) : Rat := {ge}", ""]
    out += ["end QGen.C06", ""]
    new = "\n".join(out)
    dst = os.path.join(common.LEAN, "QGen", "C06.lean")
    if not os.path.exists(dst) or open(dst).read() != new:
        open(dst, "w").write(new)
    return []
