"""c02gen — ast skeleton matcher for the conversion code anchored by C02.

For each *site* (one statement / expression of the conversion functions that decides index order, operand order,
conjugation, transposition, flattening, guard condition or callee) the Python expression is located structurally in the
source of common.REPO and translated into a Lean term over the operations of QModel.C02 (`Mat.get`, `Mat.mul`,
`Mat.transpose`, `conjM`, `kron`, `vdot`, `flat`, `Mat.trace`, …).  The result is written to lean/QGen/C02.lean.
QProps/C02.lean proves, for every generated definition, that the hand-written model is built from exactly that term, so a
source edit at a site changes the generated definition and breaks a proof obligation (independently of any sampling).
Anything outside the supported expression grammar, a site that is not found exactly once, or an unexpected loop / tuple
structure raises `Untranslatable` (reported by ./check as a broken obligation).
"""
import ast
import os
import re


class Untranslatable(Exception):
    pass


M, S, B, V, I, R, C = "mat", "scalar", "basis", "vec", "idx", "rat", "crat"
KRON = {"np.kron", "mutil.kron", "matrix_util.kron", "sparse.kron"}
VDOT = {"vdot", "mutil.vdot", "matrix_util.vdot", "np.vdot"}
FLAT = {"mutil.flatten", "matrix_util.flatten"}


class Ex:
    """expression translator with a kind environment; `lets` are local single assignments that may be inlined"""

    def __init__(self, where, env, lets=None):
        self.where, self.env, self.lets = where, env, lets or {}

    def fail(self, node, msg):
        raise Untranslatable(f"{self.where}:{getattr(node, 'lineno', '?')}: {msg}: `{ast.unparse(node)}`")

    def tr(self, e):
        """-> (lean text, kind)"""
        if not isinstance(e, ast.Name) and ast.unparse(e) in self.env:
            return self.env[ast.unparse(e)]
        if isinstance(e, ast.Name):
            if e.id in self.env:
                return self.env[e.id]
            if e.id in self.lets:
                return self.tr(self.lets[e.id])
            self.fail(e, "unknown name")
        if isinstance(e, ast.Subscript):
            # x[a][b]
            if isinstance(e.value, ast.Subscript) and not isinstance(e.value.slice, ast.Tuple) and not isinstance(e.slice, ast.Tuple):
                v, k = self.tr(e.value.value)
                if k == M:
                    a, ka = self.tr(e.value.slice); b, kb = self.tr(e.slice)
                    if ka == I and kb == I:
                        return f"({v}).get {a} {b}", S
            v, k = self.tr(e.value)
            if k == M and isinstance(e.slice, ast.Tuple) and len(e.slice.elts) == 2:
                a, ka = self.tr(e.slice.elts[0]); b, kb = self.tr(e.slice.elts[1])
                if ka == I and kb == I:
                    return f"({v}).get {a} {b}", S
            if k == B and not isinstance(e.slice, ast.Tuple):
                a, ka = self.tr(e.slice)
                if ka == I:
                    return f"({v}).get {a}", M
            self.fail(e, "unsupported subscript")
        if isinstance(e, ast.BinOp):
            l, kl = self.tr(e.left); r, kr = self.tr(e.right)
            if isinstance(e.op, ast.Mult):
                if kl == S and kr == S:
                    return f"({l} * {r})", S
                if kl == S and kr == M:
                    return f"Mat.smul ({l}) ({r})", M
            if isinstance(e.op, ast.MatMult):
                if kl == M and kr == M:
                    return f"Mat.mul ({l}) ({r})", M
                if kl == M and kr == V:
                    return f"Mat.mulVec ({l}) ({r})", V
            if isinstance(e.op, ast.Pow) and kl == "nat" and kr == "nat":
                return f"({l} ^ {r})", "nat"
            self.fail(e, "unsupported binary operation")
        if isinstance(e, ast.Constant) and isinstance(e.value, int):
            return str(e.value), "nat"
        if isinstance(e, ast.Attribute):
            src = ast.unparse(e)
            if src in self.env:
                return self.env[src]
            v, k = self.tr(e.value)
            if e.attr == "T" and k == M:
                return f"Mat.transpose ({v})", M
            if e.attr == "imag" and k == C:
                return f"({v}).im", R
            if e.attr == "real" and k == C:
                return f"({v}).re", R
            self.fail(e, "unsupported attribute")
        if isinstance(e, ast.Call):
            f = ast.unparse(e.func)
            if f in KRON and len(e.args) == 2:
                a, ka = self.tr(e.args[0]); b, kb = self.tr(e.args[1])
                if ka == M and kb == M:
                    return f"kron ({a}) ({b})", M
            if f in VDOT and len(e.args) == 2 and not e.keywords:
                a, ka = self.tr(e.args[0]); b, kb = self.tr(e.args[1])
                if ka == M and kb == M:
                    return f"vdot ({a}) ({b})", S
            if f in ("np.conjugate", "np.conj") and len(e.args) == 1 and not e.keywords:
                a, ka = self.tr(e.args[0])
                return (f"conjM ({a})", M) if ka == M else (f"conj ({a})", S) if ka == S else self.fail(e, "conjugate of this kind")
            if f in FLAT and len(e.args) == 1 and not e.keywords:
                a, ka = self.tr(e.args[0])
                if ka == M:
                    return f"flat ({a})", V
            if f == "np.transpose" and len(e.args) == 1 and not e.keywords:
                a, ka = self.tr(e.args[0])
                if ka == M:
                    return f"Mat.transpose ({a})", M
            if f == "np.trace" and len(e.args) == 1 and not e.keywords:
                a, ka = self.tr(e.args[0])
                if ka == M:
                    return f"Mat.trace ({a})", S
            if f == "np.abs" and len(e.args) == 1 and not e.keywords:
                a, ka = self.tr(e.args[0])
                if ka == R:
                    return f"rabs ({a})", R
            if isinstance(e.func, ast.Attribute) and e.func.attr == "dot" and len(e.args) == 1 and not e.keywords:
                a, ka = self.tr(e.func.value); b, kb = self.tr(e.args[0])
                if ka == M and kb == V:
                    return f"Mat.mulVec ({a}) ({b})", V
            if isinstance(e.func, ast.Attribute) and e.func.attr == "reshape" and len(e.args) == 1 and not e.keywords \
                    and ast.unparse(e.args[0]) in ("(c_sys.dim, c_sys.dim)", "(self.dim, self.dim)"):
                a, ka = self.tr(e.func.value)
                if ka == V:
                    return f"unflat ({a})", M
            if isinstance(e.func, ast.Attribute) and not e.args and not e.keywords:
                if e.func.attr in ("conj", "conjugate"):
                    a, ka = self.tr(e.func.value)
                    return (f"conjM ({a})", M) if ka == M else (f"conj ({a})", S) if ka == S else self.fail(e, "conjugate of this kind")
                if e.func.attr == "flatten":
                    a, ka = self.tr(e.func.value)
                    if ka == M:
                        return f"flat ({a})", V
                if e.func.attr == "sum" and isinstance(e.func.value, ast.Call) and isinstance(e.func.value.func, ast.Attribute) \
                        and e.func.value.func.attr == "diagonal" and not e.func.value.args:
                    a, ka = self.tr(e.func.value.func.value)
                    if ka == M:
                        return f"Mat.trace ({a})", S
            self.fail(e, "unsupported call")
        if isinstance(e, ast.Compare) and len(e.ops) == 1 and isinstance(e.ops[0], ast.Lt):
            l, kl = self.tr(e.left); r, kr = self.tr(e.comparators[0])
            if kl == R and kr == R:
                return f"decide ({l} < {r})", "bool"
        self.fail(e, "unsupported expression")


# ----------------------------------------------------------------------------- locating sites
def find_fn(tree, name, cls=None):
    scope = tree.body
    if cls:
        cs = [n for n in tree.body if isinstance(n, ast.ClassDef) and n.name == cls]
        if len(cs) != 1:
            raise Untranslatable(f"class {cls} not found exactly once")
        scope = cs[0].body
    fs = [n for n in scope if isinstance(n, ast.FunctionDef) and n.name == name]
    if len(fs) != 1:
        raise Untranslatable(f"function {cls + '.' if cls else ''}{name} not found exactly once")
    return fs[0]


def lets_of(fn):
    """single-target `Name = expr` assignments of a function (a name assigned twice is not inlinable)"""
    out, seen = {}, {}
    for s in ast.walk(fn):
        if isinstance(s, ast.Assign) and len(s.targets) == 1 and isinstance(s.targets[0], ast.Name):
            seen[s.targets[0].id] = seen.get(s.targets[0].id, 0) + 1
            out[s.targets[0].id] = s.value
    return {k: v for k, v in out.items() if seen[k] == 1}


def one(nodes, what, where):
    nodes = list(nodes)
    if len(nodes) != 1:
        raise Untranslatable(f"{where}: expected exactly one {what}, found {len(nodes)}")
    return nodes[0]


def assign_to(fn, target_src, where, aug=False):
    if aug:
        return one((s for s in ast.walk(fn) if isinstance(s, ast.AugAssign) and isinstance(s.op, ast.Add) and ast.unparse(s.target) == target_src),
                   f"`{target_src} += …`", where)
    return one((s for s in ast.walk(fn) if isinstance(s, ast.Assign) and len(s.targets) == 1 and ast.unparse(s.targets[0]) == target_src),
               f"`{target_src} = …`", where)


def loop_vars(fn, iter_src, where):
    f = one((s for s in ast.walk(fn) if isinstance(s, ast.For) and ast.unparse(s.iter) == iter_src), f"`for … in {iter_src}`", where)
    t = f.target
    return [ast.unparse(x) for x in (t.elts if isinstance(t, ast.Tuple) else [t])]


def comp_gen(fn, where):
    """the single list comprehension `[elt for a, b in itertools.product(X, Y)]` of a function"""
    lc = one((s for s in ast.walk(fn) if isinstance(s, ast.ListComp)), "list comprehension", where)
    g = one(lc.generators, "generator", where)
    if g.ifs or not isinstance(g.iter, ast.Call) or ast.unparse(g.iter.func) != "itertools.product" or len(g.iter.args) != 2:
        raise Untranslatable(f"{where}: comprehension is not `for a, b in itertools.product(X, Y)`")
    names = [ast.unparse(x) for x in g.target.elts]
    return lc.elt, names, [ast.unparse(a) for a in g.iter.args]


HDR = "{K : Type} [Add K] [Mul K] [Zero K] [HasConj K]"


def generate(repo):
    """-> text of lean/QGen/C02.lean"""
    P = lambda rel: ast.parse(open(os.path.join(repo, rel)).read())
    gate, cs, mbm, mu, povm = (P("quara/objects/gate.py"), P("quara/objects/composite_system.py"), P("quara/objects/matrix_basis.py"),
                               P("quara/utils/matrix_util.py"), P("quara/objects/povm.py"))
    out = ["import QModel.C02",
           "/-! GENERATED on every run by harness/c02gen.py (ast skeleton matcher) from the Python sources of quara — do not edit.",
           "Each definition is the translation of ONE expression of the conversion code; QProps/C02.lean proves that the hand-written",
           "model QModel.C02 is built from exactly these terms. -/",
           "set_option linter.unusedVariables false",
           "namespace QGen.C02", "open QM QM.C02", ""]

    def emit(doc, sig, body):
        doc = re.sub(r"^(\S+?):\d+ ", r"\1 ", doc)   # no line numbers: an edit elsewhere in the file must not change the generated text
        out.append(f"/-- {doc} -/\ndef {sig} :=\n  {body}\n")

    # ---- gate.py
    w = "gate.py:to_choi_from_hs"
    f = find_fn(gate, "to_choi_from_hs")
    if loop_vars(f, "itertools.product(range(num_basis), range(num_basis))", w) != ["alpha", "beta"]:
        raise Untranslatable(f"{w}: loop variables are not (alpha, beta)")
    bb = assign_to(f, "bb", w) if False else None
    st = assign_to(f, "tmp", w)
    t, k = Ex(w, {"hs": ("hs", M), "bb": ("bb", M), "alpha": ("alpha", I), "beta": ("beta", I)}).tr(st.value)
    emit(f"{w}:{st.lineno} `{ast.unparse(st)}`", f"choiLoopTerm {HDR} {{m : Nat}} (hs bb : Mat K m m) (alpha beta : Fin m) : Mat K m m", t)
    cargs = [ast.unparse(a) for s in ast.walk(f) if isinstance(s, ast.Assign) and ast.unparse(s.targets[0]) == "bb" and isinstance(s.value, ast.Call)
             and ast.unparse(s.value.func) == "c_sys.basis_basisconjugate" for a in s.value.args]
    if cargs != ["(alpha, beta)"]:
        raise Untranslatable(f"{w}: `bb = c_sys.basis_basisconjugate((alpha, beta))` not found (got {cargs})")

    w = "gate.py:to_choi_from_hs_with_dict"
    f = find_fn(gate, "to_choi_from_hs_with_dict")
    if loop_vars(f, "non_zeros", w) != ["alpha", "beta", "coefficient"] or loop_vars(f, "itertools.product(range(num_basis), range(num_basis))", w) != ["i", "j"]:
        raise Untranslatable(f"{w}: unexpected loop variables")
    if ast.unparse(assign_to(f, "non_zeros", w).value) != "c_sys.dict_from_hs_to_choi.get((i, j), [])":
        raise Untranslatable(f"{w}: non_zeros is not the (i, j) entry of dict_from_hs_to_choi")
    st = assign_to(f, "choi[i, j]", w, aug=True)
    t, k = Ex(w, {"hs": ("hs", M), "coefficient": ("coefficient", S), "alpha": ("alpha", I), "beta": ("beta", I)}).tr(st.value)
    emit(f"{w}:{st.lineno} `{ast.unparse(st)}`", f"choiDictTerm {HDR} {{m : Nat}} (hs : Mat K m m) (alpha beta : Fin m) (coefficient : K) : K", t)

    w = "gate.py:to_choi_from_hs_with_sparsity"
    f = find_fn(gate, "to_choi_from_hs_with_sparsity")
    if ast.unparse(assign_to(f, "choi_vec", w).value) != "c_sys.basis_basisconjugate_T_sparse.dot(hs.flatten())":
        raise Untranslatable(f"{w}: choi_vec is not basis_basisconjugate_T_sparse.dot(hs.flatten())")
    rs = assign_to(f, "choi", w).value
    if not (isinstance(rs, ast.Call) and ast.unparse(rs.func) == "choi_vec.reshape" and len(rs.args) == 1 and isinstance(rs.args[0], ast.Tuple)):
        raise Untranslatable(f"{w}: choi is not choi_vec.reshape((r, c))")
    dims = [Ex(w, {"c_sys.dim": ("dim", "nat")}).tr(x)[0] for x in rs.args[0].elts]
    emit(f"{w}:{rs.lineno} reshape of the sparse product", "choiShape (dim : Nat) : Nat × Nat", f"({dims[0]}, {dims[1]})")

    w = "gate.py:to_hs_from_choi"
    f = find_fn(gate, "to_hs_from_choi")
    lets = lets_of(f)
    st = assign_to(f, "tr", w)
    t, k = Ex(w, {"b_bc": ("b_bc", M), "choi": ("choi", M)}, {"b_bc_dag": lets["b_bc_dag"]}).tr(st.value)
    emit(f"{w}:{st.lineno} `b_bc_dag = {ast.unparse(lets['b_bc_dag'])}`; `{ast.unparse(st)}`",
         f"hsLoopEntry {HDR} {{m : Nat}} (b_bc choi : Mat K m m) : K", t)
    if ast.unparse(assign_to(f, "b_bc", w).value) != "c_sys.basis_basisconjugate((alpha, beta))" or \
            ast.unparse(assign_to(f, "hs[alpha, beta]", w).value) != "tr.real.astype(np.float64)":
        raise Untranslatable(f"{w}: unexpected b_bc / hs[alpha, beta] assignment")

    w = "gate.py:to_hs_from_choi_with_dict"
    f = find_fn(gate, "to_hs_from_choi_with_dict")
    if loop_vars(f, "non_zeros", w) != ["i", "j", "coefficient"] or loop_vars(f, "itertools.product(range(num_basis), range(num_basis))", w) != ["alpha", "beta"]:
        raise Untranslatable(f"{w}: unexpected loop variables")
    if ast.unparse(assign_to(f, "non_zeros", w).value) != "c_sys.dict_from_choi_to_hs.get((alpha, beta), [])":
        raise Untranslatable(f"{w}: non_zeros is not the (alpha, beta) entry of dict_from_choi_to_hs")
    st = assign_to(f, "hs[alpha, beta]", w, aug=True)
    t, k = Ex(w, {"choi": ("choi", M), "coefficient": ("coefficient", S), "i": ("i", I), "j": ("j", I)}).tr(st.value)
    emit(f"{w}:{st.lineno} `{ast.unparse(st)}`", f"hsDictTerm {HDR} {{m : Nat}} (choi : Mat K m m) (i j : Fin m) (coefficient : K) : K", t)

    w = "gate.py:to_hs_from_choi_with_sparsity"
    f = find_fn(gate, "to_hs_from_choi_with_sparsity")
    if ast.unparse(assign_to(f, "hs_vec", w).value) != "c_sys.basisconjugate_basis_sparse.dot(mutil.flatten(choi))":
        raise Untranslatable(f"{w}: hs_vec is not basisconjugate_basis_sparse.dot(mutil.flatten(choi))")

    w = "gate.py:convert_hs"
    f = find_fn(gate, "convert_hs")
    elt, names, iters = comp_gen(f, w)
    if iters != ["to_basis", "from_basis"]:
        raise Untranslatable(f"{w}: product is not over (to_basis, from_basis)")
    t, k = Ex(w, {names[0]: ("(to_basis.get a)", M), names[1]: ("(from_basis.get b)", M)}).tr(elt)
    emit(f"{w}:{elt.lineno} `[{ast.unparse(elt)} for {', '.join(names)} in itertools.product(to_basis, from_basis)]` reshaped (n, n)",
         f"convertHsU {HDR} {{d n : Nat}} (from_basis to_basis : Basis K d n) : Mat K n n", f"Mat.ofFn fun a b => {t}")
    st = assign_to(f, "to_hs", w)
    t, k = Ex(w, {"U": ("U", M), "from_hs": ("from_hs", M)}).tr(st.value)
    emit(f"{w}:{st.lineno} `{ast.unparse(st)}`", f"convertHsFormula {HDR} {{n : Nat}} (U from_hs : Mat K n n) : Mat K n n", t)

    w = "matrix_basis.py:convert_vec"
    f = find_fn(mbm, "convert_vec")
    elt, names, iters = comp_gen(f, w)
    if iters != ["to_basis", "from_basis"]:
        raise Untranslatable(f"{w}: product is not over (to_basis, from_basis)")
    t, k = Ex(w, {names[0]: ("(to_basis.get a)", M), names[1]: ("(from_basis.get b)", M)}).tr(elt)
    emit(f"{w}:{elt.lineno} `[{ast.unparse(elt)} for {', '.join(names)} in itertools.product(to_basis, from_basis)]` reshaped (n, n)",
         f"convertVecRep {HDR} {{d n : Nat}} (from_basis to_basis : Basis K d n) : Mat K n n", f"Mat.ofFn fun a b => {t}")
    st = assign_to(f, "converted_vec", w)
    t, k = Ex(w, {"rep_mat": ("rep_mat", M), "from_vec": ("from_vec", V)}).tr(st.value)
    emit(f"{w}:{st.lineno} `{ast.unparse(st)}`", f"convertVecFormula {HDR} {{n : Nat}} (rep_mat : Mat K n n) (from_vec : Vec K n) : Vec K n", t)

    w = "gate.py:to_hs_from_kraus_matrices"
    f = find_fn(gate, "to_hs_from_kraus_matrices")
    lc = one((s for s in ast.walk(f) if isinstance(s, ast.ListComp)), "list comprehension", w)
    g = one(lc.generators, "generator", w)
    if ast.unparse(g.iter) != "kraus" or g.ifs:
        raise Untranslatable(f"{w}: comprehension is not over kraus")
    t, k = Ex(w, {ast.unparse(g.target): ("mat", M)}).tr(lc.elt)
    emit(f"{w}:{lc.lineno} `{ast.unparse(lc)}`", f"krausTensorTerm {HDR} {{d : Nat}} (mat : Mat K d d) : Mat K (d * d) (d * d)", t)
    if ast.unparse(assign_to(f, "hs", w).value) != "convert_hs(hs_cb, c_sys.comp_basis(), c_sys.basis())" or ast.unparse(assign_to(f, "hs_cb", w).value) != "sum(kraus_tensor)":
        raise Untranslatable(f"{w}: unexpected hs_cb / convert_hs call")

    w = "gate.py:to_process_matrix_from_hs"
    f = find_fn(gate, "to_process_matrix_from_hs")
    elt, names, iters = comp_gen(f, w)
    if iters != ["comp_basis", "comp_basis"] or ast.unparse(assign_to(f, "hs_comp", w).value) != "convert_hs(hs, c_sys.basis(), comp_basis)" \
            or ast.unparse(assign_to(f, "comp_basis", w).value) != "c_sys.comp_basis()":
        raise Untranslatable(f"{w}: unexpected comprehension / conversion")
    t, k = Ex(w, {names[0]: ("B_alpha", M), names[1]: ("B_beta", M), "hs_comp": ("hs_comp", M)}).tr(elt)
    emit(f"{w}:{elt.lineno} `{ast.unparse(elt)}`",
         f"processEntry {HDR} {{d : Nat}} (B_alpha B_beta : Mat K d d) (hs_comp : Mat K (d * d) (d * d)) : K", t)

    # callees of the variable <-> Choi glue, as model terms (D3 site: forward vs inverse conversion)
    CALLEE = {"to_hs_from_choi_with_sparsity": "hsOfChoiSparseRaw", "to_choi_from_hs_with_sparsity": "choiSparse"}
    for nm, target, arg, lean in (("to_var_from_choi", "hs", "choi", "toVarFromChoiHs"), ("to_choi_from_var", "choi", "hs", "toChoiFromVarChoi")):
        f = find_fn(gate, nm)
        v = assign_to(f, target, f"gate.py:{nm}").value
        if not (isinstance(v, ast.Call) and isinstance(v.func, ast.Name) and v.func.id in CALLEE and [ast.unparse(a) for a in v.args] == ["c_sys", arg] and not v.keywords):
            raise Untranslatable(f"gate.py:{nm}: `{target} = {ast.unparse(v)}` is not a call of a modelled conversion on (c_sys, {arg})")
        emit(f"gate.py:{nm} `{target} = {ast.unparse(v)}`",
             f"{lean} {HDR} {{d : Nat}} (B : Basis K d (d * d)) ({arg} : Mat K (d * d) (d * d)) : Mat K (d * d) (d * d)", f"{CALLEE[v.func.id]} B {arg}")

    # ---- state.py / povm.py: coefficient vector <-> matrix
    state = P("quara/objects/state.py")
    w = "state.py:to_density_matrix_from_vec"
    f = find_fn(state, "to_density_matrix_from_vec")
    t, k = Ex(w, {"c_sys.basis_T_sparse": ("basisT B", M), "vec": ("vec", V)}, lets_of(f)).tr(assign_to(f, "density", w).value)
    emit(f"{w} `density_vec = c_sys.basis_T_sparse.dot(vec)`; `density = density_vec.reshape((c_sys.dim, c_sys.dim))`",
         f"densitySparseTerm {HDR} {{d n : Nat}} (B : Basis K d n) (vec : Vec K n) : Mat K d d", t)
    w = "state.py:to_vec_from_density_matrix_with_sparsity"
    f = find_fn(state, "to_vec_from_density_matrix_with_sparsity")
    t, k = Ex(w, {"c_sys.basisconjugate_sparse": ("basisConj B", M), "density_matrix": ("density_matrix", M)}).tr(assign_to(f, "vec", w).value)
    emit(f"{w} `vec = {ast.unparse(assign_to(f, 'vec', w).value)}`",
         f"vecOfDensityTerm {HDR} {{d n : Nat}} (B : Basis K d n) (density_matrix : Mat K d d) : Vec K n", t)
    w = "povm.py:to_vec_from_matrix_with_sparsity"
    f = find_fn(povm, "to_vec_from_matrix_with_sparsity")
    t, k = Ex(w, {"c_sys.basisconjugate_sparse": ("basisConj B", M), "matrix": ("matrix", M)}).tr(assign_to(f, "vec", w).value)
    emit(f"{w} `vec = {ast.unparse(assign_to(f, 'vec', w).value)}`",
         f"povmVecOfMatrixTerm {HDR} {{d n : Nat}} (B : Basis K d n) (matrix : Mat K d d) : Vec K n", t)
    w = "povm.py:Povm.matrix_with_sparsity"
    f = find_fn(povm, "matrix_with_sparsity", "Povm")
    if ast.unparse(assign_to(f, "vec", w).value) != "self.vec(index)":
        raise Untranslatable(f"{w}: vec is not self.vec(index)")
    t, k = Ex(w, {"self.composite_system.basis_T_sparse": ("basisT B", M), "vec": ("vec", V)}, {"new_vec": lets_of(f)["new_vec"]}).tr(assign_to(f, "matrix", w).value)
    emit(f"{w} `vec = self.vec(index)`; `new_vec = self.composite_system.basis_T_sparse.dot(vec)`; `matrix = new_vec.reshape((self.dim, self.dim))`",
         f"povmMatrixSparseTerm {HDR} {{d n : Nat}} (B : Basis K d n) (vec : Vec K n) : Mat K d d", t)
    # the dense loops `X += coefficient * basis` over zip(vec, basis) (State.to_density_matrix, Povm.matrices, Povm.matrix)
    for lean, tree, cls, fn, acc, it in (("densityLoopTerm", state, "State", "to_density_matrix", "density", "zip(self._vec, self.composite_system.basis())"),
                                         ("povmMatricesLoopTerm", povm, "Povm", "matrices", "matrix", "zip(v, self.composite_system.basis())"),
                                         ("povmMatrixLoopTerm", povm, "Povm", "matrix", "matrix", "zip(vec, self.composite_system.basis())")):
        w = f"{cls}.{fn}"
        f = find_fn(tree, fn, cls)
        if loop_vars(f, it, w) != ["coefficient", "basis"]:
            raise Untranslatable(f"{w}: loop is not `for coefficient, basis in {it}`")
        st = assign_to(f, acc, w, aug=True)
        t, k = Ex(w, {"coefficient": ("coefficient", S), "basis": ("basis", M)}).tr(st.value)
        if k != M:
            raise Untranslatable(f"{w}: the summand is not a matrix")
        emit(f"{w} `for coefficient, basis in {it}: {ast.unparse(st)}`",
             f"{lean} {HDR} {{d : Nat}} (acc : Mat K d d) (coefficient : K) (basis : Mat K d d) : Mat K d d", f"Mat.add acc ({t})")

    # ---- composite_system.py: B_alpha (x) conj(B_beta) at its four sites
    for site, cls_fn in (("dense", "basis_basisconjugate"), ("dictFwd", "dict_from_hs_to_choi"), ("dictInv", "dict_from_choi_to_hs"), ("sparse", "_calc_basis_basisconjugate_sparse")):
        w = f"composite_system.py:{cls_fn}"
        f = find_fn(cs, cls_fn, "CompositeSystem")
        if loop_vars(f, "itertools.product(range(basis_no), range(basis_no))", w) != ["alpha", "beta"]:
            raise Untranslatable(f"{w}: loop variables are not (alpha, beta)")
        lets = lets_of(f)
        st = assign_to(f, "matrix", w)
        t, k = Ex(w, {"basis": ("basis", B), "alpha": ("alpha", I), "beta": ("beta", I)},
                  {x: lets[x] for x in ("b_alpha", "b_beta_conj") if x in lets}).tr(st.value)
        emit(f"{w}:{st.lineno} `b_alpha = {ast.unparse(lets['b_alpha'])}`; `b_beta_conj = {ast.unparse(lets['b_beta_conj'])}`; `{ast.unparse(st)}`",
             f"bbc_{site} {{K : Type}} [Mul K] [HasConj K] {{d n : Nat}} (basis : Basis K d n) (alpha beta : Fin n) : Mat K (d * d) (d * d)", t)
    f = find_fn(cs, "dict_from_hs_to_choi", "CompositeSystem")
    w = "composite_system.py:dict_from_hs_to_choi"
    apps = sorted({ast.unparse(s) for s in ast.walk(f) if isinstance(s, ast.Tuple) and len(s.elts) == 3})
    if apps != ["(alpha, beta, matrix[row_index, column_index])"] or loop_vars(f, "zip(row_indices, column_indices)", w) != ["row_index", "column_index"] \
            or not any(ast.unparse(s) == "self._dict_from_hs_to_choi[row_index, column_index]" for s in ast.walk(f)):
        raise Untranslatable(f"{w}: entries are not (alpha, beta, matrix[row_index, column_index]) keyed by (row_index, column_index)")
    f = find_fn(cs, "dict_from_choi_to_hs", "CompositeSystem")
    w = "composite_system.py:dict_from_choi_to_hs"
    apps = sorted({ast.unparse(s) for s in ast.walk(f) if isinstance(s, ast.Tuple) and len(s.elts) == 3})
    if apps != ["(row_index, column_index, matrix[row_index, column_index])"] or not any(ast.unparse(s) == "self._dict_from_choi_to_hs[alpha, beta]" for s in ast.walk(f)):
        raise Untranslatable(f"{w}: entries are not (row_index, column_index, matrix[row_index, column_index]) keyed by (alpha, beta)")
    # sparse tables: which transformation of the stacked rows is stored under which name, and the row length
    f = find_fn(cs, "_calc_basis_basisconjugate_sparse", "CompositeSystem")
    w = "composite_system.py:_calc_basis_basisconjugate_sparse"
    if ast.unparse(assign_to(f, "self._basisconjugate_basis_sparse", w).value) != "basis_basisconjugate_tmp.conjugate()" or \
            ast.unparse(assign_to(f, "self._basis_basisconjugate_T_sparse", w).value) != "basis_basisconjugate_tmp.T" or \
            ast.unparse(assign_to(f, "reshaped_matrix", w).value) != "matrix.reshape(1, element_size)":
        raise Untranslatable(f"{w}: the sparse tables are not tmp.conjugate() / tmp.T of row-reshaped matrices")
    st = assign_to(f, "element_size", w)
    t, k = Ex(w, {"basis[0].shape[0]": ("d", "nat")}).tr(st.value)
    emit(f"{w}:{st.lineno} `{ast.unparse(st)}`", "elementSize (d : Nat) : Nat", t)
    f = find_fn(cs, "_calc_basis_sparse", "CompositeSystem")
    w = "composite_system.py:_calc_basis_sparse"
    apps = {ast.unparse(s.func.value): s.args[0] for s in ast.walk(f) if isinstance(s, ast.Call) and isinstance(s.func, ast.Attribute) and s.func.attr == "append"}
    if set(apps) != {"basis_tmp", "basisconjugate_tmp"} or loop_vars(f, "basis", w) != ["b_alpha"] or \
            ast.unparse(assign_to(f, "self._basis_T_sparse", w).value) != "csr_matrix(basis_tmp.T)" or \
            ast.unparse(assign_to(f, "self._basisconjugate_sparse", w).value) != "csr_matrix(basisconjugate_tmp)":
        raise Untranslatable(f"{w}: unexpected row construction")
    for nm, key in (("basisRow", "basis_tmp"), ("basisConjRow", "basisconjugate_tmp")):
        t, k = Ex(w, {"b_alpha": ("b_alpha", M)}).tr(apps[key])
        emit(f"{w}:{apps[key].lineno} `{key}.append({ast.unparse(apps[key])})`", f"{nm} {{K : Type}} [HasConj K] {{d : Nat}} (b_alpha : Mat K d d) : Vec K (d * d)", t)

    # ---- matrix_basis.py: expansion helpers
    w = "matrix_basis.py:calc_matrix_expansion_coefficient"
    f = find_fn(mbm, "calc_matrix_expansion_coefficient")
    if loop_vars(f, "basis", w) != ["bi"]:
        raise Untranslatable(f"{w}: loop is not `for bi in basis`")
    st = assign_to(f, "c", w)
    t, k = Ex(w, {"bi": ("bi", M), "from_mat": ("from_mat", M)}).tr(st.value)
    emit(f"{w} `for bi in basis: {ast.unparse(st)}`", f"expansionCoeff {HDR} {{d : Nat}} (bi from_mat : Mat K d d) : K", t)
    w = "matrix_basis.py:calc_mat_from_coefficient_basis"
    f = find_fn(mbm, "calc_mat_from_coefficient_basis")
    if loop_vars(f, "enumerate(basis)", w) != ["i", "bi"] or ast.unparse(assign_to(f, "ci", w).value) != "coeff[i]":
        raise Untranslatable(f"{w}: loop is not `for i, bi in enumerate(basis): ci = coeff[i]`")
    st = assign_to(f, "mat", w, aug=True)
    t, k = Ex(w, {"ci": ("ci", S), "bi": ("bi", M)}).tr(st.value)
    emit(f"{w} `for i, bi in enumerate(basis): ci = coeff[i]; {ast.unparse(st)}`",
         f"matFromCoeffTerm {HDR} {{d : Nat}} (acc : Mat K d d) (ci : K) (bi : Mat K d d) : Mat K d d", f"Mat.add acc ({t})")

    # ---- matrix_basis.py: loop nests of get_comp_basis
    w = "matrix_basis.py:get_comp_basis"
    f = find_fn(mbm, "get_comp_basis")
    branches = {}
    node = one((s for s in f.body if isinstance(s, ast.If)), "if/elif chain on mode", w)
    while isinstance(node, ast.If):
        test = ast.unparse(node.test)
        outer = one((s for s in node.body if isinstance(s, ast.For)), "outer loop", w)
        inner = one((s for s in outer.body if isinstance(s, ast.For)), "inner loop", w)
        if ast.unparse(outer.iter) != "range(dim)" or ast.unparse(inner.iter) != "range(dim)":
            raise Untranslatable(f"{w}: loops are not over range(dim)")
        asg = one((s for s in inner.body if isinstance(s, ast.Assign) and isinstance(s.targets[0], ast.Subscript)), "matrix-unit assignment", w)
        if ast.unparse(asg.value) != "1" or ast.unparse(asg.targets[0].value) != "tmp_basis":
            raise Untranslatable(f"{w}: not `tmp_basis[r, c] = 1`")
        env = {ast.unparse(outer.target): "outer", ast.unparse(inner.target): "inner"}
        idx = [env.get(ast.unparse(x)) for x in asg.targets[0].slice.elts]
        if None in idx or len(idx) != 2:
            raise Untranslatable(f"{w}: index is not a pair of the loop variables")
        branches[test] = (idx, asg.lineno)
        node = node.orelse[0] if len(node.orelse) == 1 and isinstance(node.orelse[0], ast.If) else None
    if set(branches) != {"mode == 'row_major'", "mode == 'column_major'"}:
        raise Untranslatable(f"{w}: branches {sorted(branches)}")
    r, c_ = branches["mode == 'row_major'"][0], branches["mode == 'column_major'"][0]
    emit(f"{w}:{branches[chr(109) + 'ode == ' + repr('row_major')][1]} position of the 1 in the basis element built at loop step (outer, inner)",
         "compEntry (rowMajor : Bool) (outer inner : Nat) : Nat × Nat", f"if rowMajor then ({r[0]}, {r[1]}) else ({c_[0]}, {c_[1]})")

    # ---- matrix_util.py
    w = "matrix_util.py:vdot"
    f = find_fn(mu, "vdot")
    ret = one((s for s in ast.walk(f) if isinstance(s, ast.Return)), "return", w)
    t, k = Ex(w, {"a": ("a", M), "b": ("b", M)}).tr(ret.value)
    emit(f"{w}:{ret.lineno} `{ast.unparse(ret)}`", f"mutilVdot {HDR} {{m n : Nat}} (a b : Mat K m n) : K", t)
    w = "matrix_util.py:flatten"
    f = find_fn(mu, "flatten")
    ret = one((s for s in ast.walk(f) if isinstance(s, ast.Return)), "return", w)
    t, k = Ex(w, {"matrix": ("matrix", M)}).tr(ret.value)
    emit(f"{w}:{ret.lineno} `{ast.unparse(ret)}`", "mutilFlatten {K : Type} {m n : Nat} (matrix : Mat K m n) : Vec K (m * n)", t)
    # truncate_hs: the two thresholds and the raise condition
    w = "matrix_util.py:truncate_imaginary_part"
    f = find_fn(mu, "truncate_imaginary_part")
    ret = one((s for s in ast.walk(f) if isinstance(s, ast.Return)), "return", w)
    rv = ret.value
    if not (isinstance(rv, ast.Call) and ast.unparse(rv.func) == "np.where" and len(rv.args) == 3 and ast.unparse(rv.args[1]) == "matrix.real" and ast.unparse(rv.args[2]) == "matrix"):
        raise Untranslatable(f"{w}: not np.where(cond, matrix.real, matrix)")
    t, k = Ex(w, {"matrix": ("z", C), "eps": ("eps", R)}).tr(rv.args[0])
    emit(f"{w}:{ret.lineno} `{ast.unparse(ret)}` (entrywise condition)", "truncImagCond (eps : Rat) (z : CRat) : Bool", t)
    w = "matrix_util.py:truncate_computational_fluctuation"
    f = find_fn(mu, "truncate_computational_fluctuation")
    ret = one((s for s in ast.walk(f) if isinstance(s, ast.Return)), "return", w)
    rv = ret.value
    if not (isinstance(rv, ast.Call) and ast.unparse(rv.func) == "np.where" and len(rv.args) == 3 and ast.unparse(rv.args[1]) == "0.0" and ast.unparse(rv.args[2]) == "matrix"):
        raise Untranslatable(f"{w}: not np.where(cond, 0.0, matrix)")
    t, k = Ex(w, {"matrix": ("x", R), "eps": ("eps", R)}).tr(rv.args[0])
    emit(f"{w}:{ret.lineno} `{ast.unparse(ret)}` (entrywise condition, on the real matrix)", "truncFluctCond (eps : Rat) (x : Rat) : Bool", t)
    w = "matrix_util.py:truncate_hs"
    f = find_fn(mu, "truncate_hs")
    conds = [ast.unparse(s.test) for s in ast.walk(f) if isinstance(s, ast.If)]
    calls = [ast.unparse(assign_to(f, "tmp_hs", w).value) if False else None]
    srcs = [ast.unparse(s) for s in f.body if not (isinstance(s, ast.Expr) and isinstance(s.value, ast.Constant))]
    expect = ["tmp_hs = truncate_imaginary_part(hs, eps=eps_truncate_imaginary_part)",
              "if is_zero_imaginary_part_required == True and np.any(tmp_hs.imag != 0):",
              "if is_zero_imaginary_part_required == True:\n    tmp_hs = tmp_hs.real.astype(np.float64)",
              "truncated_hs = truncate_computational_fluctuation(tmp_hs, eps_truncate_imaginary_part)", "return truncated_hs"]
    ok = len(srcs) == 5 and srcs[0] == expect[0] and srcs[1].startswith(expect[1]) and "raise ValueError" in srcs[1] and srcs[2] == expect[2] \
        and srcs[3] == expect[3] and srcs[4] == expect[4]
    if not ok:
        raise Untranslatable(f"{w}: the body is not guard -> raise -> .real -> fluctuation cut (found {srcs})")
    emit(f"{w}: statement skeleton `truncate_imaginary_part; if any(imag != 0): raise; .real; truncate_computational_fluctuation` matched",
         "truncEntryGen (eps : Rat) (z : CRat) : Except Err Rat",
         "if !(truncImagCond eps z) && z.im != 0 then .error .imagNonZero\n  else .ok (if truncFluctCond eps z.re then 0 else z.re)")

    # ---- povm.py
    w = "povm.py:Povm._md_index2serial_index"
    f = find_fn(povm, "_md_index2serial_index", "Povm")
    srcs = [ast.unparse(s) for s in f.body if not (isinstance(s, ast.Expr) and isinstance(s.value, ast.Constant))]
    if srcs != ["serial_index_array = np.array(range(self._num_outcomes)).reshape(self.nums_local_outcomes)", "target = serial_index_array",
                "for i in md_index:\n    target = target[i]", "return target"]:
        raise Untranslatable(f"{w}: body is not the row-major index table lookup (found {srcs})")
    # ---- parameter checks of convert_hs / convert_vec: the if/raise chain in source order
    KIND = {"HS must be square matrix": "notSquare", "dim of HS must be square number": "dimNotSquare",
            "dim of from_basis must equal dim of to_basis": "dimMismatch", "length of from_basis must equal length of to_basis": "lenMismatch"}

    def checks(tree, fn, atoms, sig, doc):
        f = find_fn(tree, fn)
        chain = []
        for st in f.body:
            if isinstance(st, ast.If):
                if not (len(st.body) == 1 and isinstance(st.body[0], ast.Raise) and not st.orelse):
                    raise Untranslatable(f"{fn}: an `if` that is not `if cond: raise …` before the main logic")
                exc = st.body[0].exc
                msg = ast.unparse(exc.args[0]) if isinstance(exc, ast.Call) and ast.unparse(exc.func) == "ValueError" and exc.args else ""
                kinds = [k for pre, k in KIND.items() if pre in msg]
                if len(kinds) != 1:
                    raise Untranslatable(f"{fn}: unknown ValueError `{msg[:60]}`")
                t = st.test
                if not (isinstance(t, ast.Compare) and len(t.ops) == 1 and isinstance(t.ops[0], ast.NotEq)):
                    raise Untranslatable(f"{fn}: test is not `a != b`: `{ast.unparse(t)}`")

                def side(e):
                    src = ast.unparse(e)
                    if src in atoms:
                        return atoms[src]
                    if isinstance(e, ast.BinOp) and isinstance(e.op, ast.Pow) and isinstance(e.right, ast.Constant) and ast.unparse(e.left) in atoms:
                        return f"({atoms[ast.unparse(e.left)]}) ^ {e.right.value}"
                    raise Untranslatable(f"{fn}: unsupported operand `{src}`")
                chain.append((f"{side(t.left)} ≠ {side(t.comparators[0])}", kinds[0], ast.unparse(t)))
        body = "".join(f"if {c} then .error .{k}\n  else " for c, k, _ in chain) + ".ok ()"
        emit(doc + ": " + "; ".join(f"`if {src}: raise`" for _, _, src in chain), sig, body)

    f = find_fn(gate, "convert_hs")
    dims = [ast.unparse(x.value) for x in ast.walk(f) if isinstance(x, (ast.Assign, ast.AnnAssign)) and ast.unparse(x.targets[0] if isinstance(x, ast.Assign) else x.target) == "dim"]
    if ast.unparse(assign_to(f, "size", "convert_hs").value) != "from_hs.shape" or dims != ["int(np.sqrt(size[0]))"]:
        raise Untranslatable("convert_hs: size / dim are not from_hs.shape / int(np.sqrt(size[0]))")
    checks(gate, "convert_hs", {"size[0]": "rows", "size[1]": "cols", "dim": "Nat.sqrt rows", "from_basis.dim": "fromDim", "to_basis.dim": "toDim",
                                "len(from_basis)": "fromLen", "len(to_basis)": "toLen"},
           "convertHsChecksGen (rows cols fromDim fromLen toDim toLen : Nat) : Except Err Unit", "gate.py:convert_hs parameter checks")
    checks(mbm, "convert_vec", {"from_basis.dim": "fromDim", "to_basis.dim": "toDim", "len(from_basis)": "fromLen", "len(to_basis)": "toLen"},
           "convertVecChecksGen (fromDim fromLen toDim toLen : Nat) : Except Err Unit", "matrix_basis.py:convert_vec parameter checks")

    # ---- to_kraus_matrices_from_hs: zero filter, sort, scaling; is_cp / is_positive_semidefinite skeleton
    w = "gate.py:to_kraus_matrices_from_hs"
    f = find_fn(gate, "to_kraus_matrices_from_hs")
    lcs = [x for x in ast.walk(f) if isinstance(x, ast.ListComp)]
    filt = one((x for x in lcs if x.generators[0].ifs), "filtering comprehension", w)
    cond = ast.unparse(filt.generators[0].ifs[0])
    if cond != "not np.isclose(eigen_val, 0, atol=Settings.get_atol())" or ast.unparse(filt.elt) != "(eigen_val, eigen_vec)":
        raise Untranslatable(f"{w}: zero filter is `{cond}`")
    emit(f"{w} `[… for (eigen_val, eigen_vec) in eigens if {cond}]` (np.isclose(x, 0, atol=a) is |x| <= a)",
         "krausKeep {d : Nat} (atolSettings : Rat) (e : EigPair d) : Bool", "!closeZero e.val atolSettings")
    srt = assign_to_all = [x for x in ast.walk(f) if isinstance(x, ast.Assign) and ast.unparse(x.value).startswith("sorted(")]
    if len(srt) != 1 or ast.unparse(srt[0].value) != "sorted(eigens, key=lambda x: x[0], reverse=True)":
        raise Untranslatable(f"{w}: sort is `{[ast.unparse(x.value) for x in srt]}`")
    emit(f"{w} `{ast.unparse(srt[0])}` (stable, largest eigenvalue first)", "krausSort {d : Nat} (l : List (EigPair d)) : List (EigPair d)", "sortDesc l")
    sc = one((x for x in lcs if ast.unparse(x.generators[0].iter) == "eigens" and not x.generators[0].ifs and "np.sqrt" in ast.unparse(x.elt)), "scaling comprehension", w)
    if ast.unparse(sc.elt) != "np.sqrt(eigen_val) * eigen_vec.reshape((c_sys.dim, c_sys.dim))":
        raise Untranslatable(f"{w}: scaling is `{ast.unparse(sc.elt)}`")
    emit(f"{w} `{ast.unparse(sc.elt)}` (np.sqrt(eigen_val) is the kernel parameter sqrtVal)",
         "krausScale {d : Nat} (e : EigPair d) : Mat CRat d d", "Mat.smul (CRat.ofRat e.sqrtVal) (unflat e.vec)")
    pairs_lc = one((x for x in lcs if ast.unparse(x.generators[0].iter) == "range(len(eigen_vals))"), "eigenpair comprehension", w)
    if ast.unparse(pairs_lc.elt) != "(eigen_vals[index], eigen_vecs[:, index])" or ast.unparse(assign_to(f, "choi", w).value) != "to_choi_from_hs_with_sparsity(c_sys, hs)":
        raise Untranslatable(f"{w}: eigenpairs are not (eigen_vals[index], eigen_vecs[:, index]) of the sparse Choi matrix")
    early = [x for x in f.body if isinstance(x, ast.If) and ast.unparse(x.test) == "not is_cp(c_sys, hs, atol)" and ast.unparse(x.body[0]) == "return []"]
    if len(early) != 1:
        raise Untranslatable(f"{w}: no `if not is_cp(c_sys, hs, atol): return []`")
    # step 3 (phase convention): statement skeleton of the loop over `_kraus`
    ph = one((x for x in f.body if isinstance(x, ast.For) and ast.unparse(x.iter) == "_kraus"), "`for k in _kraus` loop", w)
    expect = ("for k in _kraus:\n    for i, value in enumerate(k.flatten()):\n        if value == 0:\n            continue\n        elif value < 0:\n"
              "            e_i_theta = value / abs(value)\n            _k = 1 / e_i_theta * k\n            kraus.append(_k)\n            break\n"
              "        else:\n            kraus.append(k)\n            break\n    else:\n        kraus.append(k)")
    if ast.unparse(ph) != expect:
        raise Untranslatable(f"{w}: the phase step is not the `first non-zero entry; if value < 0: k / (value / abs(value))` skeleton")
    emit(f"{w} step 3: `for i, value in enumerate(k.flatten()): if value == 0: continue / elif value < 0: e_i_theta = value / abs(value); "
         "_k = 1 / e_i_theta * k / else: k` and the loop's `else: k` (abs is the kernel parameter absFlat; `<` on complex is numpy's lexicographic order)",
         "phaseFactorGen {d : Nat} (k : Mat CRat d d) (absFlat : Vec Rat (d * d)) : CRat",
         "match (List.finRange (d * d)).find? (fun x => (flat k).get x != 0) with\n  | none => 1\n  | some x =>\n    let value := (flat k).get x\n"
         "    if cLtZero value then cInv (value * CRat.ofRat (1 / absFlat.get x)) else 1")
    emit(f"{w} step 3: `_k = 1 / e_i_theta * k`", "phaseFixGen {d : Nat} (k : Mat CRat d d) (absFlat : Vec Rat (d * d)) : Mat CRat d d",
         "Mat.smul (phaseFactorGen k absFlat) k")
    f = find_fn(gate, "is_cp")
    ret = one((x for x in ast.walk(f) if isinstance(x, ast.Return)), "return", "gate.py:is_cp")
    if ast.unparse(ret.value) != "mutil.is_positive_semidefinite(to_choi_from_hs_with_sparsity(c_sys, hs), atol=atol)":
        raise Untranslatable(f"gate.py:is_cp returns `{ast.unparse(ret.value)}`")
    f = find_fn(mu, "is_positive_semidefinite")
    srcs = [ast.unparse(x) for x in f.body if not (isinstance(x, ast.Expr) and isinstance(x.value, ast.Constant))]
    exp_if = ("if is_hermitian(matrix, atol):\n    eigvals_array = np.linalg.eigvalsh(matrix)\n    close_zero = np.where(np.isclose(eigvals_array, 0, atol=atol, rtol=0.0))\n"
              "    eigvals_not_close_zero = np.delete(eigvals_array, close_zero)\n    return np.all(eigvals_not_close_zero >= 0)\nelse:\n    return False")
    if len(srcs) != 2 or srcs[1] != exp_if:
        raise Untranslatable(f"matrix_util.py:is_positive_semidefinite: body is not the Hermitian test / close-zero deletion / all >= 0 skeleton")
    emit("gate.py:is_cp = mutil.is_positive_semidefinite(sparse Choi, atol): `if is_hermitian(matrix, atol): … np.all(eigvals_not_close_zero >= 0) else: return False` "
         "with `close_zero = np.isclose(eigvals, 0, atol=atol, rtol=0.0)` (eigvalsh is the kernel parameter)",
         "isCpGen {d : Nat} (choi : Mat CRat (d * d) (d * d)) (eigs : List (EigPair d)) (atol : Rat) : Bool",
         "isHermitian choi atol && eigs.all fun e => closeZero e.val atol || decide (0 ≤ e.val)")

    # ---- convert_var_to_hs / convert_hs_to_var: position of the fixed row
    f = find_fn(gate, "convert_var_to_hs")
    v = assign_to(f, "hs", "gate.py:convert_var_to_hs").value
    if not (isinstance(v, ast.IfExp) and ast.unparse(v.test) == "on_para_eq_constraint" and ast.unparse(v.orelse) == "reshaped" and isinstance(v.body, ast.Call)
            and ast.unparse(v.body.func) == "np.insert" and [ast.unparse(a) for a in v.body.args[:1]] == ["reshaped"] and ast.unparse(v.body.args[2]) == "np.eye(1, dim ** 2)"
            and [ast.unparse(k.value) for k in v.body.keywords if k.arg == "axis"] == ["0"]):
        raise Untranslatable(f"gate.py:convert_var_to_hs: hs is `{ast.unparse(v)}`")
    emit(f"gate.py:convert_var_to_hs `{ast.unparse(v.body)}`: index of the inserted row `np.eye(1, dim ** 2)` (axis 0)", "varRowIndex : Nat", ast.unparse(v.body.args[1]))
    f = find_fn(gate, "convert_hs_to_var")
    v = assign_to(f, "var", "gate.py:convert_hs_to_var").value
    if not (isinstance(v, ast.IfExp) and ast.unparse(v.test) == "on_para_eq_constraint" and ast.unparse(v.orelse) == "hs.flatten()"
            and ast.unparse(v.body).startswith("np.delete(hs, ") and ast.unparse(v.body).endswith(", axis=0).flatten()")):
        raise Untranslatable(f"gate.py:convert_hs_to_var: var is `{ast.unparse(v)}`")
    emit(f"gate.py:convert_hs_to_var `{ast.unparse(v.body)}`: index of the deleted row (axis 0)", "varRowDeleted : Nat", ast.unparse(v.body.func.value.args[1]))

    out.append("-- povm.py:Povm._md_index2serial_index matched the row-major index-table skeleton (generator-side guard: a different body makes\n"
               "-- the generator fail; the model's `mdSerial` is tied to it by the correspondence on all multi-indices, not by a theorem)\n")
    out.append("end QGen.C02")
    return "\n".join(out) + "\n"
