"""C20 translator: reads the schedule-validation code of /repo with `ast`, extracts the literal tables
(kinds, limits, positional tests, Experiment list arguments of the four tomography constructors) and
writes lean/QGen/C20.lean.  Every function it reads must match a fixed *skeleton* (the template below
with the extracted tables filled in; docstrings removed, message strings blanked) - otherwise it raises,
which `check` reports as a broken obligation (DESIGN 2.4/2.6)."""
import ast, os, re

from common import REPO, LEAN

EXP = "quara/qcircuit/experiment.py"
STD = "quara/protocol/qtomography/standard/"


class Untranslatable(Exception):
    pass


# ----------------------------------------------------------------------------- normalisation
class _Norm(ast.NodeTransformer):
    """drop docstrings / annotations, blank message strings (any str constant containing whitespace, any f-string)"""

    def visit_FunctionDef(self, node):
        self.generic_visit(node)
        if node.body and isinstance(node.body[0], ast.Expr) and isinstance(node.body[0].value, ast.Constant) \
                and isinstance(node.body[0].value.value, str):
            node.body = node.body[1:] or [ast.Pass()]
        node.returns = None
        node.decorator_list = []
        for a in node.args.args + node.args.kwonlyargs:
            a.annotation = None
        return node

    def visit_AnnAssign(self, node):
        self.generic_visit(node)
        return ast.Assign(targets=[node.target], value=node.value, lineno=0, col_offset=0)

    def visit_JoinedStr(self, node):
        return ast.Constant(value="")

    def visit_Constant(self, node):
        if isinstance(node.value, str) and re.search(r"\s", node.value):
            return ast.Constant(value="")
        return node


def _norm_src(node):
    node = _Norm().visit(node)
    ast.fix_missing_locations(node)
    return ast.unparse(node)


def _func(tree, cls, name, setter=False):
    for c in tree.body:
        if isinstance(c, ast.ClassDef) and c.name == cls:
            for f in c.body:
                if isinstance(f, ast.FunctionDef) and f.name == name:
                    is_setter = any(isinstance(d, ast.Attribute) and d.attr == "setter" for d in f.decorator_list)
                    if is_setter == setter:
                        return f
    raise Untranslatable(f"{cls}.{name} not found")


def _match(real, template, what):
    t = ast.unparse(ast.parse(template))
    if real.strip() != t.strip():
        import difflib
        d = "\n".join(list(difflib.unified_diff(t.splitlines(), real.splitlines(), "skeleton", "source", lineterm="", n=0))[:12])
        raise Untranslatable(f"{what} no longer matches the translatable skeleton:\n{d}")


def _one(rx, src, what):
    m = re.findall(rx, src)
    if len(m) != 1:
        raise Untranslatable(f"{what}: expected exactly one match of /{rx}/, found {len(m)}")
    return m[0]


def _strlist(txt):
    v = ast.literal_eval(txt)
    if not isinstance(v, list) or not all(isinstance(x, str) and re.fullmatch(r"\w*", x) for x in v):
        raise Untranslatable(f"not a list of plain strings: {txt}")
    return v


def plural(k):
    return k + ("es" if k.endswith("s") else "s")


# ----------------------------------------------------------------------------- Experiment
T_ITEM = """
def _validate_schedule_item(self, item, objdict=None):
    if type(item) != tuple:
        raise TypeError('')
    if len(item) != 2:
        raise ValueError('')
    item_name, item_index = (item[0], item[1])
    if type(item_name) != str:
        raise TypeError('')
    if type(item_index) != int:
        raise TypeError('')
    if item_name not in %(kinds)r:
        raise ValueError('')
%(nonempty)s
    if not objdict:
        objdict = dict(state=self._states, povm=self._povms, gate=self._gates, mprocess=self._mprocesses)
    if not 0 <= item_index < len(objdict[item_name]):
        error_message = ''
        error_message += ''.format(item_name, item_index)
        raise IndexError(error_message)
"""
T_NONEMPTY = """
    now_%(ks)s = objdict['%(k)s'] if objdict else self._%(ks)s
    if item_name == '%(k)s' and (not now_%(ks)s):
        raise IndexError('')
"""
T_ORDER = """
def _validate_schedule_order(self, schedule):
    if len(schedule) < %(minLen)d:
        raise ValueError('')
    TYPE_INDEX = 0
    INDEX_INDEX = 1
    if schedule[0][TYPE_INDEX] != %(first)r:
        raise ValueError('')
    if schedule[-1][TYPE_INDEX] not in %(last)r:
        raise ValueError('')
    counter = collections.Counter([s[TYPE_INDEX] for s in schedule])
%(limits)s
"""
T_LIMIT = """
    if counter[%(k)r] >= %(n)d:
        raise ValueError('')
"""
T_SCHEDULES = """
def _validate_schedules(self, schedules, objdict=None):
    for i, schedule in enumerate(schedules):
        j, item = (None, schedule)
        try:
            for j, item in enumerate(schedule):
                self._validate_schedule_item(item, objdict=objdict)
        except (ValueError, IndexError, TypeError) as e:
            message = ''.format(i)
            message += ''.format(i, str(schedule))
            message += ''.format(j, item)
            message += ''.format(e.args[0])
            raise QuaraScheduleItemError(message)
        try:
            self._validate_schedule_order(schedule)
        except (ValueError, TypeError, KeyError, IndexError) as e:
            message = ''
            message += ''.format(i, str(schedule))
            message += ''.format(e.args[0])
            raise QuaraScheduleOrderError(message)
"""
T_SETTER = """
def %(ks)s(self, value):
    self._validate_type(value, %(cls)s)
    objdict = dict(state=%(state)s, povm=%(povm)s, gate=%(gate)s, mprocess=%(mprocess)s)
    try:
        self._validate_schedules(self._schedules, objdict=objdict)
    except QuaraScheduleItemError as e:
        raise QuaraScheduleItemError(e.args[0] + '')
    else:
        %(target)s = value
"""
T_COPY = """
def copy(self):
    states = copy.copy(self.states)
    gates = copy.copy(self.gates)
    povms = copy.copy(self.povms)
    mprocesses = copy.copy(self.mprocesses)
    schedules = copy.copy(self.schedules)
    experiment = Experiment(states=states, gates=gates, povms=povms, mprocesses=mprocesses, schedules=schedules)
    return experiment
"""
T_SCHED_SETTER = """
def schedules(self, value):
    self._validate_schedules(value)
    self._schedules = value
"""
T_INIT = """
def __init__(self, schedules, states=None, povms=None, gates=None, mprocesses=None, seed_data=None):
    states = [] if states is None else states
    povms = [] if povms is None else povms
    gates = [] if gates is None else gates
    mprocesses = [] if mprocesses is None else mprocesses
    self._validate_type(states, State)
    self._validate_type(povms, Povm)
    self._validate_type(gates, Gate)
    self._validate_type(mprocesses, MProcess)
    self._states = states
    self._povms = povms
    self._gates = gates
    self._mprocesses = mprocesses
    self._validate_schedules(schedules)
    self._schedules = schedules
    self._seed_data = seed_data
    self.reset_seed_data(self._seed_data)
"""
T_CALC = """
def calc_prob_dist(self, schedule_index):
    self._validate_schedule_index(schedule_index)
    schedule = self.schedules[schedule_index]
    key_map = dict(state=self._states, gate=self._gates, povm=self._povms, mprocess=self._mprocesses)
    targets = collections.deque()
    for item in schedule:
        k, i = item
        target = key_map[k][i]
        if not target:
            raise ValueError(''.format(k, i))
        targets.appendleft(target)
    prob_dist = op.compose_qoperations(*targets)
    return prob_dist.ps
"""
T_SCHED_INDEX = """
def _validate_schedule_index(self, schedule_index):
    if type(schedule_index) != int:
        raise TypeError('')
    if not 0 <= schedule_index < len(self.schedules):
        error_message = ''.format(len(self.schedules) - 1)
        raise IndexError(error_message)
"""

# ----------------------------------------------------------------------------- tomography classes
T_TOMO_VALIDATE = """
def _validate_schedules(self, schedules):
    for i, schedule in enumerate(schedules):
        if %(pos)s:
            message = ''
            message += ''
            message += ''
            raise ValueError(message)
        if schedule[%(zero)d][1] != %(zval)d:
            message = ''
            message += ''
            raise ValueError(message)
"""
T_STR = """
def _validate_schedules_str(self, schedules):
    supported_schedule_strs = %(strs)r
    if schedules not in supported_schedule_strs:
        message = ''
        raise ValueError(message)
"""
T_TOMO_HEAD = """
if type(schedules) == str:
    self._validate_schedules_str(schedules)
if schedules == 'all':
%(expand)s
experiment = Experiment(%(kwargs)s)
self._validate_schedules(schedules)
"""
EXPAND = {
    "StandardQst": "    schedules = [[('state', 0), ('povm', i)] for i in range(len(povms))]",
    "StandardPovmt": "    schedules = [[('state', i), ('povm', 0)] for i in range(len(states))]",
    "StandardQpt": "    schedules = []\n    for i, j in product(range(len(states)), range(len(povms))):\n"
                   "        schedules.append([('state', i), ('gate', 0), ('povm', j)])",
    "StandardQmpt": "    schedules = []\n    for i, j in product(range(len(states)), range(len(povms))):\n"
                    "        schedules.append([('state', i), ('mprocess', 0), ('povm', j)])",
}
TOMO = [("StandardQst", "standard_qst.py", "qst"), ("StandardPovmt", "standard_povmt.py", "povmt"),
        ("StandardQpt", "standard_qpt.py", "qpt"), ("StandardQmpt", "standard_qmpt.py", "qmpt")]
LIST_CODE = {"empty": 0, "none1": 1, "param": 2}


def _parse(rel):
    p = os.path.join(REPO, rel)
    return ast.parse(open(p).read(), filename=p)


def extract():
    """returns the dict of tables; raises Untranslatable"""
    tb = {}
    tree = _parse(EXP)
    # --- item
    src = _norm_src(_func(tree, "Experiment", "_validate_schedule_item"))
    kinds = _strlist(_one(r"if item_name not in (\[[^\]]*\]):", src, "item kinds"))
    need = re.findall(r"if item_name == '(\w+)' and \(?not now_\w+\)?:", src)
    _match(src, T_ITEM % dict(kinds=kinds, nonempty="".join(T_NONEMPTY % dict(k=k, ks=plural(k)) for k in need)),
           "Experiment._validate_schedule_item")
    tb["kinds"], tb["needNonEmpty"] = kinds, need
    # --- order
    src = _norm_src(_func(tree, "Experiment", "_validate_schedule_order"))
    minlen = int(_one(r"if len\(schedule\) < (\d+):", src, "minimum length"))
    first = ast.literal_eval(_one(r"if schedule\[0\]\[TYPE_INDEX\] != ('\w*'):", src, "first kind"))
    last = _strlist(_one(r"if schedule\[-1\]\[TYPE_INDEX\] not in (\[[^\]]*\]):", src, "last kinds"))
    limits = [(k, int(n)) for k, n in re.findall(r"if counter\['(\w+)'\] >= (\d+):", src)]
    _match(src, T_ORDER % dict(minLen=minlen, first=first, last=last,
                               limits="".join(T_LIMIT % dict(k=k, n=n) for k, n in limits) or "    pass"),
           "Experiment._validate_schedule_order")
    tb.update(minLen=minlen, firstKind=first, lastKinds=last, limits=limits)
    # --- wrapper, constructor, setters, calc_prob_dist (no tables: skeleton only)
    _match(_norm_src(_func(tree, "Experiment", "_validate_schedules")), T_SCHEDULES, "Experiment._validate_schedules")
    _match(_norm_src(_func(tree, "Experiment", "__init__")), T_INIT, "Experiment.__init__")
    _match(_norm_src(_func(tree, "Experiment", "schedules", setter=True)), T_SCHED_SETTER, "Experiment.schedules.setter")
    _match(_norm_src(_func(tree, "Experiment", "calc_prob_dist")), T_CALC, "Experiment.calc_prob_dist")
    _match(_norm_src(_func(tree, "Experiment", "_validate_schedule_index")), T_SCHED_INDEX, "Experiment._validate_schedule_index")
    keys = ("state", "povm", "gate", "mprocess")
    src_code = {f"self._{plural(x)}": i for i, x in enumerate(keys)}
    src_code["value"] = 4
    tb["setterDicts"], tb["setterAssigns"] = [], []
    for k, cls in (("state", "State"), ("povm", "Povm"), ("gate", "Gate"), ("mprocess", "MProcess")):
        src = _norm_src(_func(tree, "Experiment", plural(k), setter=True))
        m = re.search(r"objdict = dict\(state=([\w.]+), povm=([\w.]+), gate=([\w.]+), mprocess=([\w.]+)\)", src)
        a = re.search(r"\n    else:\n        (self\._\w+) = value\n?$", src)
        if not m or not a or any(x not in src_code for x in m.groups()) or a.group(1) not in src_code:
            raise Untranslatable(f"Experiment.{plural(k)}.setter: cannot read the objdict entries / the assignment")
        d = dict(zip(keys, m.groups()))
        _match(src, T_SETTER % dict(ks=plural(k), cls=cls, target=a.group(1), **d), f"Experiment.{plural(k)}.setter")
        tb["setterDicts"].append([src_code[x] for x in m.groups()])
        tb["setterAssigns"].append(src_code[a.group(1)])
    _match(_norm_src(_func(tree, "Experiment", "copy")), T_COPY, "Experiment.copy")
    # --- supported strings
    t2 = _parse(STD + "standard_qtomography.py")
    src = _norm_src(_func(t2, "StandardQTomography", "_validate_schedules_str"))
    strs = _strlist(_one(r"supported_schedule_strs = (\[[^\]]*\])", src, "supported strings"))
    _match(src, T_STR % dict(strs=strs), "StandardQTomography._validate_schedules_str")
    tb["supportedStrs"] = strs
    # --- four tomography classes
    for cls, fn, short in TOMO:
        t = _parse(STD + fn)
        src = _norm_src(_func(t, cls, "_validate_schedules"))
        lentest, cond = _one(r"\n        if (len\(schedule\) != \d+ or )?((?:\(?schedule\[\d+\]\[0\] != '\w*'\)?(?: or )?)+):", src, f"{cls} positional tests")
        slen = int(re.search(r"\d+", lentest).group(0)) if lentest else None
        pos = [(int(p), k) for p, k in re.findall(r"schedule\[(\d+)\]\[0\] != '(\w*)'", cond)]
        zero, zval = _one(r"if schedule\[(\d+)\]\[1\] != (-?\d+):", src, f"{cls} fixed index")
        _match(src, T_TOMO_VALIDATE % dict(pos=(f"len(schedule) != {slen} or " if slen is not None else "") +
                                           " or ".join(f"schedule[{p}][0] != {k!r}" for p, k in pos),
                                           zero=int(zero), zval=int(zval)), f"{cls}._validate_schedules")
        if int(zval) != 0:
            raise Untranslatable(f"{cls}: fixed index value {zval} is not 0")
        init = _func(t, cls, "__init__")
        init = _Norm().visit(init)
        head = init.body[:4]
        call = head[2].value if len(head) == 4 and isinstance(head[2], ast.Assign) and isinstance(head[2].value, ast.Call) else None
        if call is None or not (isinstance(call.func, ast.Name) and call.func.id == "Experiment") or call.args:
            raise Untranslatable(f"{cls}.__init__: third statement is not `experiment = Experiment(keyword args)`")
        lists, kw = {}, []
        for k in call.keywords:
            kw.append(f"{k.arg}={ast.unparse(k.value)}")
            if k.arg in ("states", "povms", "gates", "mprocesses"):
                v = k.value
                if isinstance(v, ast.Name) and v.id == k.arg:
                    lists[k.arg] = "param"
                elif isinstance(v, ast.List) and len(v.elts) == 1 and isinstance(v.elts[0], ast.Constant) and v.elts[0].value is None:
                    lists[k.arg] = "none1"
                elif isinstance(v, ast.List) and not v.elts:
                    lists[k.arg] = "empty"
                else:
                    raise Untranslatable(f"{cls}.__init__: cannot translate Experiment argument {k.arg}={ast.unparse(v)}")
            elif k.arg not in ("schedules", "seed_data") or not (isinstance(k.value, ast.Name) and k.value.id == k.arg):
                raise Untranslatable(f"{cls}.__init__: unexpected Experiment argument {k.arg}={ast.unparse(k.value)}")
        if "schedules" not in [k.arg for k in call.keywords]:
            raise Untranslatable(f"{cls}.__init__: Experiment is not given the schedules")
        mod = ast.Module(body=head, type_ignores=[])
        ast.fix_missing_locations(mod)
        _match(ast.unparse(mod), T_TOMO_HEAD % dict(expand=EXPAND[cls], kwargs=", ".join(kw)), f"{cls}.__init__ (schedule handling)")
        tb[short] = dict(pos=pos, zero=int(zero), len=slen,
                         lists=[LIST_CODE[lists.get(k, "empty")] for k in ("states", "povms", "gates", "mprocesses")])
    return tb


# ----------------------------------------------------------------------------- Lean output
def _ls(xs):
    return "[" + ", ".join('"%s"' % x for x in xs) + "]"


def render(tb):
    out = ["/-! GENERATED on every run by harness/c20_translate.py from quara/qcircuit/experiment.py and",
           "quara/protocol/qtomography/standard/standard_{qst,povmt,qpt,qmpt,qtomography}.py - do not edit.",
           "Literal tables of the schedule validation; QModel.C20 / QProps.C20 are stated about these. -/",
           "namespace QGen.C20",
           f"def kinds : List String := {_ls(tb['kinds'])}",
           f"def needNonEmpty : List String := {_ls(tb['needNonEmpty'])}",
           f"def minLen : Nat := {tb['minLen']}",
           f"def firstKind : String := \"{tb['firstKind']}\"",
           f"def lastKinds : List String := {_ls(tb['lastKinds'])}",
           "def limits : List (String × Nat) := [" + ", ".join(f'("{k}", {n})' for k, n in tb["limits"]) + "]",
           f"def supportedStrs : List String := {_ls(tb['supportedStrs'])}",
           "/-! the four list setters (states, povms, gates, mprocesses): for each, what `objdict` holds under the keys",
           "state, povm, gate, mprocess (0..3 = the experiment's own states / povms / gates / mprocesses list, 4 = the new value),",
           "and which own list is assigned on success -/",
           "def setterDicts : List (List Nat) := [" + ", ".join("[" + ", ".join(map(str, d)) + "]" for d in tb["setterDicts"]) + "]",
           "def setterAssigns : List Nat := [" + ", ".join(map(str, tb["setterAssigns"])) + "]",
           "/-! per tomography class: positional kind tests `schedule[p][0] != k`, the position whose index must be 0, the optional",
           "leading length test `len(schedule) != n` (none = the class has no such test),",
           "and the lists handed to `Experiment` (states, povms, gates, mprocesses): 0 = `[]`/absent, 1 = `[None]`,",
           "2 = the constructor's parameter of the same name -/"]
    for _, _, short in TOMO:
        t = tb[short]
        out.append(f"def {short}Pos : List (Nat × String) := [" + ", ".join(f'({p}, "{k}")' for p, k in t["pos"]) + "]")
        out.append(f"def {short}Zero : Nat := {t['zero']}")
        out.append(f"def {short}Len : Option Nat := " + ("none" if t["len"] is None else f"some {t['len']}"))
        out.append(f"def {short}Lists : List Nat := [" + ", ".join(str(x) for x in t["lists"]) + "]")
    out.append("end QGen.C20")
    return "\n".join(out) + "\n"


def translate():
    tb = extract()
    new = render(tb)
    path = os.path.join(LEAN, "QGen", "C20.lean")
    if not os.path.exists(path) or open(path).read() != new:
        open(path, "w").write(new)
    return tb
