"""C10/C11 translator fragment: reads the projected-gradient sources of /repo with `ast` and writes lean/QGen/C10.lean:
accepted stopping-criterion / projection-order strings, the error-value dispatch chains of the three algorithms, the
constraint-selection table of `set_constraint_from_standard_qt_and_option` (flag tests -> factory called, and where the
factory's arguments come from), the keywords the physical-projection closure forwards, the line-search constants and the
stopping comparator.  Anything that does not have the expected shape raises `Untranslatable` (reported by `check` as a broken
obligation)."""
import ast, os
from fractions import Fraction

from common import REPO, LEAN

PGD = "quara/minimization_algorithm/projected_gradient_descent.py"
PGDB = "quara/minimization_algorithm/projected_gradient_descent_backtracking.py"
PGDM = "quara/minimization_algorithm/projected_gradient_descent_with_momentum.py"
FISTA = "quara/minimization_algorithm/projected_fast_iterative_shrinkage_thresholding_algorithm.py"
QOP = "quara/objects/qoperation.py"


class Untranslatable(Exception):
    pass


def _tree(rel):
    return ast.parse(open(os.path.join(REPO, rel)).read())


def _func(tree, cls, name):
    for c in tree.body:
        if isinstance(c, ast.ClassDef) and c.name == cls:
            for f in c.body:
                if isinstance(f, ast.FunctionDef) and f.name == name:
                    return f
    raise Untranslatable(f"{cls}.{name} not found")


def _str_list(node, what):
    if not (isinstance(node, ast.List) and all(isinstance(e, ast.Constant) and isinstance(e.value, str) for e in node.elts)):
        raise Untranslatable(f"{what}: expected a list of string literals")
    return [e.value for e in node.elts]


def _membership_lists(init):
    """`if not <name> in [ ... ]: raise` tests of the option constructor -> {name: list}"""
    out = {}
    for n in ast.walk(init):
        if isinstance(n, ast.If) and isinstance(n.test, ast.UnaryOp) and isinstance(n.test.op, ast.Not):
            t = n.test.operand
            if isinstance(t, ast.Compare) and len(t.ops) == 1 and isinstance(t.ops[0], ast.In) and isinstance(t.left, ast.Name):
                out[t.left.id] = _str_list(t.comparators[0], t.left.id)
    return out


def _defaults(init):
    args = init.args.args
    d = init.args.defaults
    return {a.arg: ast.literal_eval(v) for a, v in zip(args[len(args) - len(d):], d)
            if isinstance(v, ast.Constant)}


def _dispatch_chain(optimize, what):
    """the if/elif chain comparing `algorithm_option.mode_stopping_criterion_gradient_descent` with string literals"""
    for n in ast.walk(optimize):
        if isinstance(n, ast.If):
            chain, cur = [], n
            while True:
                t = cur.test
                ok = (isinstance(t, ast.Compare) and len(t.ops) == 1 and isinstance(t.ops[0], ast.Eq)
                      and isinstance(t.left, ast.Attribute) and t.left.attr == "mode_stopping_criterion_gradient_descent"
                      and isinstance(t.comparators[0], ast.Constant) and isinstance(t.comparators[0].value, str))
                if not ok:
                    chain = None
                    break
                chain.append(t.comparators[0].value)
                if len(cur.orelse) == 1 and isinstance(cur.orelse[0], ast.If):
                    cur = cur.orelse[0]
                elif not cur.orelse:
                    break
                else:
                    raise Untranslatable(f"{what}: stopping-criterion chain has an else branch")
            if chain:
                return chain
    raise Untranslatable(f"{what}: stopping-criterion dispatch chain not found")


def _stop_comparator(optimize, what):
    """`is_doing = True if value > eps else False`"""
    for n in ast.walk(optimize):
        if isinstance(n, ast.Assign) and len(n.targets) == 1 and isinstance(n.targets[0], ast.Name) \
                and n.targets[0].id == "is_doing" and isinstance(n.value, ast.IfExp):
            t = n.value.test
            if isinstance(t, ast.Compare) and len(t.ops) == 1 and isinstance(t.left, ast.Name) \
                    and isinstance(t.comparators[0], ast.Name) and isinstance(n.value.body, ast.Constant) \
                    and isinstance(n.value.orelse, ast.Constant):
                return (type(t.ops[0]).__name__, t.left.id, t.comparators[0].id, n.value.body.value, n.value.orelse.value)
    raise Untranslatable(f"{what}: `is_doing = True if value > eps else False` not found")


def _flag_test(t):
    """`option.on_algo_eq_constraint == <bool> and option.on_algo_ineq_constraint == <bool>` -> (eq, ineq)"""
    if not (isinstance(t, ast.BoolOp) and isinstance(t.op, ast.And) and len(t.values) == 2):
        raise Untranslatable("selection: flag test is not a two-term conjunction")
    got = {}
    for v in t.values:
        if not (isinstance(v, ast.Compare) and len(v.ops) == 1 and isinstance(v.ops[0], ast.Eq)
                and isinstance(v.left, ast.Attribute) and isinstance(v.comparators[0], ast.Constant)
                and isinstance(v.comparators[0].value, bool)):
            raise Untranslatable("selection: flag comparison of unexpected shape")
        got[v.left.attr] = v.comparators[0].value
    if set(got) != {"on_algo_eq_constraint", "on_algo_ineq_constraint"}:
        raise Untranslatable(f"selection: flags tested are {sorted(got)}")
    return got["on_algo_eq_constraint"], got["on_algo_ineq_constraint"]


def _installed(body):
    """`self._func_proj = <expr>.<factory>(args…)` -> (factory name, {keyword or position: source text})"""
    if not (len(body) == 1 and isinstance(body[0], ast.Assign) and isinstance(body[0].targets[0], ast.Attribute)
            and body[0].targets[0].attr == "_func_proj" and isinstance(body[0].value, ast.Call)
            and isinstance(body[0].value.func, ast.Attribute)):
        raise Untranslatable("selection: branch body is not a single `self._func_proj = factory(...)`")
    call = body[0].value
    args = {str(i): ast.unparse(a) for i, a in enumerate(call.args)}
    args.update({k.arg: ast.unparse(k.value) for k in call.keywords})
    return call.func.attr, args


def _selection(fn):
    guard = any(isinstance(n, ast.If) and isinstance(n.test, ast.Compare) and isinstance(n.test.ops[0], ast.IsNot)
                and isinstance(n.test.left, ast.Attribute) and n.test.left.attr == "_func_proj"
                and len(n.body) == 1 and isinstance(n.body[0], ast.Return) for n in fn.body)
    top = [n for n in fn.body if isinstance(n, ast.If) and isinstance(n.test, ast.BoolOp)]
    if len(top) != 1:
        raise Untranslatable("selection: expected exactly one flag if/elif chain")
    rows, cur = [], top[0]
    while True:
        e, i = _flag_test(cur.test)
        name, args = _installed(cur.body)
        rows.append((e, i, name, args))
        if len(cur.orelse) == 1 and isinstance(cur.orelse[0], ast.If):
            cur = cur.orelse[0]
        else:
            name, args = _installed(cur.orelse)
            rows.append((None, None, name, args))
            break
    return guard, rows


def _closure_keywords(fn):
    """keywords that the closure returned by func_calc_proj_physical_with_var forwards to calc_proj_physical_with_var"""
    for n in ast.walk(fn):
        if isinstance(n, ast.Call) and isinstance(n.func, ast.Attribute) and n.func.attr == "calc_proj_physical_with_var":
            return [k.arg for k in n.keywords], [ast.unparse(k.value) for k in n.keywords]
    raise Untranslatable("func_calc_proj_physical_with_var: inner call not found")


def _line_search(optimize):
    """`alpha = <c0>` followed by `while self._is_doing_for_alpha(...): alpha = <c1> * alpha`"""
    start = factor = None
    for n in ast.walk(optimize):
        if isinstance(n, ast.While) and isinstance(n.test, ast.Call) and getattr(n.test.func, "attr", "") == "_is_doing_for_alpha":
            if len(n.body) == 1 and isinstance(n.body[0], ast.Assign) and isinstance(n.body[0].value, ast.BinOp) \
                    and isinstance(n.body[0].value.op, ast.Mult) and isinstance(n.body[0].value.left, ast.Constant) \
                    and isinstance(n.body[0].value.right, ast.Name) and n.body[0].value.right.id == "alpha":
                factor = n.body[0].value.left.value
        if isinstance(n, ast.Assign) and len(n.targets) == 1 and isinstance(n.targets[0], ast.Name) and n.targets[0].id == "alpha" \
                and isinstance(n.value, ast.Constant):
            start = n.value.value
    if start is None or factor is None:
        raise Untranslatable("backtracking line search: `alpha = c0` / `alpha = c1 * alpha` not found")
    return start, factor


def _armijo(fn):
    """`return left_side > right_side`"""
    for n in ast.walk(fn):
        if isinstance(n, ast.Return) and isinstance(n.value, ast.Compare) and len(n.value.ops) == 1:
            return type(n.value.ops[0]).__name__, ast.unparse(n.value.left), ast.unparse(n.value.comparators[0])
    raise Untranslatable("_is_doing_for_alpha: return comparison not found")


def _main_loop(optimize, what):
    for n in optimize.body:
        if isinstance(n, ast.For) and isinstance(n.iter, ast.Call) and getattr(n.iter.func, "id", "") == "range":
            return n
    raise Untranslatable(f"{what}: `for k in range(...)` loop not found")


def _assign_in(node, target, what):
    """source text of the value assigned to the plain name `target` inside `node` (first non-constant assignment)"""
    for n in ast.walk(node):
        if isinstance(n, ast.Assign) and len(n.targets) == 1 and isinstance(n.targets[0], ast.Name) and n.targets[0].id == target \
                and not isinstance(n.value, ast.Constant):
            return ast.unparse(n.value)
    raise Untranslatable(f"{what}: assignment to {target} not found")


def _err_exprs(optimize, what):
    """the expression assigned to `error_value` in each branch of the stopping-criterion chain, in chain order"""
    for n in ast.walk(optimize):
        if isinstance(n, ast.If) and isinstance(n.test, ast.Compare) and isinstance(n.test.left, ast.Attribute) \
                and n.test.left.attr == "mode_stopping_criterion_gradient_descent":
            out, cur = [], n
            while True:
                if not (len(cur.body) == 1 and isinstance(cur.body[0], ast.Assign) and cur.body[0].targets[0].id == "error_value"):
                    raise Untranslatable(f"{what}: branch body is not `error_value = ...`")
                out.append(ast.unparse(cur.body[0].value))
                if len(cur.orelse) == 1 and isinstance(cur.orelse[0], ast.If):
                    cur = cur.orelse[0]
                else:
                    return out
    raise Untranslatable(f"{what}: error_value chain not found")


def _default_eps(opt_init, settings_tree):
    """`if eps is None: eps = Settings.get_atol() / <c>` and `__first_default_atol = <c>`"""
    div = None
    for n in ast.walk(opt_init):
        if isinstance(n, ast.If) and isinstance(n.test, ast.Compare) and isinstance(n.test.left, ast.Name) and n.test.left.id == "eps" \
                and isinstance(n.test.ops[0], ast.Is):
            v = n.body[0].value
            if isinstance(v, ast.BinOp) and isinstance(v.op, ast.Div) and ast.unparse(v.left) == "Settings.get_atol()" \
                    and isinstance(v.right, ast.Constant):
                div = v.right.value
    atol = None
    for n in ast.walk(settings_tree):
        if isinstance(n, ast.Assign) and isinstance(n.targets[0], ast.Name) and n.targets[0].id.endswith("first_default_atol") \
                and isinstance(n.value, ast.Constant):
            atol = n.value.value
    if div is None or atol is None:
        raise Untranslatable("default eps: `eps = Settings.get_atol() / c` or `__first_default_atol = c` not found")
    return atol, div


def _suff_conditions(fn):
    """is_option_sufficient: the tests of the if/elif chain that return False"""
    out = []
    for n in ast.walk(fn):
        if isinstance(n, ast.If) and len(n.body) == 1 and isinstance(n.body[0], ast.Return) \
                and isinstance(n.body[0].value, ast.Constant) and n.body[0].value.value is False:
            out.append(ast.unparse(n.test))
    return out


LME = "quara/protocol/qtomography/standard/loss_minimization_estimator.py"
PLE = "quara/protocol/qtomography/standard/projected_linear_estimator.py"


def _glue(lme_tree, ple_tree):
    fn = _func(lme_tree, "LossMinimizationEstimator", "calc_estimate_sequence")
    loop = next((n for n in fn.body if isinstance(n, ast.For)), None)
    if loop is None:
        raise Untranslatable("LossMinimizationEstimator.calc_estimate_sequence: data loop not found")
    setup, checks, opt_call, appended = [], [], None, None
    for n in loop.body:
        if isinstance(n, ast.Expr) and isinstance(n.value, ast.Call) and isinstance(n.value.func, ast.Attribute) \
                and isinstance(n.value.func.value, ast.Name) and n.value.func.value.id in ("loss", "algo"):
            setup.append(f"{n.value.func.value.id}.{n.value.func.attr}")
        elif isinstance(n, ast.If) and isinstance(n.test, ast.Compare) and isinstance(n.test.left, ast.Call) \
                and isinstance(n.test.comparators[0], ast.Constant) and n.test.comparators[0].value is False \
                and len(n.body) == 1 and isinstance(n.body[0], ast.Raise):
            checks.append(ast.unparse(n.test.left.func))
        elif isinstance(n, ast.Assign) and isinstance(n.value, ast.Call) and ast.unparse(n.value.func) == "algo.optimize":
            opt_call = ast.unparse(n.value)
        elif isinstance(n, ast.Expr) and isinstance(n.value, ast.Call) and ast.unparse(n.value.func) == "estimated_var_sequence.append":
            appended = ast.unparse(n.value.args[0])
    if not (setup and len(checks) == 4 and opt_call and appended):
        raise Untranslatable("LossMinimizationEstimator.calc_estimate_sequence: loop body of unexpected shape")
    pfn = _func(ple_tree, "ProjectedLinearEstimator", "calc_estimate_sequence")
    ploop = next((n for n in pfn.body if isinstance(n, ast.For)), None)
    if ploop is None:
        raise Untranslatable("ProjectedLinearEstimator.calc_estimate_sequence: loop not found")
    pcalls = [ast.unparse(n.value) for n in ast.walk(ploop)
              if isinstance(n, (ast.Expr, ast.Assign)) and isinstance(n.value, ast.Call)
              and ast.unparse(n.value.func).startswith("linear_estimate.")]
    pappend = [ast.unparse(n.value.args[0]) for n in ast.walk(ploop) if isinstance(n, ast.Expr) and isinstance(n.value, ast.Call)
               and ast.unparse(n.value.func) == "proj_estimated_var_sequence.append"]
    psource = [ast.unparse(n.value) for n in pfn.body if isinstance(n, ast.Assign) and isinstance(n.targets[0], ast.Name)
               and n.targets[0].id in ("result", "linear_estimates")][:2]
    return setup, checks, opt_call, appended, pcalls, pappend, psource


# ----------------------------------------------------------------------------- expressions -> Lean terms
VEC_NAMES = {"x_prev": "x", "y_prev": "y", "moment_prev": "m", "moment_next": "mn", "x_prev_prev": "xpp", "tmp": "t",
             "x_next": "xn"}
SCA_NAMES = {"mu": "mu", "alpha": "alpha", "gamma": "gamma", "zeta": "zeta", "delta": "delta"}


def _term(n):
    """(lean term, 'v' | 's') of a numpy expression of the update formulas; raises on anything outside the fragment"""
    if isinstance(n, ast.Name):
        if n.id in VEC_NAMES:
            return VEC_NAMES[n.id], "v"
        if n.id in SCA_NAMES:
            return SCA_NAMES[n.id], "s"
        raise Untranslatable(f"expression: unknown name {n.id}")
    if isinstance(n, ast.Constant) and isinstance(n.value, (int, float)):
        if n.value == 1:
            return "1", "s"
        if n.value == 0.95:
            return "c95", "s"
        raise Untranslatable(f"expression: unexpected constant {n.value!r}")
    if isinstance(n, ast.Call) and ast.unparse(n.func) == "np.sqrt" and len(n.args) == 1 and isinstance(n.args[0], ast.Call) \
            and ast.unparse(n.args[0].func) == "np.sum" and isinstance(n.args[0].args[0], ast.BinOp) \
            and isinstance(n.args[0].args[0].op, ast.Pow) and ast.unparse(n.args[0].args[0].right) == "2":
        inner, ty = _term(n.args[0].args[0].left)
        if ty != "v":
            raise Untranslatable("expression: norm of a non-vector")
        return f"sqrt (normSq ({inner}))", "s"
    if isinstance(n, ast.Call) and ast.unparse(n.func) == "np.abs" and len(n.args) == 1:
        inner, ty = _term(n.args[0])
        if ty != "s":
            raise Untranslatable("expression: np.abs of a non-scalar")
        return f"(if {inner} < 0 then -({inner}) else {inner})", "s"
    if isinstance(n, ast.Call):
        fn = ast.unparse(n.func)
        args = [_term(a) for a in n.args]
        if fn == "loss_function.gradient" and len(args) == 1 and args[0][1] == "v":
            return f"grad ({args[0][0]})", "v"
        if fn == "loss_function.value" and len(args) == 1 and args[0][1] == "v":
            return f"f ({args[0][0]})", "s"
        if fn == "self.func_proj" and len(args) == 1 and args[0][1] == "v":
            return f"proj ({args[0][0]})", "v"
        if fn == "np.dot" and len(args) == 2 and args[0][1] == "v" and args[1][1] == "v":
            return f"dot ({args[0][0]}) ({args[1][0]})", "s"
        raise Untranslatable(f"expression: unexpected call {fn}")
    if isinstance(n, ast.BinOp):
        if isinstance(n.op, ast.Div) and ast.unparse(n) == "(k - 2) / (k + 1)":
            return "kcoef k", "s"
        (a, ta), (b, tb) = _term(n.left), _term(n.right)
        if isinstance(n.op, (ast.Add, ast.Sub)) and ta == tb:
            return f"({a} {'+' if isinstance(n.op, ast.Add) else '-'} {b})", ta
        if isinstance(n.op, ast.Mult):
            if ta == "s" and tb == "v":
                return f"({a} • {b})", "v"
            if ta == "s" and tb == "s":
                return f"({a} * {b})", "s"
        if isinstance(n.op, ast.Div) and ta == "v" and tb == "s":
            return f"((1 / {b}) • {a})", "v"
        raise Untranslatable(f"expression: unsupported operation in {ast.unparse(n)}")
    raise Untranslatable(f"expression: unsupported node {ast.unparse(n)}")


def _assign_node(node, target, what):
    for n in ast.walk(node):
        if isinstance(n, ast.Assign) and len(n.targets) == 1 and isinstance(n.targets[0], ast.Name) and n.targets[0].id == target \
                and not isinstance(n.value, ast.Constant):
            return n.value
    raise Untranslatable(f"{what}: assignment to {target} not found")


def lstr(xs):
    return "[" + ", ".join('"' + x.replace('"', '\\"') + '"' for x in xs) + "]"


def rat(x):
    f = Fraction(x)
    return f"mkRat ({f.numerator}) {f.denominator}"


def translate():
    pgd, pgdb, pgdm, fista, qop = _tree(PGD), _tree(PGDB), _tree(PGDM), _tree(FISTA), _tree(QOP)
    opt_init = _func(pgd, "ProjectedGradientDescentOption", "__init__")
    lists = _membership_lists(opt_init)
    for k in ("mode_stopping_criterion_gradient_descent", "mode_proj_order"):
        if k not in lists:
            raise Untranslatable(f"ProjectedGradientDescentOption.__init__: membership test for {k} not found")
    dflt = _defaults(opt_init)
    guard, rows = _selection(_func(pgd, "ProjectedGradientDescent", "set_constraint_from_standard_qt_and_option"))
    kw, kwsrc = _closure_keywords(_func(qop, "QOperation", "func_calc_proj_physical_with_var"))
    opt_b = _func(pgdb, "ProjectedGradientDescentBacktracking", "optimize")
    chains = {
        "Pgdb": _dispatch_chain(opt_b, "backtracking"),
        "Pgdm": _dispatch_chain(_func(pgdm, "ProjectedGradientDescentWithMomentum", "optimize"), "momentum"),
        "Fista": _dispatch_chain(_func(fista, "ProjectedFastIterativeShrinkageThresholdingAlgorithm", "optimize"), "fista"),
    }
    cmp_ = _stop_comparator(opt_b, "backtracking")
    a0, a1 = _line_search(opt_b)
    arm = _armijo(_func(pgdb, "ProjectedGradientDescentBacktracking", "_is_doing_for_alpha"))
    bdflt = _defaults(_func(pgdb, "ProjectedGradientDescentBacktrackingOption", "__init__"))

    opt_m = _func(pgdm, "ProjectedGradientDescentWithMomentum", "optimize")
    opt_f = _func(fista, "ProjectedFastIterativeShrinkageThresholdingAlgorithm", "optimize")
    lb, lm, lf = _main_loop(opt_b, "backtracking"), _main_loop(opt_m, "momentum"), _main_loop(opt_f, "fista")
    arm_fn = _func(pgdb, "ProjectedGradientDescentBacktracking", "_is_doing_for_alpha")
    updates = [
        ("pgdb.y_prev", _assign_in(lb, "y_prev", "backtracking")),
        ("pgdb.x_next", _assign_in(lb, "x_next", "backtracking")),
        ("pgdb.armijo.left", _assign_in(arm_fn, "left_side", "_is_doing_for_alpha")),
        ("pgdb.armijo.right", _assign_in(arm_fn, "right_side", "_is_doing_for_alpha")),
        ("pgdb.start", _assign_in(opt_b.body[[i for i, n in enumerate(opt_b.body) if isinstance(n, ast.If)
                                                and "var_start" in ast.unparse(n.test)][0]], "x_prev", "backtracking start")),
        ("pgdm.moment_next", _assign_in(lm, "moment_next", "momentum")),
        ("pgdm.x_next", _assign_in(lm, "x_next", "momentum")),
        ("pgdm.zeta", _assign_in(lm, "zeta", "momentum")),
        ("pgdm.magnitude", _assign_in(lm, "magnitude_next", "momentum")),
        ("fista.tmp", _assign_in(lf, "tmp", "fista")),
        ("fista.x_next", _assign_in(lf, "x_next", "fista")),
        ("sum_range", _assign_in(lb, "sum_range", "backtracking")),
        ("window", _assign_in(lb, "value", "backtracking")),
    ]
    errs = {"Pgdb": _err_exprs(opt_b, "backtracking"), "Pgdm": _err_exprs(opt_m, "momentum"), "Fista": _err_exprs(opt_f, "fista")}
    atol, epsdiv = _default_eps(opt_init, _tree("quara/settings.py"))
    suff = {
        "Pgdb": _suff_conditions(_func(pgdb, "ProjectedGradientDescentBacktracking", "is_option_sufficient")),
        "Pgdm": _suff_conditions(_func(pgdm, "ProjectedGradientDescentWithMomentum", "is_option_sufficient")),
        "Fista": _suff_conditions(_func(fista, "ProjectedFastIterativeShrinkageThresholdingAlgorithm", "is_option_sufficient")),
    }
    mdflt = _defaults(_func(pgdm, "ProjectedGradientDescentWithMomentumOption", "__init__"))

    g_setup, g_checks, g_opt, g_app, p_calls, p_app, p_src = _glue(_tree(LME), _tree(PLE))

    T = lambda node, tgt, what: _term(_assign_node(node, tgt, what))[0]  # noqa
    terms = {
        "yPrev": T(lb, "y_prev", "backtracking"), "xNextPgdb": T(lb, "x_next", "backtracking"),
        "armijoLeft": T(arm_fn, "left_side", "_is_doing_for_alpha"), "armijoRight": T(arm_fn, "right_side", "_is_doing_for_alpha"),
        "momentNext": T(lm, "moment_next", "momentum"), "xNextPgdm": T(lm, "x_next", "momentum"), "zetaNext": T(lm, "zeta", "momentum"),
        "fistaTmp": T(lf, "tmp", "fista"), "xNextFista": T(lf, "x_next", "fista"),
    }

    def err_terms(optimize, what):
        for n in ast.walk(optimize):
            if isinstance(n, ast.If) and isinstance(n.test, ast.Compare) and isinstance(n.test.left, ast.Attribute) \
                    and n.test.left.attr == "mode_stopping_criterion_gradient_descent":
                out, cur = [], n
                while True:
                    out.append(_term(cur.body[0].value)[0])
                    if len(cur.orelse) == 1 and isinstance(cur.orelse[0], ast.If):
                        cur = cur.orelse[0]
                    else:
                        return out
        raise Untranslatable(f"{what}: error_value chain not found")
    eb, em = err_terms(opt_b, "backtracking"), err_terms(opt_m, "momentum")
    if len(eb) != 4 or len(em) != 4 or err_terms(opt_f, "fista") != em:
        raise Untranslatable("error_value chains: expected four branches, identical for momentum and FISTA")

    def row(e, i, name, args):
        if e is None:
            return f'  (none, "{name}")'
        return f'  (some ({str(e).lower()}, {str(i).lower()}), "{name}")'

    phys = [r for r in rows if r[2] == "func_calc_proj_physical_with_var"]
    if len(phys) != 1:
        raise Untranslatable("selection: expected exactly one branch installing func_calc_proj_physical_with_var")
    pargs = phys[0][3]
    out = f'''/-! GENERATED by harness/c10_translate.py from the /repo sources -- do not edit.
{PGD}, {PGDB}, {PGDM}, {FISTA}, {QOP} -/
namespace QGen.C10

/-- strings accepted for `mode_stopping_criterion_gradient_descent` by `ProjectedGradientDescentOption.__init__` -/
def stopModes : List String := {lstr(lists["mode_stopping_criterion_gradient_descent"])}
/-- strings accepted for `mode_proj_order` -/
def projOrders : List String := {lstr(lists["mode_proj_order"])}
def defaultStopMode : String := "{dflt.get("mode_stopping_criterion_gradient_descent", "?")}"
def defaultNumHistory : Nat := {int(dflt.get("num_history_stopping_criterion_gradient_descent", 0))}
def defaultProjOrder : String := "{dflt.get("mode_proj_order", "?")}"

/-- the modes compared, in order, by the error-value if/elif chain of each `optimize` -/
def dispatchPgdb : List String := {lstr(chains["Pgdb"])}
def dispatchPgdm : List String := {lstr(chains["Pgdm"])}
def dispatchFista : List String := {lstr(chains["Fista"])}

/-- `set_constraint_from_standard_qt_and_option`: is there an early `return` when `_func_proj` is already set -/
def keepsInstalled : Bool := {str(guard).lower()}
/-- the flag tests `(on_algo_eq_constraint == e and on_algo_ineq_constraint == i)` in source order with the factory whose result
is installed; `none` = the final `else` -/
def selectionTable : List (Option (Bool × Bool) × String) := [
{(",\n").join(row(*r) for r in rows)}
]
/-- where the arguments of the physical-projection factory come from -/
def physicalOnParaSource : String := "{pargs.get("on_para_eq_constraint", "?")}"
def physicalOrderSource : String := "{pargs.get("mode_proj_order", "?")}"
def physicalMaxIterSource : String := "{pargs.get("max_iteration", "?")}"
/-- keywords (and their sources) that the closure built by `QOperation.func_calc_proj_physical_with_var` forwards -/
def physicalClosureKeywords : List String := {lstr(kw)}
def physicalClosureSources : List String := {lstr(kwsrc)}

/-- backtracking line search: `alpha = alphaStart`, `alpha = alphaFactor * alpha` -/
def alphaStart : Rat := {rat(a0)}
def alphaFactor : Rat := {rat(a1)}
/-- `_is_doing_for_alpha` returns `armijoLeft <armijoOp> armijoRight` -/
def armijoOp : String := "{arm[0]}"
def armijoLeft : String := "{arm[1]}"
def armijoRight : String := "{arm[2]}"
/-- `is_doing = <stopThen> if <stopLeft> <stopOp> <stopRight> else <stopElse>` -/
def stopOp : String := "{cmp_[0]}"
def stopLeft : String := "{cmp_[1]}"
def stopRight : String := "{cmp_[2]}"
def stopThen : Bool := {str(bool(cmp_[3])).lower()}
def stopElse : Bool := {str(bool(cmp_[4])).lower()}
/-- defaults of `ProjectedGradientDescentBacktrackingOption` -/
def defaultGamma : Rat := {rat(bdflt.get("gamma", 0))}
def defaultMaxIterationOptimization : Nat := {int(bdflt.get("max_iteration_optimization", 0))}
def defaultMaxIterationProjPhysical : Nat := {int(bdflt.get("max_iteration_proj_physical", 0))}


/-- default stopping threshold: `eps = Settings.get_atol() / epsDivisor`, `Settings.__first_default_atol = defaultAtol` -/
def defaultAtol : Rat := {rat(atol)}
def epsDivisor : Rat := {rat(epsdiv)}
def defaultEps : Rat := defaultAtol / epsDivisor

/-- the value assigned to `error_value` in each branch of the stopping-criterion chain (same order as `dispatch…`) -/
def errExprPgdb : List String := {lstr(errs["Pgdb"])}
def errExprPgdm : List String := {lstr(errs["Pgdm"])}
def errExprFista : List String := {lstr(errs["Fista"])}

/-- the update formulas of the three loops, the line-search sides, the start point and the window sum, as source text -/
def updateExprs : List (String × String) := [
{(",\n").join('  ("' + k + '", "' + v.replace('"', '\\"') + '")' for k, v in updates)}
]

/-- `is_option_sufficient`: the conditions under which each algorithm rejects its option object -/
def insufficientPgdb : List String := {lstr(suff["Pgdb"])}
def insufficientPgdm : List String := {lstr(suff["Pgdm"])}
def insufficientFista : List String := {lstr(suff["Fista"])}
def defaultMomentumR : Rat := {rat(mdflt.get("r", 0))}

/-- `LossMinimizationEstimator.calc_estimate_sequence`, body of the data loop: configuration calls in order, the four validations
in order, the optimize call, the value appended to `estimated_var_sequence` -/
def lmeSetupCalls : List String := {lstr(g_setup)}
def lmeValidationOrder : List String := {lstr(g_checks)}
def lmeOptimizeCall : String := "{g_opt}"
def lmeAppended : String := "{g_app}"
/-- `ProjectedLinearEstimator.calc_estimate_sequence`: where the linear estimates come from, the calls on each of them, what is
appended (with / without computation times) -/
def pleSource : List String := {lstr(p_src)}
def pleLoopCalls : List String := {lstr(p_calls)}
def pleAppended : List String := {lstr(p_app)}

/-! ## the update formulas as Lean terms, translated from the source expressions (numpy `*`, `/`, `np.dot`, `loss_function.value`,
`loss_function.gradient`, `self.func_proj`; `(k - 2) / (k + 1)` is `kcoef k`, the literal `0.95` is `c95`) -/
section terms
variable {{K V : Type}} [Add V] [Sub V] [SMul K V] [Add K] [Sub K] [Mul K] [Div K] [One K]

def yPrev (proj grad : V → V) (mu : K) (x : V) : V := {terms["yPrev"]}
def xNextPgdb (x y : V) (alpha : K) : V := {terms["xNextPgdb"]}
def armijoLhs (f : V → K) (x y : V) (alpha : K) : K := {terms["armijoLeft"]}
def armijoRhs (f : V → K) (grad : V → V) (dot : V → V → K) (x y : V) (alpha gamma : K) : K := {terms["armijoRight"]}
def momentNext (grad : V → V) (zeta gamma : K) (m x : V) : V := {terms["momentNext"]}
def xNextPgdm (proj : V → V) (x mn : V) : V := {terms["xNextPgdm"]}
def zetaNext (zeta c95 : K) : K := {terms["zetaNext"]}
def fistaTmp (grad : V → V) (kcoef : Nat → K) (delta : K) (k : Nat) (x xpp : V) : V := {terms["fistaTmp"]}
def xNextFista (proj : V → V) (t : V) : V := {terms["xNextFista"]}

/-- the four `error_value` expressions of the backtracking loop (`xn` = `x_next`, `y` = `y_prev`) and of the momentum / FISTA loops -/
def errPgdb [Neg K] [Zero K] [LT K] [DecidableLT K] (f : V → K) (sqrt : K → K) (normSq : V → K) (x xn y : V) : List K :=
  [{", ".join(eb)}]
def errPgdmFista [Neg K] [Zero K] [LT K] [DecidableLT K] (f : V → K) (sqrt : K → K) (normSq : V → K) (x xn : V) : List K :=
  [{", ".join(em)}]

end terms

end QGen.C10
'''
    path = os.path.join(LEAN, "QGen", "C10.lean")
    if not os.path.exists(path) or open(path).read() != out:
        open(path, "w").write(out)
    return out
