"""C12 — loss values, derivatives and fast paths agree: correspondence with QModel.C12 and property oracle.

Correspondence: value / gradient / Hessian of the generic and fast squared-error losses, the relative-entropy
kernels (numpy's log values handed to the model), the weights installed by sequences of
`set_from_standard_qtomography_option_data` calls (state records of the model), inverse-covariance inputs.
Oracle (real code, independent references): exact Taylor identity of the quadratic losses, defining formulas
on Born-rule probabilities, central differences for the entropy, generic == fast for every weighting mode and
outcome counts 2..5 on all four tomographies and both flags, every mode takes effect."""
import math
import os
from fractions import Fraction
import numpy as np
import shim  # noqa: F401
from common import Driver, q, qlist, unq, unqlist, close
import qobj
from c19 import build, born_probs, KINDS
from quara.utils import matrix_util as mu
from quara.math import entropy as ent
from quara.loss_function.weighted_probability_based_squared_error import (
    WeightedProbabilityBasedSquaredError as WSE, WeightedProbabilityBasedSquaredErrorOption as WSEO)
from quara.loss_function.standard_qtomography_based_weighted_probability_based_squared_error import (
    StandardQTomographyBasedWeightedProbabilityBasedSquaredError as FWSE,
    StandardQTomographyBasedWeightedProbabilityBasedSquaredErrorOption as FWSEO)
from quara.loss_function.weighted_relative_entropy import WeightedRelativeEntropy as WRE, WeightedRelativeEntropyOption as WREO
from quara.loss_function.standard_qtomography_based_weighted_relative_entropy import (
    StandardQTomographyBasedWeightedRelativeEntropy as FWRE, StandardQTomographyBasedWeightedRelativeEntropyOption as FWREO)
from quara.loss_function.simple_quadratic_loss_function import SimpleQuadraticLossFunction

from quara.settings import Settings
ATOL = q(Settings.get_atol())
EPS10 = "1/10000000000"
EPS8 = "1/100000000"
MODES = ("identity", "custom", "inverse_sample_covariance", "inverse_unbiased_covariance")
ALIAS = "unbiased_inverse_covariance"       # accepted alias of inverse_unbiased_covariance
MODES_W = MODES + (ALIAS,)


def is_cov(mode):
    return mode.startswith("inverse") or mode == ALIAS


# ----------------------------------------------------------------------------- translator: source -> lean/QGen/C12.lean
class Untranslatable(Exception):
    pass


def _src(rel):
    import ast, common
    path = os.path.join(common.REPO, rel)
    return ast.parse(open(path, encoding="utf-8").read()), rel


def _cls(tree, rel, name):
    import ast
    for n in tree.body:
        if isinstance(n, ast.ClassDef) and n.name == name:
            return n
    raise Untranslatable(f"{rel}: class {name} not found")


def _meth(cls, rel, name):
    import ast
    for n in cls.body:
        if isinstance(n, ast.FunctionDef) and n.name == name:
            return n
    raise Untranslatable(f"{rel}: {cls.name}.{name} not found")


def _body(fn):
    """statements without the docstring"""
    import ast
    b = fn.body
    if b and isinstance(b[0], ast.Expr) and isinstance(b[0].value, ast.Constant) and isinstance(b[0].value.value, str):
        b = b[1:]
    return b


def _mode_tests(test, where):
    """`mode_weight == "a"` or an `or` of such -> list of strings"""
    import ast
    if isinstance(test, ast.BoolOp) and isinstance(test.op, ast.Or):
        return [x for v in test.values for x in _mode_tests(v, where)]
    if (isinstance(test, ast.Compare) and len(test.ops) == 1 and isinstance(test.ops[0], ast.Eq)
            and isinstance(test.left, ast.Name) and test.left.id == "mode_weight"
            and isinstance(test.comparators[0], ast.Constant) and isinstance(test.comparators[0].value, str)):
        return [test.comparators[0].value]
    raise Untranslatable(f"{where}: unsupported mode test `{ast.unparse(test)}`")


def _option_table(rel, clsname):
    """(accepted mode strings, weights-force-custom) from `<Option>.__init__`"""
    import ast
    tree, rel = _src(rel)
    init = _meth(_cls(tree, rel, clsname), rel, "__init__")
    accepted, forces = None, False
    for st in _body(init):
        if isinstance(st, ast.If):
            t = ast.unparse(st.test)
            if t == "weights is not None":
                if [ast.unparse(x) for x in st.body] != ["mode_weight = 'custom'"] or st.orelse:
                    raise Untranslatable(f"{rel}:{st.lineno}: unexpected body of `if weights is not None`")
                forces = True
            elif (isinstance(st.test, ast.UnaryOp) and isinstance(st.test.op, ast.Not) and isinstance(st.test.operand, ast.Compare)
                  and isinstance(st.test.operand.ops[0], ast.In) and ast.unparse(st.test.operand.left) == "mode_weight"
                  and isinstance(st.test.operand.comparators[0], ast.List)):
                if accepted is not None or not (len(st.body) == 1 and isinstance(st.body[0], ast.Raise)):
                    raise Untranslatable(f"{rel}:{st.lineno}: unexpected accepted-mode test")
                accepted = []
                for e in st.test.operand.comparators[0].elts:
                    if not (isinstance(e, ast.Constant) and isinstance(e.value, str)):
                        raise Untranslatable(f"{rel}:{e.lineno}: non-literal mode in the accepted list")
                    accepted.append(e.value)
            else:
                raise Untranslatable(f"{rel}:{st.lineno}: unsupported statement in {clsname}.__init__: `{t}`")
        elif isinstance(st, ast.Expr) and ast.unparse(st.value).startswith("super().__init__("):
            pass
        else:
            raise Untranslatable(f"{rel}:{st.lineno}: unsupported statement in {clsname}.__init__: `{ast.unparse(st)}`")
    if accepted is None:
        raise Untranslatable(f"{rel}: {clsname}.__init__ has no accepted-mode list")
    return accepted, forces


_INV_LOOP = [   # the loop body of the covariance modes, statement by statement (ast.unparse), `{COV}` = the mode split
    "empi_dist = matrix_util.replace_prob_dist(empi_dist_original)",
    "{COV}",
    "weight_matrix = np.zeros(covariance_mat.shape)",
    "row, col = covariance_mat.shape",
    "extracted_mat = covariance_mat[:-1, :-1] + np.eye(row - 1) / num_data ** (3 / 2)",
    "extracted_mat_inv = np.linalg.inv(extracted_mat)",
    "extracted_mat_inv = (extracted_mat_inv + extracted_mat_inv.T) / 2",
    "if row == 2 and col == 2:\n    weight_matrix[0, 0] = extracted_mat_inv[0, 0]\nelse:\n    weight_matrix[:row - 1, :col - 1] = extracted_mat_inv",
    "weight_matrices.append(weight_matrix)",
]


def _branches(rel, clsname, setter):
    """if/elif chain of `_set_weights_by_mode` -> [(mode string, branch text)], loudly failing on anything else"""
    import ast
    tree, rel = _src(rel)
    fn = _meth(_cls(tree, rel, clsname), rel, "_set_weights_by_mode")
    body = _body(fn)
    if len(body) != 1 or not isinstance(body[0], ast.If):
        raise Untranslatable(f"{rel}:{fn.lineno}: _set_weights_by_mode is not a single if/elif chain")
    out, node = [], body[0]
    while True:
        where = f"{rel}:{node.lineno}"
        modes = _mode_tests(node.test, where)
        texts = [ast.unparse(x) for x in node.body]
        if texts == [f"self.{setter}(None)"]:
            kinds = {m_: ".reset" for m_ in modes}
        elif texts == [f"self.{setter}(self.option.weights)"]:
            kinds = {m_: ".optionWeights" for m_ in modes}
        elif (len(node.body) == 3 and texts[0] == "weight_matrices = []" and isinstance(node.body[1], ast.For)
              and texts[2] == f"self.{setter}(weight_matrices)"):
            loop = node.body[1]
            if ast.unparse(loop.target) != "(num_data, empi_dist_original)" or ast.unparse(loop.iter) != "data" or loop.orelse:
                raise Untranslatable(f"{where}: unexpected loop header `{ast.unparse(loop.target)} in {ast.unparse(loop.iter)}`")
            if len(loop.body) != len(_INV_LOOP):
                raise Untranslatable(f"{where}: covariance loop has {len(loop.body)} statements, expected {len(_INV_LOOP)}")
            kinds = {}
            for st, want in zip(loop.body, _INV_LOOP):
                if want == "{COV}":
                    if not (isinstance(st, ast.If) and len(st.body) == 1 and len(st.orelse) == 1):
                        raise Untranslatable(f"{rel}:{st.lineno}: unexpected covariance split")
                    first = _mode_tests(st.test, f"{rel}:{st.lineno}")
                    a, b = ast.unparse(st.body[0]), ast.unparse(st.orelse[0])
                    pat = "covariance_mat = matrix_util.calc_covariance_mat(empi_dist, %s)"
                    den = {pat % "num_data": "false", pat % "num_data - 1": "true"}
                    if a not in den or b not in den:
                        raise Untranslatable(f"{rel}:{st.lineno}: unexpected covariance denominators `{a}` / `{b}`")
                    for m_ in modes:
                        kinds[m_] = f"(.invCov {den[a] if m_ in first else den[b]})"
                elif ast.unparse(st) != want:
                    raise Untranslatable(f"{rel}:{st.lineno}: covariance loop statement `{ast.unparse(st)}` != expected `{want}`")
        else:
            raise Untranslatable(f"{where}: unsupported branch body {texts}")
        out += [(m_, kinds[m_]) for m_ in modes]
        if len(node.orelse) == 1 and isinstance(node.orelse[0], ast.If):
            node = node.orelse[0]
        elif not node.orelse:
            break
        else:
            raise Untranslatable(f"{rel}:{node.lineno}: unexpected else branch in _set_weights_by_mode")
    return out


def _wiring_order():
    """method calls of `set_from_standard_qtomography_option_data`, in order, with their guard"""
    import ast
    rel = "quara/loss_function/probability_based_loss_function.py"
    tree, rel = _src(rel)
    fn = _meth(_cls(tree, rel, "ProbabilityBasedLossFunction"), rel, "set_from_standard_qtomography_option_data")
    out = []

    def call(st, guard):
        if not (isinstance(st, ast.Expr) and isinstance(st.value, ast.Call) and isinstance(st.value.func, ast.Attribute)
                and ast.unparse(st.value.func.value) == "self"):
            raise Untranslatable(f"{rel}:{st.lineno}: unsupported wiring statement `{ast.unparse(st)}`")
        out.append((st.value.func.attr, guard, [ast.unparse(a) for a in st.value.args]))
    for st in _body(fn):
        if isinstance(st, ast.Assign) and ast.unparse(st) == "empi_dists = [empi_dist_tmp[1] for empi_dist_tmp in data]":
            continue
        if isinstance(st, ast.If):
            g = ast.unparse(st.test)
            if g not in ("is_gradient_required", "is_hessian_required") or st.orelse or len(st.body) != 1:
                raise Untranslatable(f"{rel}:{st.lineno}: unsupported guard `{g}`")
            call(st.body[0], {"is_gradient_required": "grad", "is_hessian_required": "hess"}[g])
        else:
            call(st, "always")
    want_args = {"set_from_option": ["option"], "set_prob_dists_q": ["empi_dists"], "_set_weights_by_mode": ["option.mode_weight", "data"]}
    for name, _, args in out:
        if name in want_args and args != want_args[name]:
            raise Untranslatable(f"{rel}: {name} called with {args}, expected {want_args[name]}")
    return [(n_, g_) for n_, g_, _ in out]


def _fast_facts():
    """the cache discipline of the two fast classes as booleans (exact statement lists)"""
    import ast
    facts = {}
    rel = "quara/loss_function/standard_qtomography_based_weighted_probability_based_squared_error.py"
    tree, rel = _src(rel)
    c = _cls(tree, rel, "StandardQTomographyBasedWeightedProbabilityBasedSquaredError")
    facts["fastWseSetterRebuilds"] = [ast.unparse(x) for x in _body(_meth(c, rel, "set_weight_matrices"))] == \
        ["super().set_weight_matrices(weight_matrices)", "self._calc_extend_weight_matrix()"]
    first = _body(_meth(c, rel, "_calc_extend_weight_matrix"))[0]
    facts["fastWseCalcResetsOnNone"] = ast.unparse(first) == "if self.weight_matrices is None:\n    self._extend_weight_matrix = None\n    return"
    for mname, key in (("set_func_prob_dists_from_standard_qt", "fastWseModelSetterRebuilds"),
                       ("set_func_gradient_prob_dists_from_standard_qt", "fastWseGradSetterRebuilds")):
        facts[key] = "self._calc_extend_weight_matrix()" in [ast.unparse(x) for x in _body(_meth(c, rel, mname))]
    rel2 = "quara/loss_function/standard_qtomography_based_weighted_relative_entropy.py"
    tree2, rel2 = _src(rel2)
    c2 = _cls(tree2, rel2, "StandardQTomographyBasedWeightedRelativeEntropy")
    facts["fastWreSetterRebuilds"] = [ast.unparse(x) for x in _body(_meth(c2, rel2, "set_weights"))] == \
        ["super().set_weights(weights)", "if self.prob_dists_q is not None:\n    self._calc_extend_weights()"]
    return facts


def translate(ctx):
    import common
    try:
        wse_acc, wse_force = _option_table("quara/loss_function/weighted_probability_based_squared_error.py", "WeightedProbabilityBasedSquaredErrorOption")
        wre_acc, wre_force = _option_table("quara/loss_function/weighted_relative_entropy.py", "WeightedRelativeEntropyOption")
        wse_br = _branches("quara/loss_function/weighted_probability_based_squared_error.py", "WeightedProbabilityBasedSquaredError", "set_weight_matrices")
        wre_br = _branches("quara/loss_function/weighted_relative_entropy.py", "WeightedRelativeEntropy", "set_weights")
        order = _wiring_order()
        facts = _fast_facts()
    except Untranslatable as e:
        return [f"translator (QGen/C12.lean): {e}"]

    def strs(l):
        return "[" + ", ".join('"%s"' % x for x in l) + "]"

    def chain(br):
        return "\n".join(f'  {"if" if i == 0 else "else if"} mode = "{m_}" then some {k}' for i, (m_, k) in enumerate(br)) + "\n  else none"
    L = ["/-! GENERATED by harness/c12.py:translate from quara/loss_function/*.py on every run — do not edit.",
         "Mode tables of the option classes, the if/elif chains of `_set_weights_by_mode` (branch kind per mode string; the covariance",
         "loop is matched statement by statement), the call order of `set_from_standard_qtomography_option_data`, cache discipline of",
         "the fast classes. -/", "namespace QGen.C12", "",
         "/-- what a branch of `_set_weights_by_mode` does: setter(None) | setter(option.weights) | covariance loop (`true` = `num_data - 1`) -/",
         "inductive Branch", "  | reset | optionWeights | invCov (unbiased : Bool)", "deriving DecidableEq, Repr", "",
         f"def wseAccepted : List String := {strs(wse_acc)}", f"def wseForcesCustom : Bool := {'true' if wse_force else 'false'}",
         "def wseBranch (mode : String) : Option Branch :=", chain(wse_br), "",
         f"def wreAccepted : List String := {strs(wre_acc)}", f"def wreForcesCustom : Bool := {'true' if wre_force else 'false'}",
         "def wreBranch (mode : String) : Option Branch :=", chain(wre_br), "",
         "/-- (method called on `self`, guard) in source order -/",
         "def wiringOrder : List (String × String) := [" + ", ".join(f'("{n_}", "{g_}")' for n_, g_ in order) + "]", ""]
    for k, v in facts.items():
        L.append(f"def {k} : Bool := {'true' if v else 'false'}")
    L += ["", "end QGen.C12", ""]
    path = os.path.join(common.LEAN, "QGen", "C12.lean")
    new = "\n".join(L)
    if not os.path.exists(path) or open(path).read() != new:
        open(path, "w").write(new)
    return []


# ----------------------------------------------------------------------------- generators
def sym_weights(g, S, m, kind="psd", bits=4):
    out = []
    for j in range(S):
        if kind == "sparse":
            # symmetric, at most m non-zero entries, NOT diagonal (zero diagonal / a single off-diagonal pair / mixed)
            w = np.zeros((m, m))
            if j % 3 == 0 or m == 2:
                w[0, 1] = w[1, 0] = 1.0 + j
            elif j % 3 == 1:
                w[0, 0] = 1.0; w[0, 1] = w[1, 0] = 0.5
            else:
                w[0, m - 1] = w[m - 1, 0] = -0.75; w[1, 1] = 2.0 if m > 3 else 0.0
            out.append(w)
            continue
        a = qobj.dyadic(g, (m, m), bits)
        w = a @ a.T + np.eye(m) / 4 if kind == "psd" else (a + a.T) / 2
        out.append(np.array(w, dtype=np.float64))
    return out


def make_data(g, ps, n, zeros=False):
    """empirical distributions with a DIFFERENT number of shots per schedule (factors 1, 5, 25, 2, 10 … in a random
    rotation), so that per-schedule quantities (inverse-covariance weights) cannot be computed from one shot count"""
    data = []
    factors = [1, 5, 25, 2, 10, 3]
    rot = int(g.integers(0, len(factors)))
    for j, p in enumerate(ps):
        p = np.clip(p, 0, None); p = p / p.sum()
        base = n if not zeros else min(n, 4)
        nn = max(2, base * factors[(j + rot) % len(factors)]) if not zeros else max(2, base + (j + rot) % 4)
        # the shot count arrives as a Python int, an np.int64 (e.g. counts.sum(); also several million shots) or an np.int32
        ty = (j + rot) % 3
        if not zeros and ty == 1:
            nn = np.int64(nn * 60000 if j % 2 == 0 else nn)
        elif not zeros and ty == 2:
            nn = np.int32(max(int(nn), 1500))
        data.append((nn, g.multinomial(int(nn), p) / int(nn)))
    return data


def point(g, qt, true, kind, testers, where):
    """variable point: 'true', 'inside' (small offset), 'outside' (probabilities may leave [0,1])"""
    v = np.array(true.to_var(), dtype=np.float64)
    if where == "true":
        return v
    scale = 0.02 if where == "inside" else 0.7
    return v + qobj.dyadic(g, v.shape, 10, scale)


def positive_point(g, qt, true, lo=0.03):
    """a point (generally not physical) at which every predicted probability is >= lo"""
    v0 = np.array(true.to_var(), dtype=np.float64)
    A, b = qt.calc_matA(), qt.calc_vecB()
    # move the true point towards the maximally mixed object until it is interior, then perturb
    d = qobj.dyadic(g, v0.shape, 10, 0.05)
    for shrink in (1.0, 0.5, 0.25, 0.1, 0.0):
        for mix in (0.0, 0.3, 0.6, 0.9):
            v = (1 - mix) * v0 + mix * _mixed_var(qt) + shrink * d
            if (A @ v + b).min() >= lo:
                return v
    return _mixed_var(qt)


def _mixed_var(qt):
    A, b = qt.calc_matA(), qt.calc_vecB()
    S = qt.num_schedules
    m = A.shape[0] // S
    # least-squares point with uniform predicted distributions
    return np.linalg.lstsq(A, np.full(A.shape[0], 1.0 / m) - b, rcond=None)[0]


def configs(quick, volume=1):
    out = []
    for kind in KINDS:
        for flag in (True, False):
            for m in ((2, 3) if quick else (2, 3, 4, 5)):
                if kind in ("qpt", "qmpt") and m > 3:
                    continue
                if kind == "qmpt" and (m > 2 and quick):
                    continue
                out.append((kind, flag, m))
    if quick:
        out += [("qst", True, 4), ("qst", False, 5), ("povmt", True, 4), ("povmt", False, 5)]
    return out * volume


def build_m(g, kind, flag, m):
    """tomography whose schedules have `m` outcomes (qmpt: m = object outcomes x 2-outcome tester POVMs needs m even)"""
    if kind == "qst":
        return build(g, "qst", flag, m=m)
    if kind == "povmt":
        return build(g, "povmt", flag, mo=m)
    if kind == "qpt":
        return build(g, "qpt", flag, m=m)
    mo = 2 if m < 4 else m // 2
    return build(g, "qmpt", flag, m=m if m < 4 else 2, mo=mo)


def blocks(qt):
    A, b = qt.calc_matA(), qt.calc_vecB()
    S = qt.num_schedules
    m = A.shape[0] // S
    return [(A[j * m:(j + 1) * m], b[j * m:(j + 1) * m]) for j in range(S)], m


def generic_wse(qt, data, Ws):
    l = WSE(qt.num_variables, weight_matrices=Ws)
    l.set_prob_dists_q([d[1] for d in data])
    l.set_func_prob_dists_from_standard_qt(qt)
    l.set_func_gradient_prob_dists_from_standard_qt(qt)
    l.set_func_hessian_prob_dists_from_standard_qt(qt)
    return l


def fast_wse(qt, data, Ws):
    l = FWSE(qt.num_variables, prob_dists_q=[d[1] for d in data], weight_matrices=Ws)
    l.set_func_prob_dists_from_standard_qt(qt)
    l.set_func_gradient_prob_dists_from_standard_qt(qt)
    return l


def inv_cov_reference(data, mode, padded=True):
    """the mode's definition, written independently: zero-padded inverse of the regularised leading block of the
    (sample / unbiased) covariance of the clipped empirical distribution"""
    out = []
    for n, f in data:
        m = len(f)
        eps = 1e-8
        small = f < eps
        ft = np.where(small, eps, f - eps * small.sum() / max(1, m - small.sum()))
        nn = n if mode == "inverse_sample_covariance" else n - 1
        cov = (np.diag(ft) - np.outer(ft, ft)) / nn
        ex = cov[:-1, :-1] + np.eye(m - 1) / n ** 1.5
        W = np.zeros((m, m))
        W[:m - 1, :m - 1] = np.linalg.inv(ex)
        out.append(W)
    return out


def toks_scheds(qt, data):
    bl, m = blocks(qt)
    t = []
    for (A, b), (_, f) in zip(bl, data):
        t += [qlist(A.flatten()), qlist(b), qlist(f)]
    return t, m


def toks_weights(Ws):
    if Ws is None:
        return ["none"]
    return [len(Ws)] + [qlist(W.flatten()) for W in Ws]


def err_kind(e):
    s = str(e)
    if "must be symmetric" in s:
        return "notSymmetric"
    if "broadcast" in s:
        return "broadcast"
    if isinstance(e, IndexError):
        return "index"
    if "shapes" in s or "mismatch" in s or "aligned" in s:
        return "shape"
    return type(e).__name__


def show_ws(ws):
    if ws is None:
        return None
    return [np.asarray(w, dtype=float) for w in ws]


# ----------------------------------------------------------------------------- correspondence
def correspondence(ctx):
    ctx.partial = []
    ctx.notes.append("an EMPTY custom weight list (weights=[]) is outside the quantifier (one weight per schedule): the generic classes then "
                     "evaluate unweighted (`if self.weights:`), the fast ones raise (IndexError / broadcast ValueError); both behaviours are "
                     "modelled and compared, not reported")
    ctx.notes.append("hessian of the fast losses raises NotImplementedError by design; fast = generic is proved for value and gradient")
    drv = Driver("C12")
    pend = []

    def ask(op, inp, impl, *toks, tol=1e-9, kind="vec"):
        pend.append((op, inp, impl, drv.ask(*toks), kind, tol))
        ctx.corr_ops.add(op)

    g = ctx.npgen(1)
    confs = configs(ctx.quick)
    for ci, (kind, flag, m) in enumerate(confs):
        qt, true, testers = build_m(g, kind, flag, m)
        S, nv = qt.num_schedules, qt.num_variables
        ps = qt.calc_prob_dists(true)
        mm = len(ps[0])
        data = make_data(g, ps, 50, zeros=(ci % 2 == 1))
        wkind = [None, "psd", "sym", "sparse"][ci % 4]
        Ws = None if wkind is None else sym_weights(g, S, mm, wkind)
        where = ["inside", "outside", "true"][ci % 3]
        x = point(g, qt, true, kind, testers, where)
        ctx.count(f"wse {kind} flag={flag} m={mm} weights={wkind} point={where}")
        ctx.case(("wse", kind, flag, mm, wkind, where, ci),
                 sample={"op": "wse", "kind": kind, "on_para_eq_constraint": flag, "outcomes": mm, "weights": wkind, "point": where})
        st, _ = toks_scheds(qt, data)
        base = [mm, nv, S, qlist(x)] + st + toks_weights(Ws)
        lg = generic_wse(qt, data, Ws)
        lf = fast_wse(qt, data, Ws)
        key = (kind, flag, mm, wkind, where)
        ask("wse-value", key, [float(lg.value(x))], "wse", "value", *base)
        ask("wse-grad", key, [float(v) for v in lg.gradient(x)], "wse", "grad", *base)
        if nv <= 16:
            ask("wse-hess", key, [float(v) for v in lg.hessian(x).flatten()], "wse", "hess", *base)
        ask("fast-value", key, [float(lf.value(x))], "wse", "fvalue", *base)
        ask("fast-grad", key, [float(v) for v in lf.gradient(x)], "wse", "fgrad", *base)
        # error branches: one matrix too few (generic: IndexError), one too many (generic ignores it, fast: shape error)
        if Ws is not None and S > 1:
            for nameW, Wbad in (("short", Ws[:-1]), ("long", Ws + [Ws[0]])):
                baseb = [mm, nv, S, qlist(x)] + st + toks_weights(Wbad)
                for opn, which, mk in (("wse-value", "value", generic_wse), ("fast-value", "fvalue", fast_wse)):
                    try:
                        implb = [float(mk(qt, data, Wbad).value(x))]
                    except Exception as e:  # noqa
                        implb = "err " + err_kind(e)
                    ask(opn, key + (nameW,), implb, "wse", which, *baseb)
        # relative entropy kernels per schedule (numpy's log values are handed to the model)
        xp = positive_point(g, qt, true) if ci % 3 != 1 else x
        A, b = qt.calc_matA(), qt.calc_vecB()
        pvec = A @ xp + b
        tot_val = Fraction(0)
        for j in range(S):
            qj = data[j][1]
            pj = pvec[j * mm:(j + 1) * mm]
            qr = np.where(qj > 1e-10, qj, 1e-10)
            pr = np.where(pj > 1e-10, pj, 1e-10)
            arg = np.where(qr / pr > 1e-10, qr / pr, 1e-10)
            logs = np.log(arg)
            if np.any(np.abs(pj - 1e-10) < 1e-12) or np.any(np.abs(qj - 1e-10) < 1e-12):
                continue
            rb = [EPS10, EPS10, qlist(qj), qlist(pj)]
            with np.errstate(all="ignore"):
                ask("relent-logarg", (key, j), [float(v) for v in arg], "relent", "logarg", *rb, qlist(logs))
                ask("relent-value", (key, j), [float(ent.relative_entropy(qj, pj, is_valid_required=False))], "relent", "value", *rb, qlist(logs))
                ask("relent-vvalue", (key, j), [float(np.sum(ent.relative_entropy_vector(qj, pj, is_valid_required=False)))],
                    "relent", "vvalue", *rb, qlist(logs))
                Aj = A[j * mm:(j + 1) * mm]
                gr = ent.gradient_relative_entropy_2nd(qj, pj, Aj, is_valid_required=False)
                gv = np.sum(ent.gradient_relative_entropy_2nd_vector(qj, pj, Aj, is_valid_required=False), axis=0)
                al = int(g.integers(0, nv)); be = int(g.integers(0, nv))
                # float cancellation between huge terms (p clipped to 1e-10 outside the physical set): scale the tolerance
                cs = max(1.0, float(np.sum(np.abs(qj * Aj[:, al] / pr))))
                cs2 = max(1.0, float(np.sum(np.abs(qj * Aj[:, al] * Aj[:, be] / pr ** 2))))
                ask("relent-grad", (key, j, al), [float(gr[al])], "relent", "grad", *rb, qlist(Aj[:, al]), tol=1e-8 * cs)
                ask("relent-vgrad", (key, j, al), [float(gv[al])], "relent", "vgrad", *rb, qlist(Aj[:, al]), tol=1e-8 * cs)
                hs = ent.hessian_relative_entropy_2nd(qj, pj, Aj, np.zeros((mm, nv, nv)), is_valid_required=False)
                ask("relent-hess", (key, j, al, be), [float(hs[al, be])], "relenthess", EPS10, EPS10, qlist(qj), qlist(pj),
                    qlist(Aj[:, al]), qlist(Aj[:, be]), tol=1e-8 * cs2)
            ctx.case(("relent", key, j), nontrivial=bool(np.any(qj == 0)) or where != "true")
    # ---- weighted sums of the relative-entropy losses (weights None / empty / given / too short)
    for t in range(6 if ctx.quick else 30):
        kind, flag, m = confs[t % len(confs)]
        qt, true, testers = build_m(g, kind, flag, m)
        S = qt.num_schedules
        ps = qt.calc_prob_dists(true)
        data = make_data(g, ps, 40, zeros=(t % 2 == 0))
        x = positive_point(g, qt, true)
        wsel = [None, [], [float(v) for v in g.integers(0, 4, size=S)]][t % 3]      # exact zeros included
        l = WRE(qt.num_variables, prob_dists_q=[d[1] for d in data], weights=wsel)
        l.set_func_prob_dists_from_standard_qt(qt)
        terms = []
        A, b = qt.calc_matA(), qt.calc_vecB()
        mm = len(ps[0])
        for j in range(S):
            terms.append(float(ent.relative_entropy(data[j][1], (A @ x + b)[j * mm:(j + 1) * mm], is_valid_required=False)))
        ask("wre-sum", (kind, flag, m, t), [float(l.value(x))], "wresum", "none" if wsel is None else qlist(wsel), qlist(terms))
        ctx.case(("wresum", kind, flag, m, t), nontrivial=bool(wsel))
        # weighted gradient of the generic loss (component α) = the same weighted sum of the per-schedule gradient kernels
        l.set_func_gradient_prob_dists_from_standard_qt(qt)
        al = int(g.integers(0, qt.num_variables))
        pv = A @ x + b
        gterms = [float(ent.gradient_relative_entropy_2nd(data[j][1], pv[j * mm:(j + 1) * mm], A[j * mm:(j + 1) * mm],
                                                          is_valid_required=False)[al]) for j in range(S)]
        ask("wre-grad-sum", (kind, flag, m, t, al), [float(l.gradient(x)[al])], "wresum", "none" if wsel is None else qlist(wsel),
            qlist(gterms), tol=1e-8)
        # too few weights: IndexError in the generic loop
        if S > 1:
            wshort = [1.0] * (S - 1)
            ls_ = WRE(qt.num_variables, prob_dists_q=[d[1] for d in data], weights=wshort)
            ls_.set_func_prob_dists_from_standard_qt(qt)
            try:
                impl_s = [float(ls_.value(x))]
            except IndexError:
                impl_s = "err index"
            ask("wre-sum", (kind, flag, m, t, "short"), impl_s, "wresum", qlist(wshort), qlist(terms))
        # the FAST relative entropy on one configured object: value = Σ extW·vector, gradient component = dot(extW, column)
        cw = [None, [float(v) for v in g.integers(0, 4, size=S)], []][t % 3]
        ow = [None, [float(v) for v in g.integers(1, 5, size=S)], []][(t // 3) % 3]
        lf = FWRE(qt.num_variables, prob_dists_q=[d[1] for d in data], weights=cw)
        vec = np.concatenate([ent.relative_entropy_vector(data[j][1], pv[j * mm:(j + 1) * mm], is_valid_required=False) for j in range(S)])
        col = ent.gradient_relative_entropy_2nd_vector(np.concatenate([d[1] for d in data]), pv, A, is_valid_required=False)[:, al]
        try:
            lf.set_from_standard_qtomography_option_data(qt, FWREO("identity" if ow is None else "custom", weights=ow), data, True, False)
            impl_v, impl_g = [float(lf.value(x))], [float(lf.gradient(x)[al])]
        except ValueError:
            impl_v = impl_g = "err value"
        lens = ",".join(str(len(d[1])) for d in data)
        base = ["true", "none" if cw is None else qlist(cw), "none" if ow is None else qlist(ow), lens]
        ask("fast-wre-sum", (kind, flag, m, t, cw, ow), impl_v, "fwre", "sum", *base, qlist(vec))
        ask("fast-wre-dot", (kind, flag, m, t, cw, ow, al), impl_g, "fwre", "dot", *base, qlist(col), tol=1e-8)
    # ---- simple quadratic loss: value, gradient, Hessian
    for t in range(4 if ctx.quick else 12):
        n = int(g.integers(1, 6))
        ref, xq = qobj.dyadic(g, (n,), 8, 1.0), qobj.dyadic(g, (n,), 8, 1.0)
        lq = SimpleQuadraticLossFunction(ref)
        implq = [float(lq.value(xq))] + [float(v) for v in lq.gradient(xq)] + [float(v) for v in lq.hessian(xq).flatten()]
        pend.append(("simple-quadratic", (ref.tolist(), xq.tolist()), implq, drv.ask("simple", n, qlist(ref), qlist(xq)), "simple", 1e-12))
        ctx.corr_ops.add("simple-quadratic")
        ctx.case(("simple-corr", n, t))
    # ---- option wiring: sequences of configurations on one object, weights installed afterwards
    gw = ctx.npgen(2)
    nseq = 24 if ctx.quick else 120
    for t in range(nseq):
        m = 2 + t % 4 if t % 3 else 2
        kind = ["qst", "povmt"][t % 2]
        qt, true, testers = build_m(gw, kind, bool(t % 2), m)
        S = qt.num_schedules
        ps = qt.calc_prob_dists(true)
        rounds = int(gw.integers(1, 4))
        toks = []
        seq = []
        lg, lf = WSE(qt.num_variables), FWSE(qt.num_variables)
        grad_req = bool(t % 4 != 3)
        res_g = res_f = None
        for r in range(rounds):
            mode = MODES_W[int(gw.integers(0, len(MODES_W)))]
            data = make_data(gw, ps, int(gw.integers(5, 200)), zeros=bool(r % 2))
            Wc = sym_weights(gw, S, m) if mode == "custom" else None
            if mode == "custom" and t % 6 == 1:
                Wc = []                                            # empty custom list: fast class raises IndexError
            elif mode == "custom" and t % 6 == 4:
                Wc = [w.copy() for w in Wc]; Wc[0][0, m - 1] += 0.5  # not symmetric: the setter's validation rejects it
            seq.append(mode)
            ginvs = []
            if is_cov(mode):
                for (n, f) in data:
                    ft = mu.replace_prob_dist(f)
                    cov = mu.calc_covariance_mat(ft, n if mode == "inverse_sample_covariance" else n - 1)
                    ex = cov[:-1, :-1] + np.eye(m - 1) / (n ** (3 / 2))
                    ginvs.append(np.linalg.inv(ex))
                    if r == 0:
                        ask("extracted", (m, f.tolist(), n, mode), [float(v) for v in ex.flatten()], "extracted", mode, m, qlist(f), EPS8, n, q(n ** (3 / 2)))
            toks += [mode] + toks_weights(Wc) + [len(ginvs)] + [qlist(G.flatten()) for G in ginvs]
            for which, l, ocls in (("g", lg, WSEO), ("f", lf, FWSEO)):
                if (which == "g" and res_g is not None) or (which == "f" and res_f is not None):
                    continue
                try:
                    l.set_from_standard_qtomography_option_data(qt, ocls(mode, weights=Wc), data, grad_req, False)
                except Exception as e:  # noqa
                    if which == "g":
                        res_g = "err " + err_kind(e)
                    else:
                        res_f = "err " + err_kind(e)
        def fmt(ws):
            if ws is None:
                return "none"
            if isinstance(ws, np.ndarray):   # extended block matrix -> its diagonal blocks
                k = ws.shape[0] // m
                ws = [ws[i * m:(i + 1) * m, i * m:(i + 1) * m] for i in range(k)]
            return [np.asarray(w, dtype=float).flatten().tolist() for w in ws]
        impl_g = res_g or ("ok", fmt(lg.weight_matrices))
        impl_f = res_f or ("ok", fmt(lf.weight_matrices), fmt(lf._extend_weight_matrix))
        ask("wiring-generic", (kind, m, seq), impl_g, "wiring", "generic", ATOL, m, "true" if grad_req else "false", rounds, *toks, kind="wiring")
        ask("wiring-fast", (kind, m, seq, grad_req), impl_f, "wiring", "fast", ATOL, m, "true" if grad_req else "false", rounds, *toks, kind="wiring")
        ctx.case(("wiring", kind, m, tuple(seq), grad_req), nontrivial=len(seq) > 1 or seq[0] != "identity",
                 sample={"op": "wiring", "modes": seq, "outcomes": m})
        ctx.count("wiring first mode=" + seq[0])
        # relative entropy wiring
        cw = [None, [float(v) for v in gw.integers(0, 4, size=S)]][t % 2]
        ow = [None, [float(v) for v in gw.integers(0, 4, size=S)]][(t // 2) % 2]
        data = make_data(gw, ps, 30)
        for fast, cls, ocls in ((False, WRE, WREO), (True, FWRE, FWREO)):
            l = cls(qt.num_variables, prob_dists_q=[d[1] for d in data], weights=cw)
            l.set_from_standard_qtomography_option_data(qt, ocls("identity" if ow is None else "custom", weights=ow), data, grad_req, False)
            ext = getattr(l, "_extend_weights", None)
            impl = ("ok", "none" if l.weights is None else [list(map(float, l.weights))], "none" if ext is None else [list(map(float, ext))])
            ask("wiring-wre", (fast, cw, ow), impl, "wrewiring", "true" if fast else "false", "true" if grad_req else "false",
                "none" if cw is None else qlist(cw), "none" if ow is None else qlist(ow), ",".join(str(len(d[1])) for d in data), kind="wrewiring")
    out = drv.run()
    for op, inp, impl, i, kind, tol in pend:
        line = out[i]
        if line == "bad-op":
            ctx.disagree(op, inp, impl, line); continue
        t = line.split()
        if kind == "vec":
            if isinstance(impl, str):          # the implementation raised: error kinds must agree
                if line != impl:
                    ctx.disagree(op, inp, impl, line[:200])
                continue
            if t[0] != "ok":
                ctx.disagree(op, inp, impl, line[:200]); continue
            vals = [float(v) for v in unqlist(t[1])]
            scale = max([1.0] + [abs(v) for v in impl])
            if len(vals) != len(impl) or any(not (abs(a - b_) <= tol * scale) for a, b_ in zip(impl, vals)):
                ctx.disagree(op, inp, impl, line[:200])
        elif kind == "wiring":
            def parse_ws(s):
                if s == "none":
                    return "none"
                _, k, flat = s.split(":")
                flat = [float(v) for v in unqlist(flat)]
                k = int(k)
                n = len(flat) // k if k else 0
                return [flat[a * n:(a + 1) * n] for a in range(k)]
            if isinstance(impl, str):
                if line != impl:
                    ctx.disagree(op, inp, impl, line[:200])
                continue
            if t[0] != "ok":
                ctx.disagree(op, inp, impl, line[:200]); continue
            model = [parse_ws(s) for s in t[1:]]
            ok = len(model) == len(impl) - 1
            for a, b_ in zip(impl[1:], model):
                if a == "none" or b_ == "none":
                    ok &= a == b_
                else:
                    ok &= len(a) == len(b_) and all(np.allclose(x_, y_, rtol=1e-9, atol=1e-12) for x_, y_ in zip(a, b_))
            if not ok:
                ctx.disagree(op, inp, impl, line[:200])
        elif kind == "simple":
            vals = [float(unq(t[1]))] + [float(v) for v in unqlist(t[2])] + [float(v) for v in unqlist(t[3])]
            if t[0] != "ok" or len(vals) != len(impl) or any(abs(a - b_) > 1e-12 * max(1.0, abs(a)) for a, b_ in zip(impl, vals)):
                ctx.disagree(op, inp, impl, line[:200])
        elif kind == "wrewiring":
            def pl(s):
                return "none" if s == "none" else [[float(v) for v in unqlist(s)]]
            if [pl(t[1]), pl(t[2])] != [impl[1], impl[2]]:
                ctx.disagree(op, inp, impl, line[:200])


# ----------------------------------------------------------------------------- oracle
def _born_at(qt, kind, testers, x):
    return born_probs(kind, qt.convert_var_to_qoperation(x), testers)


def check_conf(ctx, kind, flag, m, salt):
    g = ctx.npgen(salt)
    rep = {"kind": "conf", "tomo": kind, "flag": flag, "m": m, "salt": salt}
    tag = f"{kind}-{'on_para' if flag else 'free'}-m{m}"
    qt, true, testers = build_m(g, kind, flag, m)
    S, nv = qt.num_schedules, qt.num_variables
    ps = qt.calc_prob_dists(true)
    mm = len(ps[0])
    data = make_data(g, ps, 60, zeros=bool(salt % 2))
    qs = [d[1] for d in data]
    ctx.case(("oracle", kind, flag, m, salt), sample={"op": "oracle", "kind": kind, "flag": flag, "outcomes": mm})
    x = point(g, qt, true, kind, testers, ["inside", "outside"][salt % 2])
    h = qobj.dyadic(g, x.shape, 10, 0.3)
    # --- (1) quadratic losses: exact Taylor identity + defining formula on Born-rule probabilities
    for wkind in (None, "psd", "sym", "sparse"):
        Ws = None if wkind is None else sym_weights(g, S, mm, wkind)
        l = generic_wse(qt, data, Ws)
        v0, v1, gr, H = l.value(x), l.value(x + h), l.gradient(x), l.hessian(x)
        scale = max(1.0, abs(v0), abs(v1))
        if abs(v1 - (v0 + gr @ h + 0.5 * h @ H @ h)) > 1e-10 * scale or not np.allclose(l.hessian(x + h), H, atol=1e-12):
            ctx.violate(f"C12/wse/taylor/{tag}", f"value(x+h) − [value + grad·h + ½hᵀHh] = {v1 - (v0 + gr @ h + 0.5 * h @ H @ h):.3e} (weights {wkind})", rep)
        pb = _born_at(qt, kind, testers, x)
        ref = sum((p - f) @ ((np.eye(mm) if Ws is None else Ws[j]) @ (p - f)) for j, (p, f) in enumerate(zip(pb, qs)))
        if not close(v0, ref, 1e-9):
            ctx.violate(f"C12/wse/value-formula/{tag}", f"value {v0} vs Σ (p−q)ᵀW(p−q) = {ref} on Born-rule probabilities (weights {wkind})", rep)
        lf = fast_wse(qt, data, Ws)
        if not close(lf.value(x), v0, 1e-10) or not np.allclose(lf.gradient(x), gr, rtol=1e-10, atol=1e-12):
            ctx.violate(f"C12/fast-wse/equal-weights/{tag}", f"fast value {lf.value(x)} vs generic {v0} with the same weight matrices ({wkind})", rep)
    # --- (2) relative entropy: defining formula, central differences, generic == fast
    xp = positive_point(g, qt, true)
    pb = _born_at(qt, kind, testers, xp)
    if min(float(np.min(p)) for p in pb) > 0.02:
        wz = [float(v) for v in g.integers(1, 6, size=S)]
        wz[int(g.integers(0, S))] = 0.0          # a switched-off schedule: exact zero weight
        for wsel in (None, [float(v) for v in g.integers(1, 6, size=S)], wz):
            l = WRE(nv, prob_dists_q=qs, weights=wsel)
            l.set_func_prob_dists_from_standard_qt(qt); l.set_func_gradient_prob_dists_from_standard_qt(qt)
            l.set_func_hessian_prob_dists_from_standard_qt(qt)
            v0, gr = l.value(xp), l.gradient(xp)
            ref = sum((1.0 if wsel is None else wsel[j]) * sum(fi * math.log(fi / pi) for fi, pi in zip(f, p) if fi > 0)
                      for j, (p, f) in enumerate(zip(pb, qs)))
            if not close(v0, ref, 1e-9):
                ctx.violate(f"C12/wre/value-formula/{tag}", f"value {v0} vs Σ w Σ q log(q/p) = {ref}", rep)
            eps = 1e-5
            dirs = [qobj.dyadic(g, xp.shape, 8, 1.0) for _ in range(3)]
            for dvec in dirs:
                dvec = dvec / max(1.0, np.abs(dvec).max())
                cd = (l.value(xp + eps * dvec) - l.value(xp - eps * dvec)) / (2 * eps)
                if abs(cd - gr @ dvec) > 1e-6 * max(1.0, abs(cd)):
                    ctx.violate(f"C12/wre/gradient/{tag}", f"directional derivative {gr @ dvec} vs central difference {cd}", rep); break
                if nv <= 16:
                    Hs = l.hessian(xp)
                    cdg = (l.gradient(xp + eps * dvec) - l.gradient(xp - eps * dvec)) / (2 * eps)
                    if not np.allclose(cdg, Hs @ dvec, rtol=1e-5, atol=1e-5 * max(1.0, np.abs(cdg).max())):
                        ctx.violate(f"C12/wre/hessian/{tag}", f"H·d vs central difference of the gradient: max diff {np.abs(cdg - Hs @ dvec).max():.3e}", rep); break
            lf = FWRE(nv, prob_dists_q=qs, weights=wsel)
            lf.set_func_prob_dists_from_standard_qt(qt); lf.set_func_gradient_prob_dists_from_standard_qt(qt)
            if not close(lf.value(xp), v0, 1e-10) or not np.allclose(lf.gradient(xp), gr, rtol=1e-9, atol=1e-12):
                ctx.violate(f"C12/fast-wre/equal-weights/{tag}", f"fast value {lf.value(xp)} vs generic {v0} (weights {wsel})", rep)
    # --- (2a) over-normalised points (free parametrisation): some predicted probability exceeds 1, all stay positive
    if not flag:
        A_, b_ = qt.calc_matA(), qt.calc_vecB()
        x0 = np.array(true.to_var(), dtype=np.float64)
        p0 = A_ @ x0 + b_
        if np.abs(b_).max() == 0 and p0.min() > 0.02:
            xo = x0 * (1.3 / p0.max())
            po = A_ @ xo
            qflat = np.concatenate(qs)
            ref = float(np.sum(np.where(qflat > 0, qflat * np.log(np.where(qflat > 0, qflat, 1.0) / po), 0.0)))
            gref = -(A_.T @ (qflat / po))
            lg_ = WRE(nv, prob_dists_q=qs); lf_ = FWRE(nv, prob_dists_q=qs)
            for l_ in (lg_, lf_):
                l_.set_func_prob_dists_from_standard_qt(qt); l_.set_func_gradient_prob_dists_from_standard_qt(qt)
            for name, l_ in (("generic", lg_), ("fast", lf_)):
                if not close(float(l_.value(xo)), ref, 1e-9) or not np.allclose(l_.gradient(xo), gref, rtol=1e-8, atol=1e-10):
                    ctx.violate(f"C12/{'fast-' if name == 'fast' else ''}wre/over-normalised-point",
                                f"{tag}: {name} relative entropy at a point with max predicted probability {po.max():.3f}: value "
                                f"{float(l_.value(xo))} vs Σ q log(q/p) = {ref}", rep)
    # --- (2a') results must not alias internal state: call, edit the result in place, call again
    xa = positive_point(g, qt, true)
    lwre = WRE(nv, prob_dists_q=qs); lfwre = FWRE(nv, prob_dists_q=qs)
    for l_ in (lwre, lfwre):
        l_.set_func_prob_dists_from_standard_qt(qt); l_.set_func_gradient_prob_dists_from_standard_qt(qt)
    lwre.set_func_hessian_prob_dists_from_standard_qt(qt)
    for name, l_ in (("wse", generic_wse(qt, data, None)), ("fast-wse", fast_wse(qt, data, None)), ("wre", lwre), ("fast-wre", lfwre)):
        alias_check(ctx, name, l_, xa, rep, hess=(nv <= 16))
    # --- (2a'') value / gradient with validate=True (only warnings are printed) equal the default call, also at non-physical points
    import contextlib, io
    xneg = point(g, qt, true, kind, testers, "outside")
    A_v, b_v = qt.calc_matA(), qt.calc_vecB()
    for scale in (1.0, 3.0):
        xv = np.array(true.to_var(), dtype=np.float64) + scale * (xneg - np.array(true.to_var(), dtype=np.float64))
        if float((A_v @ xv + b_v).min()) < -1e-3:
            break
    lw_g, lw_f = generic_wse(qt, data, None), fast_wse(qt, data, None)
    lw_gw, lw_fw = generic_wse(qt, data, sym_weights(g, S, mm)), None
    lw_fw = fast_wse(qt, data, lw_gw.weight_matrices)
    for name, l_ in (("wse", lw_g), ("fast-wse", lw_f), ("wse-weighted", lw_gw), ("fast-wse-weighted", lw_fw), ("wre", lwre), ("fast-wre", lfwre)):
        xe = xv if "wse" in name else xa
        with contextlib.redirect_stdout(io.StringIO()):
            v_def, g_def = float(l_.value(xe)), np.array(l_.gradient(xe), dtype=float)
            v_val, g_val = float(l_.value(xe, validate=True)), np.array(l_.gradient(xe, validate=True), dtype=float)
            v_again = float(l_.value(xe))
        if not (close(v_val, v_def, 1e-12) and np.allclose(g_val, g_def, rtol=1e-12, atol=1e-14) and close(v_again, v_def, 1e-12)):
            ctx.violate(f"C12/{name}/validate-flag", f"{tag}: value/gradient with validate=True differ from the default call "
                        f"({v_val} vs {v_def}; min predicted probability {float((A_v @ xe + b_v).min()):.3g})", rep)
    # --- (2b) a SECOND loss object with a different model, evaluated at the bit-identical variable point
    if kind == "qst":
        pv = testers["povms"]
        qt2 = type(qt)([pv[2], pv[0], pv[1]] + list(pv[3:]), on_para_eq_constraint=flag)     # schedule order Z,X,Y
        testers2 = {"povms": [pv[2], pv[0], pv[1]] + list(pv[3:])}
    else:
        qt2, _, testers2 = build_m(ctx.npgen(salt + 7000), kind, flag, m)                    # other testers, same num_variables
    x2 = None
    if qt2.num_variables == nv:
        for mix in (0.0, 0.5, 0.8, 0.95, 1.0):
            cand = (1 - mix) * xp + mix * _mixed_var(qt)
            if min(float((q_.calc_matA() @ cand + q_.calc_vecB()).min()) for q_ in (qt, qt2)) > 0.03:
                x2 = cand
                break
    if x2 is not None:
        data_b = make_data(g, _born_at(qt2, kind, testers2, np.array(true.to_var(), dtype=np.float64)), 50)
        qs_b = [d[1] for d in data_b]
        objs = []
        for qq, dd in ((qt, qs), (qt2, qs_b)):
            l = WRE(nv, prob_dists_q=dd)
            l.set_func_prob_dists_from_standard_qt(qq); l.set_func_gradient_prob_dists_from_standard_qt(qq)
            l.set_func_hessian_prob_dists_from_standard_qt(qq)
            objs.append((l, qq, dd))
        xx = x2.copy()
        for which, (l, qq, dd) in enumerate(objs):      # first object first, then the second at the same bytes
            gr = l.gradient(xx)
            Hs = l.hessian(xx) if nv <= 16 else None
            A_, b_ = qq.calc_matA(), qq.calc_vecB()
            pvec = A_ @ xx + b_
            qflat = np.concatenate(dd)
            gref = -(A_.T @ (qflat / pvec))
            href = A_.T @ ((qflat / pvec ** 2)[:, None] * A_)
            lf = FWRE(nv, prob_dists_q=dd)
            lf.set_func_prob_dists_from_standard_qt(qq); lf.set_func_gradient_prob_dists_from_standard_qt(qq)
            bad = not np.allclose(gr, gref, rtol=1e-8, atol=1e-10) or not np.allclose(lf.gradient(xx), gr, rtol=1e-8, atol=1e-10)
            if Hs is not None:
                bad = bad or not np.allclose(Hs, href, rtol=1e-8, atol=1e-9)
            if bad:
                ctx.violate(f"C12/wre/two-objects-same-point/{'first' if which == 0 else 'second'}",
                            f"{tag}: object #{which + 1} (different model, identical variable point): gradient/Hessian differ from "
                            f"-Aᵀ(q/p), Aᵀdiag(q/p²)A of its own model by {np.abs(gr - gref).max():.3e}", rep)
    # --- (2c) ONE fast object evaluated repeatedly: value → gradient → value → gradient at a sequence of points
    A0, b0 = qt.calc_matA().copy(), qt.calc_vecB().copy()
    pts = [xp, (xp + _mixed_var(qt)) / 2, xp]
    for lname, lfast, lgen in (("fast-wre", FWRE(nv, prob_dists_q=qs), WRE(nv, prob_dists_q=qs)),
                               ("fast-wse", fast_wse(qt, data, None), generic_wse(qt, data, None))):
        for l_ in (lfast, lgen):
            l_.set_func_prob_dists_from_standard_qt(qt); l_.set_func_gradient_prob_dists_from_standard_qt(qt)
        okseq = True
        for step, xs_ in enumerate(pts):
            if float((A0 @ xs_ + b0).min()) <= 0.02 and lname == "fast-wre":
                continue
            for what in ("value", "gradient"):
                a_ = np.atleast_1d(getattr(lfast, what)(xs_)); r_ = np.atleast_1d(getattr(lgen, what)(xs_))
                if not np.allclose(a_, r_, rtol=1e-9, atol=1e-11):
                    ctx.violate(f"C12/{lname}/evaluation-sequence", f"{tag}: {what} #{step + 1} on one fast object differs from the generic loss "
                                f"by {np.abs(a_ - r_).max():.3e} (earlier evaluations changed the object)", rep)
                    okseq = False
                    break
            if not okseq:
                break
        if not np.array_equal(lfast._matA, A0) or not np.array_equal(lfast._vecB, b0):
            ctx.violate(f"C12/{lname}/model-matrix-mutated", f"{tag}: the cached matA/vecB of the fast loss changed during value/gradient evaluations "
                        f"(max change {np.abs(lfast._matA - A0).max():.3e})", rep)
    # --- (3) every weighting mode takes effect, generic == fast after configuration through the option
    for mode in MODES:
        Wc = sym_weights(g, S, mm) if mode == "custom" else None
        # the covariance modes may reject numpy's float inverse as "not symmetric" (open finding D9e): try a few data sets
        tries = 6 if mode.startswith("inverse") else 1
        done = False
        for attempt in range(tries):
            dat = data if attempt == 0 else make_data(g, ps, 60 + 7 * attempt, zeros=bool((salt + attempt) % 2))
            fs = [d[1] for d in dat]
            if mode == "identity":
                Wref = [np.eye(mm)] * S
            elif mode == "custom":
                Wref = Wc
            else:
                Wref = inv_cov_reference(dat, mode)
            ref = sum((p - f) @ (Wref[j] @ (p - f)) for j, (p, f) in enumerate(zip(_born_at(qt, kind, testers, x), fs)))
            vals = {}
            raised = False
            for name, cls, ocls in (("generic", WSE, WSEO), ("fast", FWSE, FWSEO)):
                l = cls(nv)
                try:
                    l.set_from_standard_qtomography_option_data(qt, ocls(mode, weights=Wc), dat, True, False)
                    vals[name] = (float(l.value(x)), l.gradient(x))
                except Exception as e:  # noqa
                    raised = True
                    if mode.startswith("inverse") and "must be symmetric" in str(e):
                        sig = "C12/wse/inverse-covariance/asymmetric-inverse-rejected"
                    elif mode.startswith("inverse") and mm > 2:
                        sig = f"C12/wse/{mode}/outcomes-gt2/raises"
                    else:
                        sig = f"C12/wse/{name}/{mode}/raises"
                    ctx.violate(sig, f"{name} loss, mode {mode}, {mm} outcomes, shots {[d[0] for d in dat]}: {type(e).__name__}: {e}",
                                {**rep, "mode": mode})
                    continue
                if not close(vals[name][0], ref, 1e-7):
                    if name == "fast":
                        sig = "C12/fast-wse/mode-ignored" if mode != "identity" else f"C12/fast-wse/identity/{tag}"
                    else:
                        sig = f"C12/wse/mode-takes-effect/{mode}"
                    ctx.violate(sig, f"{name} loss configured with mode {mode} ({tag}): value {vals[name][0]} vs the mode's definition {ref}", {**rep, "mode": mode})
            if len(vals) == 2 and (not close(vals["generic"][0], vals["fast"][0], 1e-9)
                                   or not np.allclose(vals["generic"][1], vals["fast"][1], rtol=1e-8, atol=1e-10)):
                ctx.violate("C12/fast-wse/mode-ignored" if mode != "identity" else f"C12/fast-vs-generic/identity/{tag}",
                            f"mode {mode} ({tag}): generic {vals['generic'][0]} vs fast {vals['fast'][0]}", {**rep, "mode": mode})
            if not raised:
                done = True
                break
        ctx.count(f"mode {mode} m={mm} " + ("evaluated" if done else "never accepted"))
    # every mode string the option class ACCEPTS must configure something (accepted list taken from the generated table)
    try:
        import re as _re
        gen = open(os.path.join(os.path.dirname(os.path.dirname(os.path.abspath(__file__))), "lean", "QGen", "C12.lean")).read()
        accepted = _re.findall(r'"(\w+)"', gen.split("def wseAccepted")[1].split("\n")[0])
    except Exception:  # noqa
        accepted = list(MODES)
    for mode in accepted:
        if mode in MODES:
            continue
        l = WSE(nv)
        try:
            l.set_from_standard_qtomography_option_data(qt, WSEO(mode), data, True, False)
            v = float(l.value(x))
        except Exception as e:  # noqa
            ctx.violate(f"C12/wse/accepted-mode/{mode}/raises", f"{type(e).__name__}: {e}", {**rep, "mode": mode}); continue
        v_id = sum((p - f) @ (p - f) for p, f in zip(_born_at(qt, kind, testers, x), qs))
        if l.weight_matrices is None and close(v, v_id, 1e-12):
            ctx.violate(f"C12/wse/accepted-mode-unhandled/{mode}",
                        f"mode '{mode}' is accepted by the option but configures nothing: no weight matrices, value {v} = unweighted value", {**rep, "mode": mode})
            continue
        if mode == ALIAS:      # the alias means the unbiased covariance weights; fast loss likewise
            Wref = inv_cov_reference(data, "inverse_unbiased_covariance")
            ref = sum((p - f) @ (Wref[j] @ (p - f)) for j, (p, f) in enumerate(zip(_born_at(qt, kind, testers, x), qs)))
            lf = FWSE(nv)
            lf.set_from_standard_qtomography_option_data(qt, FWSEO(mode), data, True, False)
            if not close(v, ref, 1e-7) or not close(float(lf.value(x)), ref, 1e-7) or \
                    not np.allclose(lf.gradient(x), l.gradient(x), rtol=1e-8, atol=1e-10):
                ctx.violate(f"C12/wse/mode-takes-effect/{mode}", f"mode '{mode}' ({tag}): generic {v}, fast {float(lf.value(x))} vs the "
                            f"unbiased inverse-covariance definition {ref}", {**rep, "mode": mode})
    # relative entropy: custom weights given through the option
    if min(float(np.min(p)) for p in pb) > 0.02:
        wmixed = [float(v) for v in g.integers(2, 6, size=S)]
        wmixed[int(g.integers(0, S))] = 0.0
        wuni = [float(g.integers(2, 6))] * S                 # all weights equal: a pure rescaling of the loss, still a weighting
        for wopt in (wmixed, wuni):
            ref = sum(wopt[j] * sum(fi * math.log(fi / pi) for fi, pi in zip(f, p) if fi > 0) for j, (p, f) in enumerate(zip(pb, qs)))
            for name, cls, ocls in (("generic", WRE, WREO), ("fast", FWRE, FWREO)):
                l = cls(nv)
                try:
                    l.set_from_standard_qtomography_option_data(qt, ocls("custom", weights=wopt), data, True, False)
                    v = float(l.value(xp))
                except Exception as e:  # noqa
                    ctx.violate(f"C12/wre/{name}/custom/raises", f"{type(e).__name__}: {e}", rep); continue
                if not close(v, ref, 1e-8):
                    ctx.violate("C12/wre/custom-weights-ignored", f"{name} relative entropy configured with custom weights {wopt}: value {v} vs Σ w_j D(q_j‖p_j) = {ref}", rep)
    # --- (4z) one loss object configured for this tomography, then for one with ANOTHER number of variables (flag flipped)
    qt_o, true_o, testers_o = build_m(ctx.npgen(salt + 9000), kind, not flag, m)
    if qt_o.num_variables != nv:
        nvo = qt_o.num_variables
        data_o = make_data(g, qt_o.calc_prob_dists(true_o), 40)
        xo_ = positive_point(g, qt_o, true_o)
        Ao, bo = qt_o.calc_matA(), qt_o.calc_vecB()
        qo = np.concatenate([d[1] for d in data_o])
        for lname, cls, ocls, gref in (("wse", WSE, WSEO, 2 * Ao.T @ (Ao @ xo_ + bo - qo)),
                                       ("fast-wse", FWSE, FWSEO, 2 * Ao.T @ (Ao @ xo_ + bo - qo)),
                                       ("wre", WRE, WREO, -(Ao.T @ (qo / (Ao @ xo_ + bo)))),
                                       ("fast-wre", FWRE, FWREO, -(Ao.T @ (qo / (Ao @ xo_ + bo))))):
            if lname.endswith("wre") and float((Ao @ xo_ + bo).min()) <= 0.02:
                continue
            l = cls(nv)
            l.set_from_standard_qtomography_option_data(qt, ocls("identity"), data, True, not lname.startswith("fast"))
            l.set_from_standard_qtomography_option_data(qt_o, ocls("identity"), data_o, True, not lname.startswith("fast"))
            try:
                gr = np.asarray(l.gradient(xo_))
                hs = None if lname.startswith("fast") or nvo > 16 else np.asarray(l.hessian(xo_))
            except Exception as e:  # noqa
                ctx.violate(f"C12/{lname}/reconfigure/other-num-variables/raises", f"{tag}: {nv} → {nvo} variables: {type(e).__name__}: {e}", rep)
                continue
            if gr.shape != (nvo,) or not np.allclose(gr, gref, rtol=1e-8, atol=1e-10) or (hs is not None and hs.shape != (nvo, nvo)):
                ctx.violate(f"C12/{lname}/reconfigure/other-num-variables",
                            f"{tag}: loss configured for {nv} variables, then for a tomography with {nvo}: gradient shape {gr.shape}"
                            f"{'' if hs is None else ', Hessian shape ' + str(hs.shape)} (num_var {l.num_var})", rep)
    # --- (4a) re-configuration of one object with new data (cached q must follow)
    data2 = make_data(g, ps, 45, zeros=not bool(salt % 2))
    qs2 = [d[1] for d in data2]
    pbx0 = _born_at(qt, kind, testers, x)
    ref_new = sum((p - f) @ (p - f) for p, f in zip(pbx0, qs2))
    for name, cls, ocls in (("generic", WSE, WSEO), ("fast", FWSE, FWSEO)):
        l = cls(nv)
        l.set_from_standard_qtomography_option_data(qt, ocls("identity"), data, True, False)
        l.set_from_standard_qtomography_option_data(qt, ocls("identity"), data2, True, False)
        gref = generic_wse(qt, data2, None).gradient(x)
        if not close(float(l.value(x)), ref_new, 1e-9) or not np.allclose(l.gradient(x), gref, rtol=1e-9, atol=1e-12):
            ctx.violate(f"C12/{name}-wse/reuse/new-data", f"{name} loss re-configured with new data: value {float(l.value(x))} vs {ref_new}", rep)
    if min(float(np.min(p)) for p in pb) > 0.02:
        ref_new = sum(sum(fi * math.log(fi / pi) for fi, pi in zip(f, p) if fi > 0) for p, f in zip(pb, qs2))
        for name, cls, ocls in (("generic", WRE, WREO), ("fast", FWRE, FWREO)):
            l = cls(nv)
            l.set_from_standard_qtomography_option_data(qt, ocls("identity"), data, True, False)
            l.set_from_standard_qtomography_option_data(qt, ocls("identity"), data2, True, False)
            if not close(float(l.value(xp)), ref_new, 1e-9):
                ctx.violate(f"C12/{name}-wre/reuse/new-data", f"{name} relative entropy re-configured with new data: value {float(l.value(xp))} vs {ref_new}", rep)
    # --- (4b) relative entropy re-configured custom → identity: the weights must be gone
    if min(float(np.min(p)) for p in pb) > 0.02:
        wopt2 = [float(v) for v in g.integers(2, 6, size=S)]
        ref_id = sum(sum(fi * math.log(fi / pi) for fi, pi in zip(f, p) if fi > 0) for p, f in zip(pb, qs))
        for name, cls, ocls in (("generic", WRE, WREO), ("fast", FWRE, FWREO)):
            l = cls(nv)
            l.set_from_standard_qtomography_option_data(qt, ocls("custom", weights=wopt2), data, True, False)
            l.set_from_standard_qtomography_option_data(qt, ocls("identity"), data, True, False)
            if not close(float(l.value(xp)), ref_id, 1e-8):
                ctx.violate("C12/wre/reconfigure/identity-keeps-custom-weights",
                            f"{name} relative entropy reconfigured custom→identity still applies the custom weights: {float(l.value(xp))} vs {ref_id}", rep)
    # --- (4) re-configuration of one object: custom → identity, custom W1 → custom W2
    W1, W2 = sym_weights(g, S, mm), sym_weights(g, S, mm)
    pbx = _born_at(qt, kind, testers, x)
    for name, cls, ocls in (("generic", WSE, WSEO), ("fast", FWSE, FWSEO)):
        l = cls(nv)
        l.set_from_standard_qtomography_option_data(qt, ocls("custom", weights=W1), data, True, False)
        l.set_from_standard_qtomography_option_data(qt, ocls("custom", weights=W2), data, True, False)
        ref2 = sum((p - f) @ (W2[j] @ (p - f)) for j, (p, f) in enumerate(zip(pbx, qs)))
        if not close(float(l.value(x)), ref2, 1e-8):
            ctx.violate("C12/fast-wse/mode-ignored" if name == "fast" else "C12/wse/reconfigure/custom-custom",
                        f"{name} loss reconfigured custom→custom uses the earlier weights: {float(l.value(x))} vs {ref2}", rep)
        l.set_from_standard_qtomography_option_data(qt, ocls("identity"), data, True, False)
        ref3 = sum((p - f) @ (p - f) for p, f in zip(pbx, qs))
        if not close(float(l.value(x)), ref3, 1e-8):
            ctx.violate("C12/wse/reconfigure/identity-keeps-custom-weights",
                        f"{name} loss reconfigured custom→identity still applies the custom weights: {float(l.value(x))} vs {ref3}", rep)


def alias_check(ctx, name, loss, x, rep, hess=True):
    """value / gradient / Hessian: call, modify the returned array in place, call again — the second result must be unchanged"""
    for meth in ("value", "gradient", "hessian") if hess else ("value", "gradient"):
        try:
            r1 = getattr(loss, meth)(x)
        except NotImplementedError:
            continue
        keep = np.array(r1, dtype=float, copy=True)
        if isinstance(r1, np.ndarray) and r1.ndim > 0:
            try:
                r1 += 5.0
            except ValueError:
                pass            # read-only result is fine
        r2 = np.array(getattr(loss, meth)(x), dtype=float)
        if r2.shape != keep.shape or not np.allclose(r2, keep, rtol=1e-12, atol=1e-12):
            ctx.violate(f"C12/{name}/result-aliases-internal-state/{meth}",
                        f"{meth}() after an in-place edit of the previous result differs by {np.abs(r2 - keep).max():.3e}", rep)


def check_callables(ctx, salt):
    """generic losses built from USER callables with non-zero second derivatives (quadratic models
    p_i(x) = a_i + B_i·x + ½ xᵀC_i x with exact gradient / Hessian callables): gradient and Hessian vs central differences"""
    g = ctx.npgen(salt)
    for t in range(3):
        nv, S = int(g.integers(2, 4)), int(g.integers(1, 3))
        ms = [int(g.integers(2, 5)) for _ in range(S)]
        rep = {"kind": "callables", "salt": salt}
        models = []
        for m_ in ms:
            a = g.dirichlet(np.ones(m_) * 3)
            B = qobj.dyadic(g, (m_, nv), 6, 0.2); B -= B.mean(axis=0)
            C = qobj.dyadic(g, (m_, nv, nv), 6, 0.3); C = (C + C.transpose(0, 2, 1)) / 2; C -= C.mean(axis=0)
            models.append((a, B, C))

        def mk(j):
            a, B, C = models[j]
            return (lambda x: a + B @ x + 0.5 * np.einsum("iab,a,b->i", C, x, x),
                    lambda al, x: B[:, al] + C[:, al, :] @ x,
                    lambda al, be, x: C[:, al, be].copy())
        fs = [mk(j) for j in range(S)]
        x = qobj.dyadic(g, (nv,), 8, 0.2)
        qs = [g.multinomial(40, np.clip(f[0](x), 0.02, None) / np.clip(f[0](x), 0.02, None).sum()) / 40 for f in fs]
        if min(float(f[0](x).min()) for f in fs) < 0.03:
            continue
        ctx.case(("callables", salt, t), sample={"op": "user-callable model", "outcomes": ms, "num_var": nv})
        Ws = [sym_weights(g, 1, m_, "sym")[0] for m_ in ms]
        wv = [float(v) for v in g.integers(1, 5, size=S)]
        losses = [("wse", WSE(nv, [f[0] for f in fs], [f[1] for f in fs], [f[2] for f in fs], qs, None)),
                  ("wse-weighted", WSE(nv, [f[0] for f in fs], [f[1] for f in fs], [f[2] for f in fs], qs, Ws)),
                  ("wre", WRE(nv, [f[0] for f in fs], [f[1] for f in fs], [f[2] for f in fs], qs, None)),
                  ("wre-weighted", WRE(nv, [f[0] for f in fs], [f[1] for f in fs], [f[2] for f in fs], qs, wv))]
        eps = 1e-5
        for name, l in losses:
            gr, H = l.gradient(x), l.hessian(x)
            for dvec in (qobj.dyadic(g, (nv,), 6, 1.0) for _ in range(2)):
                dvec = dvec / max(1.0, np.abs(dvec).max())
                cd = (l.value(x + eps * dvec) - l.value(x - eps * dvec)) / (2 * eps)
                cdg = (l.gradient(x + eps * dvec) - l.gradient(x - eps * dvec)) / (2 * eps)
                if abs(cd - gr @ dvec) > 1e-6 * max(1.0, abs(cd)):
                    ctx.violate(f"C12/{name}/user-callables/gradient", f"directional derivative {gr @ dvec} vs central difference {cd}", rep); break
                if not np.allclose(cdg, H @ dvec, rtol=1e-5, atol=1e-6 * max(1.0, np.abs(cdg).max())):
                    ctx.violate(f"C12/{name}/user-callables/hessian",
                                f"H·d vs central difference of the gradient: max diff {np.abs(cdg - H @ dvec).max():.3e} (model with curvature)", rep); break


def check_sequence(ctx, salt):
    """the standard call path over a SEQUENCE of data sets (LossMinimizationEstimator.calc_estimate_sequence): for every data set the
    weighting mode has to take effect with THAT data set's shot counts / distributions.  The optimiser is replaced by a probe algorithm
    that records value and gradient of the loss (as the estimator configured it) at a fixed point, so only the loss wiring is exercised."""
    from quara.protocol.qtomography.standard.loss_minimization_estimator import LossMinimizationEstimator
    from quara.minimization_algorithm.minimization_algorithm import (
        MinimizationAlgorithm, MinimizationAlgorithmOption, MinimizationResult)
    g = ctx.npgen(salt)
    rep = {"kind": "sequence", "salt": salt}
    qt, true, testers = build_m(g, "qst", True, 2)
    ps = qt.calc_prob_dists(true)
    x0 = np.array(true.to_var(), dtype=np.float64) + 0.05

    class Probe(MinimizationAlgorithm):
        def __init__(self):
            super().__init__()
            self._is_gradient_required = True

        def set_constraint_from_standard_qt_and_option(self, qt_, option):
            pass

        def is_loss_sufficient(self):
            return True

        def optimize(self, loss_function, loss_function_option, algorithm_option, on_iteration_history=False):
            return MinimizationResult(np.concatenate([[float(loss_function.value(x0))], np.asarray(loss_function.gradient(x0), dtype=float)]))

    def dataset(base):   # moderate shot counts, different per schedule and per data set
        return [(int(base * (j + 1)), g.multinomial(int(base * (j + 1)), np.clip(p, 0, None) / np.clip(p, 0, None).sum()) / int(base * (j + 1)))
                for j, p in enumerate(ps)]
    seqs = [dataset(40), dataset(300), dataset(90)]
    ctx.case(("sequence", salt), sample={"op": "estimate sequence", "datasets": len(seqs)})
    W2 = sym_weights(g, qt.num_schedules, 2)
    for mode, wts in (("identity", None), ("custom", W2), ("inverse_sample_covariance", None), ("inverse_unbiased_covariance", None), (ALIAS, None)):
        for name, cls, ocls in (("generic", WSE, WSEO), ("fast", FWSE, FWSEO)):
            def run(datasets):
                res = LossMinimizationEstimator().calc_estimate_sequence(
                    qt, datasets, loss=cls(qt.num_variables), loss_option=ocls(mode, weights=wts), algo=Probe(),
                    algo_option=MinimizationAlgorithmOption())
                return [np.array(v, dtype=float) for v in res.estimated_var_sequence]
            try:
                in_seq = run(seqs)
                alone = [run([d])[0] for d in seqs]
            except Exception as e:  # noqa
                ctx.violate(f"C12/sequence/{name}/{mode}/raises", f"{type(e).__name__}: {e}", {**rep, "mode": mode}); continue
            for k_, (a_, b_) in enumerate(zip(in_seq, alone)):
                if not np.allclose(a_, b_, rtol=1e-9, atol=1e-11):
                    ctx.violate(f"C12/sequence/{mode}/weights-of-an-earlier-data-set",
                                f"{name} loss, data set #{k_ + 1} of a sequence estimate: value {a_[0]} differs from the value {b_[0]} of a loss "
                                f"configured with that data set alone (mode {mode})", {**rep, "mode": mode})
                    break
    # relative entropy likewise (custom weights)
    wv = [float(v) for v in g.integers(1, 5, size=qt.num_schedules)]
    for name, cls, ocls in (("generic", WRE, WREO), ("fast", FWRE, FWREO)):
        def run2(datasets):
            res = LossMinimizationEstimator().calc_estimate_sequence(
                qt, datasets, loss=cls(qt.num_variables), loss_option=ocls("custom", weights=wv), algo=Probe(),
                algo_option=MinimizationAlgorithmOption())
            return [np.array(v, dtype=float) for v in res.estimated_var_sequence]
        in_seq = run2(seqs)
        alone = [run2([d])[0] for d in seqs]
        if not all(np.allclose(a_, b_, rtol=1e-9, atol=1e-11) for a_, b_ in zip(in_seq, alone)):
            ctx.violate("C12/sequence/wre/custom", f"{name} relative entropy: a data set inside a sequence is not treated like the data set alone", rep)


def check_simple(ctx, salt):
    g = ctx.npgen(salt)
    for t in range(5):
        n = int(g.integers(1, 8))
        ref, x, h = (qobj.dyadic(g, (n,), 8, 1.0) for _ in range(3))
        l = SimpleQuadraticLossFunction(ref)
        v0, v1, gr, H = l.value(x), l.value(x + h), l.gradient(x), l.hessian(x)
        ctx.case(("simple", salt, t))
        if abs(v1 - (v0 + gr @ h + 0.5 * h @ H @ h)) > 1e-12 * max(1, abs(v1)) or not close(v0, float(np.sum((x - ref) ** 2)), 1e-12):
            ctx.violate("C12/simple-quadratic/taylor", f"ref={ref.tolist()} x={x.tolist()} h={h.tolist()}", {"kind": "simple", "salt": salt})
        alias_check(ctx, "simple-quadratic", SimpleQuadraticLossFunction(ref), x, {"kind": "simple", "salt": salt})


def guarded(ctx, fn, *args, **kw):
    """run one oracle group; an unexpected exception raised by the real code is a violation (…/raises), not a crash"""
    import traceback
    try:
        return fn(*args, **kw)
    except Exception as e:  # noqa
        frames = [f for f in traceback.extract_tb(e.__traceback__) if "quara" in f.filename.replace("\\", "/").split("/harness/")[-1] and "/harness/" not in f.filename]
        where = (frames[-1].name if frames else fn.__name__)
        mod = (frames[-1].filename.split("/")[-1][:-3] if frames else "harness")
        ctx.violate(f"C12/{mod}.{where}/raises", f"{type(e).__name__}: {e} (inside {fn.__name__}{tuple(a for a in args[1:] if isinstance(a, (str, int, bool)))})",
                    {"kind": "guarded", "fn": fn.__name__, "args": [a for a in args[1:] if isinstance(a, (str, int, bool, type(None)))], "kw": {k: v for k, v in kw.items() if isinstance(v, (str, int, bool, type(None), list))}})


def oracle(ctx, volume=1):
    quick = ctx.quick and volume == 1
    salt = 500
    for (kind, flag, m) in configs(quick, volume):
        salt += 1
        ctx.count(f"oracle {kind} flag={flag} m={m}")
        guarded(ctx, check_conf, ctx, kind, flag, m, salt)
    guarded(ctx, check_simple, ctx, 499)
    guarded(ctx, check_callables, ctx, 498)
    guarded(ctx, check_sequence, ctx, 497)


def search(ctx):
    oracle(ctx, volume=2)


def replay(ctx, data):
    r = data["replay"]
    print("replaying", r)
    before = len(ctx.violations)
    if r.get("kind") == "guarded":
        fn = globals()[r["fn"]]
        guarded(ctx, fn, ctx, *r["args"], **r.get("kw", {}))
        for v in ctx.violations[before:]:
            print(" ", v["signature"], "-", v["what"])
        return 1 if len(ctx.violations) > before else 0
    if r["kind"] == "callables":
        check_callables(ctx, r["salt"])
    elif r["kind"] == "sequence":
        check_sequence(ctx, r["salt"])
    elif r["kind"] == "conf":
        check_conf(ctx, r["tomo"], r["flag"], r["m"], r["salt"])
    else:
        check_simple(ctx, r["salt"])
    for v in ctx.violations[before:]:
        print(" ", v["signature"], "-", v["what"])
    return 1 if len(ctx.violations) > before else 0
