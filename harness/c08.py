"""C08 — tomography forward model = circuit Born-rule statistics: correspondence with QModel.C08 (coefficient
construction of the four tomography classes, key order of calc_matA/calc_vecB, the object built from a variable vector,
calc_prob_dists with its reshape, the circuit) and the property oracle on the real code (affine-basis comparison of
matA·var+vecB with compose_qoperations, column count, full rank iff informationally complete, calc_prob_dists)."""
import numpy as np
import shim  # noqa: F401
from common import Driver, Ctx, q, qlist, unqlist, allclose
import tomo_setups as ts
from quara.objects.operators import compose_qoperations
from quara.settings import Settings

import ast
import os
import common
import pymat2lean as P2L

TOMO = "quara/protocol/qtomography/standard/"


def _loops(fn, rel):
    """outer `for schedule_index, schedule in enumerate(...)` (or `for schedule_index in range(...)`) and the first inner loop"""
    outer = [n for n in fn.body if isinstance(n, ast.For)]
    if len(outer) != 1:
        P2L.fail(rel, fn, "expected exactly one loop over the schedules")
    o = outer[0]
    oname = o.target.elts[0].id if isinstance(o.target, ast.Tuple) else o.target.id
    inner = [n for n in o.body if isinstance(n, ast.For)]
    if len(inner) != 1:
        P2L.fail(rel, o, "expected exactly one loop over the outcomes")
    i = inner[0]
    iname = i.target.elts[0].id if isinstance(i.target, ast.Tuple) else i.target.id
    return o, oname, i, iname


def _flag_if(scope, rel):
    ifs = [n for n in scope.body if isinstance(n, ast.If) and ast.unparse(n.test) == "on_para_eq_constraint"]
    if len(ifs) != 1 or not ifs[0].orelse:
        P2L.fail(rel, scope, "expected `if on_para_eq_constraint: … else: …`")
    return ast.Module(body=ifs[0].body, type_ignores=[]), ast.Module(body=ifs[0].orelse, type_ignores=[])


def _stores(branch, rel):
    st = P2L.dict_stores(branch, {"coeffs_0th", "coeffs_1st"}, rel)
    d = {k: v for k, _, v, _ in st}
    if set(d) != {"coeffs_0th", "coeffs_1st"} or len(st) != 2:
        P2L.fail(rel, branch.body[0], "expected one store into _coeffs_0th and one into _coeffs_1st")
    return st, d


def _lookup(scope, var, coll, idx, rel):
    """`<var> = <…>.<coll>[<idx>]`: the tester must be looked up with the index taken from the schedule"""
    a = P2L.assigns(scope).get(var)
    if not a or len(a) != 1 or not isinstance(a[0].value, ast.Subscript) \
            or not ast.unparse(a[0].value.value).endswith(coll) or ast.unparse(a[0].value.slice) != idx:
        P2L.fail(rel, (a[0] if a else scope), f"expected `{var} = ….{coll}[{idx}]`")


def _target_item(cls, rel):
    fn = P2L.find_func(cls, "_get_target_index", rel)
    ret = [n for n in ast.walk(fn) if isinstance(n, ast.Return)]
    if len(ret) != 1 or not isinstance(ret[0].value, ast.Name):
        P2L.fail(rel, fn, "expected `return <name>`")
    return P2L.schedule_item(fn, ret[0].value.id, rel), fn.lineno


def translate(ctx):
    """regenerate lean/QGen/C08.lean from the four `_set_coeffs` / `calc_c_qpt` / `cqpt_to_cqmpt`, `_get_target_index`,
    `calc_matA / calc_vecB / calc_prob_dists`: schedule item positions, dictionary key order, the row expressions of QST /
    QPT / POVMT (slices, offsets, split point, tile count, constants), the QMPT block constants.  Raises on source it
    cannot translate (e.g. a tester looked up with another index, a `sorted` with a key, another reshape)."""
    out = ["import QModel.C08",
           "/-! GENERATED on every run by harness/c08.py:translate (harness/pymat2lean.py) from the Python sources of quara — do not edit. -/",
           "namespace QGen.C08", ""]
    trees = {f: P2L.load(os.path.join(common.REPO, TOMO + f)) for f in
             ("standard_qst.py", "standard_povmt.py", "standard_qpt.py", "standard_qmpt.py", "standard_qtomography.py")}
    # ---------------------------------------------------------------- which item of a schedule is the unknown
    for f, cname, short in (("standard_qst.py", "StandardQst", "qst"), ("standard_povmt.py", "StandardPovmt", "povmt"),
                            ("standard_qpt.py", "StandardQpt", "qpt"), ("standard_qmpt.py", "StandardQmpt", "qmpt")):
        rel = TOMO + f
        k, ln = _target_item(P2L.find_class(trees[f], cname, rel), rel)
        out += [f"/-- {rel}:{ln} `_get_target_index`: position of the unknown in a schedule -/",
                f"def {short}_target_item : Int := {k}", ""]
    # ---------------------------------------------------------------- QST
    rel = TOMO + "standard_qst.py"
    fn = P2L.find_func(P2L.find_class(trees["standard_qst.py"], "StandardQst", rel), "_set_coeffs", rel)
    o, on, i, inn = _loops(fn, rel)
    k = P2L.schedule_item(o, "povm_index", rel)
    _lookup(o, "povm", "povms", "povm_index", rel)
    if ast.unparse(i.iter) != "enumerate(povm.vecs)":
        P2L.fail(rel, i, "expected the outcome loop over enumerate(povm.vecs)")
    vec = i.target.elts[1].id
    bt, bf = _flag_if(i, rel)
    st_t, d_t = _stores(bt, rel)
    st_f, d_f = _stores(bf, rel)
    key = P2L.key_function(st_t + st_f, on, inn, rel)
    rows = []
    for d in (d_t, d_f):
        rx = P2L.RowExpr(rel, {vec: "vec"}, {"np.sqrt(dim)"}, {}, {})
        a, ka = rx.expr(d["coeffs_1st"])
        b, kb = rx.expr(d["coeffs_0th"])
        if (ka, kb) != ("list", "scalar"):
            P2L.fail(rel, d["coeffs_1st"], "row / offset of the wrong kind")
        rows.append(P2L.option_pair(rx, a, b))
    out += [f"/-- {rel}:{fn.lineno} `_set_coeffs`: item of the schedule that names the tester POVM (−1 = last) -/",
            f"def qst_tester_item : Int := {k}", "",
            f"/-- {rel}: dictionary key of `_coeffs_0th / _coeffs_1st` -/",
            f"def qst_key (schedule_index element_index : Nat) : Nat × Nat := {key}", "",
            f"/-- {rel}:{i.lineno} the pair `(_coeffs_1st[key], _coeffs_0th[key])` of one POVM element; `r` = `np.sqrt(dim)` -/",
            "def qst_row {K : Type} [Div K] [Zero K] (flag : Bool) (r : K) (vec : List K) : Option (List K × K) :=",
            f"  if flag then {rows[0]}", f"  else {rows[1]}", ""]
    # ---------------------------------------------------------------- QPT (calc_c_qpt)
    rel = TOMO + "standard_qpt.py"
    fn = [n for n in trees["standard_qpt.py"].body if isinstance(n, ast.FunctionDef) and n.name == "calc_c_qpt"]
    if len(fn) != 1:
        P2L.fail(rel, "calc_c_qpt", "function not found")
    fn = fn[0]
    o, on, i, inn = _loops(fn, rel)
    ks = P2L.schedule_item(o, "state_index", rel, consts=fn)
    kp = P2L.schedule_item(o, "povm_index", rel, consts=fn)
    _lookup(o, "state", "states", "state_index", rel)
    _lookup(o, "povm", "povms", "povm_index", rel)
    if ast.unparse(i.iter) != "enumerate(povm.vecs)":
        P2L.fail(rel, i, "expected the outcome loop over enumerate(povm.vecs)")
    pv = i.target.elts[1].id
    ca = P2L.assigns(i).get("c")
    if not ca or len(ca) != 1:
        P2L.fail(rel, i, "expected one assignment to c")
    cv = ca[0].value
    if not (isinstance(cv, ast.Call) and ast.unparse(cv.func).endswith(".flatten") and not cv.args
            and isinstance(cv.func.value, ast.Call) and ast.unparse(cv.func.value.func) == "np.outer"
            and len(cv.func.value.args) == 2):
        P2L.fail(rel, cv, "expected `np.outer(u, v).flatten()`")
    names = {pv: "povm_vec", "state.vec": "state_vec"}
    args = []
    for a_ in cv.func.value.args:
        if ast.unparse(a_) not in names:
            P2L.fail(rel, cv, "outer product of something else than the POVM element and the state vector")
        args.append(names[ast.unparse(a_)])
    bt, bf = _flag_if(i, rel)
    st_t, d_t = _stores(bt, rel)
    st_f, d_f = _stores(bf, rel)
    key = P2L.key_function(st_t + st_f, on, inn, rel)
    local = {k_: v[0].value for k_, v in P2L.assigns(o).items() if len(v) == 1 and k_ != "c"}
    rows = []
    for d in (d_t, d_f):
        rx = P2L.RowExpr(rel, {"c": "c"}, set(), {"vec_size": "n", "state.vec.shape[0]": "n"}, local)
        a, ka = rx.expr(d["coeffs_1st"])
        b, kb = rx.expr(d["coeffs_0th"])
        if (ka, kb) != ("list", "scalar"):
            P2L.fail(rel, d["coeffs_1st"], "row / offset of the wrong kind")
        rows.append(P2L.option_pair(rx, a, b))
    out += [f"/-- {rel}:{fn.lineno} `calc_c_qpt`: items of the schedule naming the tester state / tester POVM -/",
            f"def qpt_state_item : Int := {ks}", f"def qpt_povm_item : Int := {kp}", "",
            f"/-- {rel}: dictionary key -/",
            f"def qpt_key (schedule_index element_index : Nat) : Nat × Nat := {key}", "",
            f"/-- {rel}:{ca[0].lineno} `c = {ast.unparse(cv)}` -/",
            "def qpt_c {K : Type} [Mul K] (povm_vec state_vec : List K) : List K := " + f"QM.C08.outerFlat {args[0]} {args[1]}", "",
            f"/-- {rel}:{i.lineno} the pair `(coeffs_1st[key], coeffs_0th[key])` from the row `c`; `n` = `state.vec.shape[0]` -/",
            "def qpt_row {K : Type} [Zero K] (flag : Bool) (n : Nat) (c : List K) : Option (List K × K) :=",
            f"  if flag then {rows[0]}", f"  else {rows[1]}", ""]
    # ---------------------------------------------------------------- POVMT
    rel = TOMO + "standard_povmt.py"
    fn = P2L.find_func(P2L.find_class(trees["standard_povmt.py"], "StandardPovmt", rel), "_set_coeffs", rel)
    o, on, i, inn = _loops(fn, rel)
    ks = P2L.schedule_item(o, "state_index", rel, consts=fn)
    _lookup(o, "state", "states", "state_index", rel)
    if ast.unparse(i.iter) != "range(m)":
        P2L.fail(rel, i, "expected the outcome loop over range(m)")
    loc = P2L.assigns(i)
    nat = {inn: "m_index", "vec_size": "vec_size", "m": "m"}
    rxn = P2L.RowExpr(rel, {}, set(), nat, {})

    def zeros_len(name):
        a_ = loc.get(name)
        if not a_ or len(a_) != 1 or not ast.unparse(a_[0].value).startswith("np.zeros((1, ") \
                or not ast.unparse(a_[0].value).endswith(").flatten()"):
            P2L.fail(rel, i, f"expected `{name} = np.zeros((1, <len>)).flatten()`")
        return rxn.nat_of(a_[0].value.func.value.args[0].elts[1])
    pre, post = zeros_len("pre_zeros"), zeros_len("post_zeros")
    apps = [ast.unparse(n.args[0]) for n in sorted((x for x in ast.walk(i) if isinstance(x, ast.Call)),
                                                   key=lambda x: (x.lineno, x.col_offset))
            if ast.unparse(n.func) == "stack_list.append" and len(n.args) == 1]      # in source order
    part = {"pre_zeros": f"QM.C08.zeros ({pre})", "state.vec": "rho", "post_zeros": f"QM.C08.zeros ({post})"}
    if sorted(apps) != sorted(part) or ast.unparse(loc["c"][0].value) != "np.hstack(stack_list)":
        P2L.fail(rel, i, "expected c = np.hstack of pre_zeros, state.vec, post_zeros")
    cexp = " ++ ".join(part[a_] for a_ in apps)
    bt, bf = _flag_if(i, rel)
    st_t, d_t = _stores(bt, rel)
    st_f, d_f = _stores(bf, rel)
    key = P2L.key_function(st_t + st_f, on, inn, rel)
    sp = [n for n in ast.walk(bt) if isinstance(n, ast.Assign) and isinstance(n.targets[0], ast.Tuple)]
    if len(sp) != 1 or ast.unparse(sp[0].targets[0]) != "(a_prime, c_prime)" \
            or not ast.unparse(sp[0].value).startswith("np.split(c, ["):
        P2L.fail(rel, i, "expected `a_prime, c_prime = np.split(c, [<k>])`")
    split = rxn.nat_of(sp[0].value.args[1].elts[0])
    la = P2L.assigns(bt)
    av = la["a"][0].value
    if not (isinstance(av, ast.BinOp) and isinstance(av.op, ast.Sub) and ast.unparse(av.left) == "a_prime"
            and isinstance(av.right, ast.Call) and ast.unparse(av.right.func) == "np.tile"
            and ast.unparse(av.right.args[0]) == "c_prime"):
        P2L.fail(rel, av, "expected `a = a_prime - np.tile(c_prime, <k>)`")
    tile = rxn.nat_of(av.right.args[1])
    if ast.unparse(d_t["coeffs_1st"]) != "a" or ast.unparse(d_f["coeffs_1st"]) != "c":
        P2L.fail(rel, i, "expected _coeffs_1st = a (flag) / c (no flag)")
    local = {k_: v[0].value for k_, v in P2L.assigns(o).items() if len(v) == 1}
    rxb = P2L.RowExpr(rel, {"c_prime": "c_prime"}, {"np.sqrt(dim)"}, {}, {"b": la["b"][0].value, "dim": local["dim"]})
    b_t, kb = rxb.expr(d_t["coeffs_0th"])
    rxf = P2L.RowExpr(rel, {}, set(), {}, {})
    b_f, _ = rxf.expr(d_f["coeffs_0th"])
    out += [f"/-- {rel}:{fn.lineno} `_set_coeffs`: item of the schedule naming the tester state -/",
            f"def povmt_state_item : Int := {ks}", "",
            f"def povmt_key (schedule_index element_index : Nat) : Nat × Nat := {key}", "",
            f"/-- {rel}:{i.lineno} one row of `_set_coeffs` (hstack order, zero paddings, split point, tile count and offset"
            " read from the source); `r` = `np.sqrt(dim)`, `rho` = `state.vec` -/",
            "def povmt_row {K : Type} [Mul K] [Sub K] [Zero K] (flag : Bool) (r : K) (m : Nat) (rho : List K) (m_index : Nat) :",
            "    Option (List K × K) :=",
            "  let vec_size := rho.length",
            f"  let c := {cexp}",
            "  if flag then",
            f"    let a_prime := c.take ({split})",
            f"    let c_prime := c.drop ({split})",
            "    " + P2L.option_pair(rxb, f"QM.C08.lsub a_prime (QM.C08.tile ({tile}) c_prime)", b_t),
            f"  else some (c, {b_f})", ""]
    # ---------------------------------------------------------------- QMPT
    rel = TOMO + "standard_qmpt.py"
    cls = P2L.find_class(trees["standard_qmpt.py"], "StandardQmpt", rel)
    fn = P2L.find_func(cls, "_set_coeffs", rel)
    o, on, i, inn = _loops(fn, rel)
    st = P2L.dict_stores(i, {"coeffs_0th", "coeffs_1st"}, rel)
    key = P2L.key_function(st, on, inn, rel)
    cf = [n for n in trees["standard_qmpt.py"].body if isinstance(n, ast.FunctionDef) and n.name == "cqpt_to_cqmpt"][0]
    bt, bf = _flag_if(cf, rel)
    la, lf = P2L.assigns(bt), P2L.assigns(bf)
    rxn = P2L.RowExpr(rel, {}, set(), {"dim": "dim", "m_mprocess": "m"}, {})

    def col_slice(name, want_upper):
        v = la[name][0].value
        if not (isinstance(v, ast.Subscript) and ast.unparse(v.value) == "c_qpt" and isinstance(v.slice, ast.Tuple)
                and len(v.slice.elts) == 2 and isinstance(v.slice.elts[1], ast.Slice)):
            P2L.fail(rel, v, "expected a column slice of c_qpt")
        sl = v.slice.elts[1]
        e = sl.upper if want_upper else sl.lower
        if e is None or (sl.lower if want_upper else sl.upper) is not None:
            P2L.fail(rel, v, "unexpected column slice")
        return rxn.nat_of(e)

    def times(node):
        if not (isinstance(node, ast.BinOp) and isinstance(node.op, ast.Mult) and ast.unparse(node.left) == "[c_qpt]"):
            P2L.fail(rel, node, "expected `[c_qpt] * <count>`")
        return rxn.nat_of(node.right)
    b1 = la["b_1"][0].value
    if not (isinstance(b1, ast.Subscript) and ast.unparse(b1.value) == "d_qpt.T"):
        P2L.fail(rel, b1, "expected `b_1 = d_qpt.T[k]`")
    no = P2L.find_func(cls, "num_outcomes", rel)
    nr = [n for n in ast.walk(no) if isinstance(n, ast.Return)][0].value
    rxo = P2L.RowExpr(rel, {}, set(), {"num_outcomes_povm": "num_outcomes_povm", "num_outcomes_mprocess": "num_outcomes_mprocess"}, {})
    ret = cf.body[-1]
    if not (isinstance(ret, ast.Return) and ast.unparse(ret.value) == "(a_qmpt, b_qmpt)"):
        P2L.fail(rel, cf, "expected `return a_qmpt, b_qmpt`")
    blocks = []
    for br in (bt, bf):
        rm = P2L.RowMat(rel, {"dim": "dim", "m_mprocess": "m"})
        rm.kinds["c_qpt"] = "mat"
        blocks.append(rm.block(br.body, "a_qmpt", "b_qmpt"))
    out += [f"/-- {rel}:{cf.lineno} `cqpt_to_cqmpt` statement by statement (block_diag / hstack / vstack on lists of rows) -/",
            "def cqpt_to_cqmpt {K : Type} [Neg K] [Zero K] (flag : Bool) (dim m : Nat) (c_qpt : List (List K)) :",
            "    Option (List (List K) × List K) :=",
            "  if flag then", blocks[0], "  else", blocks[1], ""]
    out += [f"def qmpt_key (schedule_index element_index : Nat) : Nat × Nat := {key}", "",
            f"/-- {rel}:{cf.lineno} `cqpt_to_cqmpt`: columns of `d_qpt` / start of `e_qpt`, number of diagonal blocks with and"
            " without the flag, column of `d_qpt` that gives `b_1` -/",
            f"def qmpt_d_cols (dim : Nat) : Nat := {col_slice('d_qpt', True)}",
            f"def qmpt_e_from (dim : Nat) : Nat := {col_slice('e_qpt', False)}",
            f"def qmpt_blocks_flag (m : Nat) : Nat := {times(la['c_list'][-1].value)}",
            f"def qmpt_blocks (m : Nat) : Nat := {times(lf['c_list'][-1].value)}",
            f"def qmpt_b1_col : Nat := {P2L.subscript_index(b1, rel)}",
            f"/-- {rel}:{no.lineno} `num_outcomes` -/",
            f"def qmpt_num_outcomes (num_outcomes_povm num_outcomes_mprocess : Nat) : Nat := {rxo.nat_of(nr)}", ""]
    # ---------------------------------------------------------------- calc_matA / calc_vecB / calc_prob_dists (shape of the code)
    rel = TOMO + "standard_qtomography.py"
    cls = P2L.find_class(trees["standard_qtomography.py"], "StandardQTomography", rel)
    for name, d, fin in (("calc_matA", "_coeffs_1st", "np.vstack(sorted_values)"),
                         ("calc_vecB", "_coeffs_0th", "np.vstack(sorted_values).flatten()")):
        f_ = P2L.find_func(cls, name, rel)
        body = [ast.unparse(x) for x in P2L.strip_doc(f_.body)]
        v1 = "sorted_" + d[1:]
        want = [f"{v1} = sorted(self.{d}.items())", f"sorted_values = [k[1] for k in {v1}]"]
        if body[:2] != want or fin not in body[2]:
            P2L.fail(rel, f_, f"{name} is not `sorted(self.{d}.items())` → values → vstack any more")
    f_ = P2L.find_func(cls, "calc_prob_dists", rel)
    src = ast.unparse(f_)
    for frag in ("self.calc_matA() @ qope.to_var() + self.calc_vecB()", "self.calc_matA() @ qope.to_stacked_vector() + self.calc_vecB()",
                 "tmp_prob_dists.reshape((self.num_schedules, -1))", "matrix_util.truncate_and_normalize(prob_dists)"):
        if frag not in src:
            P2L.fail(rel, f_, f"calc_prob_dists no longer contains `{frag}`")
    f1 = P2L.find_func(cls, "calc_prob_dist", rel)
    if "prob_dists[schedule_index]" not in ast.unparse(f1):
        P2L.fail(rel, f1, "calc_prob_dist no longer returns prob_dists[schedule_index]")
    out += ["/-! Checked structurally by the translator (it raises otherwise, nothing is generated for them): `calc_matA / calc_vecB` ="
            " `sorted(dict.items())` → values → vstack; `calc_prob_dists` = `matA @ var + vecB`, `reshape((num_schedules, -1))`,"
            " `truncate_and_normalize`; `calc_prob_dist` = entry `[schedule_index]`. -/",
            "", "end QGen.C08", ""]
    P2L.write_if_changed(os.path.join(common.LEAN, "QGen", "C08.lean"), "\n".join(out))
    return []


KNOWN_POST = "C08/circuit/qmpt/small-outcome-probability/post-state-validation-raises"


def post_state_rounding(e, S, t):
    """the circuit refuses a PHYSICAL measurement process on a physical tester state because the post-measurement state
    `hs_x ρ / p_x` of an unlikely outcome (1e-8 < p_x < 2e-3) fails `is_physical` by rounding (finding D15)"""
    if "the state is not physically correct" not in str(e):
        return None
    return ts.small_branch(S.kind, S.rhos, S.schedules, t)


KNOWN_RESHAPE = "C08/calc_prob_dists/mixed-outcome-counts/reshape-raises"
KNOWN_GROUPING = "C08/calc_prob_dists/mixed-outcome-counts/wrong-grouping"


# ----------------------------------------------------------------------------- configurations
def specs(tier, volume=1):
    """(sys, states-how, povms-how, kind, flag, m, schedule-variant)"""
    quick = tier == "quick" and volume == 1
    out = []
    for kind in ts.TYPES:
        for flag in (True, False):
            ms = (2, 3, 4) if kind in ("povmt", "qmpt") else (2,)
            for m in ms:
                for sh, ph in [("typical", "typical"), ("random", "mixed"), ("random_over", "random_over"),
                               ("typical_over", "mixed"), ("derived", "derived")]:
                    if (sh, ph) == ("derived", "derived") and m != ms[0]:
                        continue
                    if kind == "qmpt" and m == 4 and sh != "typical":
                        continue
                    for sv in ("all", "perm", "reversed", "subset", "repeat"):
                        if sv != "all" and (sh, ph) not in (("random", "mixed"), ("typical", "typical")):
                            continue
                        if quick and kind == "qmpt" and m == 4 and sv != "all":
                            continue
                        out.append(("qubit", sh, ph, kind, flag, m, sv))
            for sh, ph in [("typical", "typical"), ("random", "mixed")]:
                m = 3 if kind in ("povmt", "qmpt") else 2
                if kind == "qmpt" and (quick or ph == "mixed"):
                    m = 2
                if quick and kind == "qmpt" and ph == "mixed":
                    continue
                out.append(("qutrit", sh, ph, kind, flag, m, "all" if ph == "typical" else "perm"))
            if quick:
                if kind in ("qst", "povmt"):
                    out.append(("2qubit", "typical", "mixed", kind, flag, 4 if kind == "povmt" else 2, "perm"))
            else:
                out.append(("2qubit", "typical", "typical", kind, flag, 3 if kind == "povmt" else 2, "all"))
                if kind != "qmpt":
                    out.append(("2qubit", "random", "mixed", kind, flag, 4 if kind == "povmt" else 2, "perm"))
    return out


def variant_schedules(g, kind, n_states, n_povms, variant):
    base = ts.default_schedules(kind, n_states, n_povms)
    if variant == "all":
        return "all", base
    idx = [int(i) for i in g.permutation(len(base))]
    if variant == "perm":
        sch = [base[i] for i in idx]
        if sch == base and len(base) > 1:      # never the identity enumeration
            sch = sch[1:] + sch[:1]
    elif variant == "reversed":
        sch = base[::-1]
    elif variant == "subset":
        sch = [base[i] for i in sorted(idx[: max(2, (2 * len(base)) // 3)])]
    else:  # repeat
        sch = [base[i] for i in idx] + [base[idx[0]], base[idx[-1]], base[idx[0]]]
    return sch, sch


class Setup:
    def __init__(self, seed, spec):
        self.spec = spec
        sysname, sh, ph, kind, flag, m, sv = spec
        self.g = Ctx("C08", "quick", seed).npgen("setup-" + "-".join(str(x) for x in spec))
        self.c_sys = ts.make_csys(sysname)
        self.d = self.c_sys.dim
        self.n = self.d * self.d
        self.states, self.rhos = ts.tester_states(self.g, self.c_sys, sysname, sh)
        self.povms, self.pmats = ts.tester_povms(self.g, self.c_sys, sysname, ph)
        self.kind, self.flag, self.m = kind, flag, m
        arg, self.schedules = variant_schedules(self.g, kind, len(self.states), len(self.povms), sv)
        self.qt = ts.build(kind, self.states, self.povms, flag, m, arg)
        self.A = np.array(self.qt.calc_matA(), dtype=np.float64, copy=True)
        self.b = np.array(self.qt.calc_vecB(), dtype=np.float64, copy=True)
        self.pairs = []
        for s in self.schedules:
            i, j = ts.schedule_indices(kind, s)
            self.pairs.append((0 if i is None else i, 0 if j is None else j))
        mult = m if kind == "qmpt" else 1
        if kind == "povmt":
            self.counts = [m for _ in self.schedules]
        else:
            self.counts = [len(self.povms[j].vecs) * mult for _, j in self.pairs]

    # texts for the driver
    def states_text(self):
        return ";".join(qlist(s.vec) for s in self.states) if self.states else "_"

    def povms_text(self):
        return "|".join(";".join(qlist(v) for v in p.vecs) for p in self.povms) if self.povms else "_"

    def scheds_text(self):
        return ";".join(f"{i}:{j}" for i, j in self.pairs) if self.pairs else "_"

    def split(self, f):
        out, k = [], 0
        for c in self.counts:
            out.append(np.array(f[k:k + c], dtype=np.float64))
            k += c
        return out

    def circuit(self, obj):
        """run every schedule through compose_qoperations directly (not through Experiment)"""
        out = []
        for i, j in self.pairs:
            if self.kind == "qst":
                r = compose_qoperations(self.povms[j], obj)
            elif self.kind == "povmt":
                r = compose_qoperations(obj, self.states[i])
            else:
                r = compose_qoperations(self.povms[j], obj, self.states[i])
            out.append(np.array(r.ps, dtype=np.float64))
        return out

    def true_var(self, cls="interior"):
        t = ts.true_objects(self.g, self.c_sys, self.kind, self.m, classes=(cls,), flag=self.flag)[0]
        return t, t.var(self.flag)


def parse_vecs(s):
    return [] if s == "_" else [[float(x) for x in unqlist(t)] for t in s.split(";")]


def flat(vs):
    return [x for v in vs for x in v]


def impl_err(e):
    m = str(e)
    if "cannot reshape" in m:
        return "reshape"
    if "matmul" in m or "mismatch" in m:
        return "shape"
    return type(e).__name__


def raised(ctx, where, spec, e, rep):
    """an unexpected exception from the real code on a property-relevant input is a violation with that input"""
    ctx.violate(f"C08/{where}/{spec[3]}/flag={spec[4]}/raises-{type(e).__name__}",
                f"{type(e).__name__}: {str(e)[:200]} on {spec}", rep)


# ----------------------------------------------------------------------------- correspondence
def correspondence(ctx):
    drv = Driver("C08")
    pend = []
    eps = Settings.get_atol()
    lim = 40000 if ctx.quick else 400000     # entries of matA handled by the exact model in this tier
    def one(spec):
        S = Setup(ctx.seed, spec)
        A, b = S.A, S.b
        if A.size > lim:
            ctx.count("corr skipped (matA too large for this tier)")
            return
        kind, flag, m, n = S.kind, S.flag, S.m, S.n
        r = q(np.sqrt(S.d))
        fl = "1" if flag else "0"
        st, pv, sc = S.states_text(), S.povms_text(), S.scheds_text()
        ctx.count(f"corr {spec[0]} {kind} flag={flag} m={m} testers={spec[1]}/{spec[2]} sched={spec[6]} "
                  f"counts={'mixed' if len(set(S.counts)) > 1 else 'equal'}")
        # (0) decoding of the schedules into (tester state, tester povm) through the item positions
        for si_, sched_ in enumerate(S.schedules[:6]):
            i = drv.ask("schedpair", kind, ",".join(str(int(it[1])) for it in sched_))
            pend.append(("schedpair", (spec, si_), f"ok {S.pairs[si_][0]}:{S.pairs[si_][1]}", i))
        # (a) matA / vecB entrywise, same row order
        i = drv.ask("coeffs", kind, fl, r, m, st, pv, sc)
        pend.append(("coeffs", spec, (A, b), i))
        # (b) candidates: physical (interior / boundary), non-physical random, affine-basis-like unit vectors
        nv = A.shape[1]
        cands = []
        tobj = {}
        for cls in ("interior", "boundary"):
            t, v = S.true_var(cls)
            cands.append((cls, v, t.obj))
            tobj[cls] = t
        tl = ts.layout_variant(S.true_var("interior")[0], S.c_sys, flag)
        cands.append(("interior/layout", tl.var(flag), tl.obj))
        tobj["interior/layout"] = tl
        if kind == "qmpt":
            for t in ts.edge_objects(S.c_sys, kind, m, flag)[:(3 if ctx.quick else 99)]:
                cands.append((t.label, t.var(flag), t.obj))
                tobj[t.label] = t
        vr = np.round(S.g.standard_normal(nv) * 256) / 1024
        cands.append(("nonphysical", vr, None))
        e = np.zeros(nv); e[int(S.g.integers(0, nv))] = 1.0
        cands.append(("unit", e, None))
        if ctx.quick and spec[6] != "all":
            # quick tier: custom schedule lists are compared on the coefficients and on two candidates only
            cands = [c_ for c_ in cands if c_[0] in ("interior", "nonphysical")]
        for lab, v, obj in cands:
            vt = qlist(v)
            built = S.qt.convert_var_to_qoperation(v)
            i = drv.ask("objof", kind, fl, r, n, m, vt)
            pend.append(("objof", (spec, lab), built.to_stacked_vector(), i))
            i = drv.ask("predict", kind, fl, r, m, st, pv, sc, vt)
            pend.append(("predict", (spec, lab), A @ v + b, i))
            i = drv.ask("circuit", kind, fl, r, n, m, 0, st, pv, sc, vt)
            gen_ = None
            if obj is not None:
                try:
                    gen_ = np.concatenate(S.qt.generate_prob_dists_sequence(obj))
                except ValueError as ex:
                    psm = post_state_rounding(ex, S, tobj[lab]) if lab in tobj else None
                    if psm is None:
                        raise
                    ctx.violate(KNOWN_POST, f"{spec} cand={lab}: outcome probability {psm:.2e} on a tester state; "
                                f"compose_qoperations raises `{ex}` for a physical measurement process",
                                {"kind": "setup", "seed": ctx.seed, "spec": list(spec)})
                    obj = None        # the circuit cannot be run: the model's circuit is compared with the affine map
            if obj is not None:
                pend.append(("circuit", (spec, lab), gen_, i))
                if kind == "qmpt":
                    i2 = drv.ask("circuit", kind, fl, r, n, m, 1, st, pv, sc, vt)
                    pend.append(("circuit-walk", (spec, lab), np.concatenate(S.circuit(obj)), i2))
                    # the walk with the code's thresholds (eps_zero of the measurement process, atol of
                    # truncate_and_normalize): boundary candidates take the clipping branch
                    i3 = drv.ask("circuiteps", fl, r, q(obj.eps_zero), q(eps), n, m, st, pv, sc, vt)
                    pend.append(("circuit-eps", (spec, lab), np.concatenate(S.circuit(obj)), i3))
                try:
                    pd = ("ok", [list(x) for x in S.qt.calc_prob_dists(obj)])
                except ValueError as ex:
                    pd = ("err", impl_err(ex))
                i = drv.ask("probdists", kind, fl, r, m, q(eps), st, pv, sc, vt)
                pend.append(("probdists", (spec, lab), pd, i))
                if lab == "interior" and (spec[6] == "all" or not ctx.quick):
                    for idx in (len(S.pairs) - 1, len(S.pairs)):     # last schedule; one past the end (IndexError)
                        try:
                            p1 = ("ok", [list(S.qt.calc_prob_dist(obj, idx))])
                        except ValueError as ex:
                            p1 = ("err", impl_err(ex))
                        except IndexError:
                            p1 = ("err", "index")
                        i = drv.ask("probdist1", kind, fl, r, m, q(eps), st, pv, sc, vt, idx)
                        pend.append(("probdist1", (spec, lab, idx), p1, i))
            else:
                pend.append(("circuit", (spec, lab), A @ v + b, i))   # model circuit vs implementation's affine map
            ctx.case(("corr", spec, lab), nontrivial=True,
                     sample={"op": "coeffs/objof/predict/circuit/probdists", "spec": list(spec), "cand": lab,
                             "shape": list(A.shape), "counts": S.counts[:6]})
        # wrong length of var
        i = drv.ask("predict", kind, fl, r, m, st, pv, sc, qlist(np.zeros(nv + 1)))
        try:
            A @ np.zeros(nv + 1)
            w = ("ok",)
        except ValueError as ex:
            w = ("err", impl_err(ex))
        pend.append(("predict-shape", spec, w, i))

    for spec in specs(ctx.tier):
        try:
            one(spec)
        except Exception as e:  # noqa
            raised(ctx, "correspondence", spec, e, {"kind": "setup", "seed": ctx.seed, "spec": list(spec)})
    out = drv.run()
    for op, inp, impl, i in pend:
        ctx.corr_ops.add(op)
        t = out[i].split()
        if op == "schedpair":
            if out[i] != impl:
                ctx.disagree(op, inp, impl, out[i])
            continue
        if op == "coeffs":
            A, b = impl
            if t[0] != "ok":
                ctx.disagree(op, inp, "ok", out[i][:100]); continue
            rows = parse_vecs(t[1]); vb = [float(x) for x in unqlist(t[2])]
            if len(rows) != A.shape[0] or any(len(rw) != A.shape[1] for rw in rows) or \
                    not allclose(flat(rows), A.flatten()) or not allclose(vb, b):
                ctx.disagree(op, inp, f"matA {A.shape}", f"model rows {len(rows)}")
        elif op in ("objof",):
            if t[0] != "ok" or not allclose(flat(parse_vecs(t[1])), impl):
                ctx.disagree(op, inp, list(impl)[:8], out[i][:120])
        elif op in ("predict", "circuit", "circuit-walk", "circuit-eps"):
            vals = None
            if t[0] == "ok":
                vals = [float(x) for x in unqlist(t[1])] if op == "predict" else flat(parse_vecs(t[1]))
            if vals is None or not allclose(vals, impl):
                ctx.disagree(op, inp, list(impl)[:8], out[i][:120])
        elif op == "predict-shape":
            if (t[0], t[1] if len(t) > 1 else None) != (impl[0], impl[1] if len(impl) > 1 else None):
                ctx.disagree(op, inp, impl, out[i][:60])
        elif op in ("probdists", "probdist1"):
            if impl[0] == "err":
                if t[0] != "err" or t[1] != impl[1]:
                    ctx.disagree(op, inp, impl, out[i][:60])
            else:
                rows = parse_vecs(t[1]) if t[0] == "ok" else None
                if rows is None or len(rows) != len(impl[1]) or any(not allclose(a, b_) for a, b_ in zip(rows, impl[1])):
                    ctx.disagree(op, inp, "ok " + str(impl[1][:2]), out[i][:120])


# ----------------------------------------------------------------------------- oracle
def spans(vectors, n):
    return np.linalg.matrix_rank(np.array(vectors)) == n


def check_setup(ctx, spec, full_basis=True):
    """nothing raised by the real code escapes: constructor / forward model / circuit exceptions become violations"""
    try:
        _check_setup(ctx, spec, full_basis)
    except Exception as e:  # noqa
        raised(ctx, "oracle", spec, e, {"kind": "setup", "seed": ctx.seed, "spec": list(spec)})


def _check_setup(ctx, spec, full_basis=True):
    S = Setup(ctx.seed, spec)
    qt, A, b, kind, flag = S.qt, S.A, S.b, S.kind, S.flag
    rep = {"kind": "setup", "seed": ctx.seed, "spec": list(spec)}
    tag = f"{kind}/flag={flag}"
    ctx.count(f"oracle {spec[0]} {kind} flag={flag} sched={spec[6]} counts={'mixed' if len(set(S.counts)) > 1 else 'equal'}")
    if not (np.all(np.isfinite(A)) and np.all(np.isfinite(b))):
        ctx.violate(f"C08/calc_matA/{tag}/non-finite", f"{spec}: matA / vecB contain non-finite entries", rep)
        return
    # --- one column per variable, one row per (schedule, outcome)
    if A.shape[1] != qt.num_variables or A.shape[0] != sum(S.counts) or b.shape != (A.shape[0],):
        ctx.violate(f"C08/calc_matA/{tag}/shape", f"{spec}: matA {A.shape}, num_variables {qt.num_variables}, "
                    f"outcomes {sum(S.counts)}", rep)
        return
    if [qt.num_outcomes(i) for i in range(qt.num_schedules)] != S.counts:
        ctx.violate(f"C08/num_outcomes/{tag}", f"{spec}: num_outcomes per schedule differ from the testers'", rep)
        return
    # --- full column rank when the testers used by the schedules are informationally complete
    # (independent criterion on Hermitian matrices: the operators probed by the scheduled circuits span the space)
    if kind == "qst":
        probes = [e.flatten() for _, j in S.pairs for e in S.pmats[j]]
        need = S.n
    elif kind == "povmt":
        probes = [S.rhos[i].flatten() for i, _ in S.pairs]
        need = S.n
    else:
        probes = [np.kron(e, S.rhos[i].T).flatten() for i, j in S.pairs for e in S.pmats[j]]
        need = S.n * S.n
    ic_s, ic_p = bool(np.linalg.matrix_rank(np.array(probes)) == need), True
    rank = np.linalg.matrix_rank(A)
    ctx.case(("oracle-rank", spec), sample={"check": "rank", "spec": list(spec), "ic": bool(ic_s and ic_p), "rank": int(rank)})
    if (ic_s and ic_p) != (rank == A.shape[1]) or bool(qt.is_fullrank_matA()) != (rank == min(A.shape)):
        ctx.violate(f"C08/is_fullrank_matA/{tag}/ic", f"{spec}: testers informationally complete = {ic_s and ic_p}, "
                    f"rank(matA) = {rank} of {A.shape[1]} columns, is_fullrank_matA = {qt.is_fullrank_matA()}", rep)
        return
    # --- affine-basis comparison with the circuit: a physical interior centre and centre + eps·e_i
    tc, vc = S.true_var("interior")
    if flag:
        centre, dirs = vc, np.eye(len(vc))
        to_var = lambda v: v                                     # noqa: E731
    else:
        # the circuit normalises, so candidates stay in the normalised affine subspace: its affine basis is the
        # image of the flag=True variable space
        t1 = ts.true_objects(S.g, S.c_sys, kind, S.m, classes=("interior",), flag=True)[0]
        centre, dirs = t1.obj.to_var(), np.eye(len(t1.obj.to_var()))
        gen = t1.obj
        to_var = lambda v: gen.generate_from_var(v, is_physicality_required=False).to_stacked_vector()   # noqa: E731
    step = 0.02 if kind in ("qst", "povmt") else 0.01
    idxs = list(range(len(centre)))
    if not full_basis and len(idxs) > 40:
        idxs = sorted(int(i) for i in S.g.choice(len(centre), 40, replace=False))
    points = [("centre", centre)] + [(f"e{i}", centre + step * dirs[i]) for i in idxs]
    worst = 0.0
    for lab, p in points:
        var = to_var(p)
        try:
            obj = qt.convert_var_to_qoperation(var)
            circ = S.circuit(obj)
        except Exception as e:  # noqa
            ctx.violate(f"C08/circuit/{tag}/raises", f"{type(e).__name__}: {e} at basis point {lab} of {spec}", rep)
            return
        pred = S.split(A @ var + b)
        ctx.case(("oracle-affine", spec, lab), sample={"check": "affine basis point", "spec": list(spec), "point": lab})
        for si, (c, pr) in enumerate(zip(circ, pred)):
            if c.shape != pr.shape:
                ctx.violate(f"C08/forward-model/{tag}/outcome-count", f"{spec} schedule {si}: circuit has {c.shape} "
                            f"outcomes, model slice {pr.shape}", rep)
                return
            dlt = float(np.abs(c - pr).max())
            worst = max(worst, dlt)
            if not dlt <= 1e-11:
                ctx.violate(f"C08/forward-model/{tag}/affine-basis",
                            f"{spec} basis point {lab}, schedule {si} {S.schedules[si]}: matA·var+vecB = {np.round(pr, 6)} "
                            f"but the circuit gives {np.round(c, 6)} (max diff {dlt:.3e})", rep)
                return
    # --- candidates OUTSIDE the physical set (normalised, not positive): extrapolations through a pure / boundary object,
    # as a linear estimate produces them.  Built by the tomography's own template (is_physicality_required=False); whenever
    # the predicted probabilities are all clearly positive the circuit has to run and to agree
    t_in, v_in = S.true_var("interior")
    for cls in ("pure", "boundary"):
        t_b, v_b = S.true_var(cls)
        for tt in (1.15, 1.4, 2.0):
            var = v_in + tt * (v_b - v_in)
            pred = A @ var + b
            ctx.case(("oracle-nonphysical", spec, cls, tt), sample={"check": "non-physical candidate", "spec": list(spec),
                                                                   "t": tt, "min p": float(pred.min())})
            if pred.min() < 1e-3:
                continue
            try:
                obj = qt.convert_var_to_qoperation(var)
                circ = np.concatenate(S.circuit(obj))
                gen = np.concatenate(qt.generate_prob_dists_sequence(obj))
            except Exception as e:  # noqa
                ctx.violate(f"C08/circuit/{tag}/nonphysical-candidate/raises-{type(e).__name__}",
                            f"{spec}: candidate centre + {tt}·({cls} − centre) (normalised, not positive, all predicted "
                            f"probabilities ≥ {pred.min():.3f}): the circuit cannot be run: {type(e).__name__}: {str(e)[:120]}", rep)
                return
            if circ.shape != pred.shape or not np.abs(circ - pred).max() <= 1e-11 or not np.abs(gen - pred).max() <= 1e-11:
                ctx.violate(f"C08/forward-model/{tag}/nonphysical-candidate",
                            f"{spec}: candidate centre + {tt}·({cls} − centre): matA·var+vecB differs from the circuit by "
                            f"{np.abs(circ - pred).max():.2e}", rep)
                return
    # --- library paths: generate_prob_dists_sequence, calc_prob_dist(s) for physical candidates
    cand = [S.true_var(cls)[0] for cls in ("interior", "boundary", "pure")]
    if kind != "qpt" and (spec[1].startswith("typical") or spec[2] == "typical"):
        # boundary candidates with exact zero-probability outcomes that are not the last outcome (exact zeros only
        # arise against axis-aligned typical testers)
        cand += ts.edge_objects(S.c_sys, kind, S.m, flag)
    # the same candidates handed over in another memory layout (Fortran-ordered / transposed-view / strided arrays)
    cand += [ts.layout_variant(t, S.c_sys, flag) for t in cand[:3]]
    for t in cand:
        cls, v = t.label, t.var(flag)
        ctx.case(("oracle-paths", spec, cls), sample={"check": "calc_prob_dists / generate_prob_dists_sequence", "true": cls})
        ref = ts.born_reference(kind, S.rhos, S.pmats, S.schedules, t)
        try:
            gen = qt.generate_prob_dists_sequence(t.obj)
        except Exception as e:  # noqa
            psm = post_state_rounding(e, S, t)
            if psm is not None:
                ctx.violate(KNOWN_POST, f"{spec} true={cls}: a physical measurement process has an outcome of probability "
                            f"{psm:.2e} on a tester state; compose_qoperations validates the rounded post state hs_x·ρ/p_x "
                            f"at atol 1e-13 and raises `{e}`", rep)
                continue
            ctx.violate(f"C08/generate_prob_dists_sequence/{tag}/raises", f"{type(e).__name__}: {e} on {spec}", rep)
            return
        pred = S.split(A @ v + b)
        for si in range(len(ref)):
            if len(gen[si]) != len(ref[si]) or not np.abs(gen[si] - ref[si]).max() <= 1e-11:
                ctx.violate(f"C08/generate_prob_dists_sequence/{tag}/born",
                            f"{spec} true={cls} schedule {si}: circuit {np.round(gen[si], 6)} vs Born rule {np.round(ref[si], 6)}", rep)
                return
            if not np.abs(pred[si] - ref[si]).max() <= 1e-11:
                ctx.violate(f"C08/forward-model/{tag}/born",
                            f"{spec} true={cls} schedule {si}: matA·var+vecB {np.round(pred[si], 6)} vs Born rule {np.round(ref[si], 6)}", rep)
                return
        mixed = len(set(S.counts)) > 1
        try:
            pds = qt.calc_prob_dists(t.obj)
            one = qt.calc_prob_dist(t.obj, len(ref) - 1)
        except ValueError as e:
            if mixed and "cannot reshape" in str(e):
                ctx.violate(KNOWN_RESHAPE, f"{spec}: outcome counts {S.counts[:8]}… calc_prob_dists raises ValueError: {e}", rep)
            else:
                ctx.violate(f"C08/calc_prob_dists/{tag}/raises", f"ValueError: {e} on {spec}", rep)
            break
        except Exception as e:  # noqa
            ctx.violate(f"C08/calc_prob_dists/{tag}/raises", f"{type(e).__name__}: {e} on {spec}", rep)
            break
        ok = len(pds) == len(ref) and all(len(a) == len(r_) and np.abs(np.array(a) - r_).max() <= 1e-9
                                          for a, r_ in zip(pds, ref)) and \
            len(one) == len(ref[-1]) and np.abs(np.array(one) - ref[-1]).max() <= 1e-9
        if not ok:
            if mixed:
                ctx.violate(KNOWN_GROUPING, f"{spec}: outcome counts {S.counts[:8]}… calc_prob_dists silently regroups "
                            f"the {sum(S.counts)} probabilities into rows of {sum(S.counts) // len(S.counts)} "
                            f"and renormalises them (first rows {[np.round(np.array(a), 3).tolist() for a in pds[:3]]} vs "
                            f"Born rule {[np.round(r_, 3).tolist() for r_ in ref[:3]]})", rep)
            else:
                ctx.violate(f"C08/calc_prob_dists/{tag}/born", f"{spec} true={cls}: calc_prob_dists differs from the Born rule", rep)
            break


def check_incomplete(ctx):
    """tester sets that are not informationally complete must give a rank-deficient matA"""
    import c09
    c_sys = ts.make_csys("qubit")
    for kind, ns, npv in c09.INCOMPLETE:
        for flag in (True, False):
            sts = ts.generate_tester_states(c_sys, ns) if ns else []
            pvs = ts.generate_tester_povms(c_sys, npv) if npv else []
            qt = ts.build(kind, sts, pvs, flag, 2)
            A = qt.calc_matA()
            ctx.case(("oracle-incomplete", kind, flag, tuple(ns or ()), tuple(npv or ())),
                     sample={"check": "incomplete ⇒ rank deficient", "kind": kind, "shape": list(A.shape)})
            ctx.count("oracle incomplete tester sets")
            if np.linalg.matrix_rank(A) >= A.shape[1]:
                ctx.violate(f"C08/is_fullrank_matA/{kind}/incomplete-fullrank",
                            f"{kind} flag={flag} testers {ns}/{npv}: matA has full column rank although the testers are incomplete",
                            {"kind": "incomplete", "seed": ctx.seed})


PARTIAL = [
    {"theorem": "QM.C08.qmpt_walk_eps_eq_born / qmptCircuitWalkEps_eq",
     "missing": "proved for unclipped outcomes and for clipped outcomes of Born value exactly 0 (boundary objects), with proper "
                "conditional distributions; outcomes with 0 < p_x <= eps_zero and the re-normalisations inside "
                "MultinomialDistribution (C16) are covered by the `circuiteps` correspondence only"},
]


THETAS = [np.pi / 2, 0.3, 1e-2, 1e-3, 1e-4, 1e-5, 1e-6, 1e-7]


def check_near_redundant(ctx):
    """informationally complete but nearly redundant tester sets (1 qubit; tester axes z, x and (cos θ, sin θ, 0) with
    θ → 0): as long as the singular values of the probed operators stay far above numpy's rank tolerance
    (σmin/σmax > 1e-11), matA must be reported as full rank"""
    c_sys = ts.make_csys("qubit")
    B = ts.basis_stack(c_sys)
    I2 = np.eye(2, dtype=complex)
    sx = np.array([[0, 1], [1, 0]], dtype=complex)
    sy = np.array([[0, -1j], [1j, 0]], dtype=complex)
    sz = np.array([[1, 0], [0, -1]], dtype=complex)

    def proj(nv, sign=1.0):
        return (I2 + sign * (nv[0] * sx + nv[1] * sy + nv[2] * sz)) / 2

    for theta in THETAS:
        axes = [np.array([0.0, 0.0, 1.0]), np.array([1.0, 0.0, 0.0]), np.array([np.cos(theta), np.sin(theta), 0.0])]
        rhos = [proj(axes[0]), proj(axes[0], -1.0), proj(axes[1]), proj(axes[2])]
        pmats = [[proj(a), proj(a, -1.0)] for a in axes]
        states = [ts.State(c_sys, ts.vec_of(B, r_)) for r_ in rhos]
        povms = [ts.Povm(c_sys, [ts.vec_of(B, e) for e in es]) for es in pmats]
        for kind in ("qst", "povmt", "qpt"):
            for flag in (True, False):
                rep = {"kind": "near", "seed": ctx.seed, "theta": theta, "which": [kind, flag]}
                try:
                    qt = ts.build(kind, states, povms, flag, 2)
                    A = np.array(qt.calc_matA(), copy=True)
                    verdict = bool(qt.is_fullrank_matA())
                except Exception as e:  # noqa
                    ctx.violate(f"C08/is_fullrank_matA/{kind}/flag={flag}/near-redundant/raises-{type(e).__name__}",
                                f"{type(e).__name__}: {e} for θ={theta}", rep)
                    continue
                if kind == "qst":
                    probes = [e.flatten() for es in pmats for e in es]
                elif kind == "povmt":
                    probes = [r_.flatten() for r_ in rhos]
                else:
                    probes = [np.kron(e, r_.T).flatten() for r_ in rhos for es in pmats for e in es]
                sv = np.linalg.svd(np.array(probes), compute_uv=False)
                need = 4 if kind != "qpt" else 16
                ratio = sv[need - 1] / sv[0]
                sa = np.linalg.svd(A, compute_uv=False)
                ratio_a = sa[-1] / sa[0]
                ctx.case(("oracle-near", kind, flag, theta), nontrivial=theta < 1.0,
                         sample={"check": "IC but nearly redundant", "kind": kind, "theta": theta, "sigma_ratio": float(ratio_a)})
                ctx.count("oracle near-redundant IC tester sets" + ("" if min(ratio, ratio_a) > 1e-11 else " (skipped: below 1e-11)"))
                if min(ratio, ratio_a) > 1e-11 and not verdict:
                    ctx.violate(f"C08/is_fullrank_matA/{kind}/flag={flag}/near-redundant",
                                f"{kind} flag={flag}, tester axes z, x, (cos θ, sin θ, 0) with θ={theta:g}: the testers are "
                                f"informationally complete (σmin/σmax of matA = {ratio_a:.2e}, far above the rank tolerance) "
                                f"but is_fullrank_matA() is False", rep)


def check_product_testers(ctx):
    """2-qubit measurement-process tomography with PRODUCT tester POVMs (built by `tensor_product`, local outcome counts
    (2,2) and (2,3)) and boundary candidates with exact zero-probability outcomes: circuit, forward model and Born rule
    must agree entry by entry.  A handful of schedules only (informational completeness is not needed here)."""
    from quara.objects.composite_system import CompositeSystem
    from quara.objects.operators import tensor_product
    c2 = ts.make_csys("2qubit")
    e0, e1 = c2._elemental_systems
    c_a, c_b = CompositeSystem([e0]), CompositeSystem([e1])
    g = ctx.npgen("product-testers")
    Ba, Bb = ts.basis_stack(c_a), ts.basis_stack(c_b)
    pz_a = ts.generate_tester_povms(c_a, ["z"])[0]
    px_b = ts.generate_tester_povms(c_b, ["x"])[0]
    m3 = ts.povm_mats(g, 2, 3)
    p3_b = ts.Povm(c_b, [ts.vec_of(Bb, e) for e in m3])
    povms = [tensor_product(pz_a, px_b), tensor_product(pz_a, p3_b)]
    pm_a = [np.array(x) for x in pz_a.matrices()]
    pmats = [[np.kron(a, b_) for a in pm_a for b_ in [np.array(x) for x in px_b.matrices()]],
             [np.kron(a, b_) for a in pm_a for b_ in m3]]
    names = [("z0", "z0"), ("z0", "z1"), ("z1", "x0"), ("x0", "z1"), ("y0", "z0")]
    states, rhos = [], []
    for na, nb in names:
        sa = ts.generate_tester_states(c_a, [na])[0]
        sb = ts.generate_tester_states(c_b, [nb])[0]
        states.append(tensor_product(sa, sb))
        rhos.append(np.kron(sa.to_density_matrix(), sb.to_density_matrix()))
    for flag in (True, False):
        for m in (2, 3):
            spec = ("2qubit", "product", "product(2,2)+(2,3)", "qmpt", flag, m, "all")
            rep = {"kind": "product", "seed": ctx.seed}
            try:
                qt = ts.build("qmpt", states, povms, flag, m)
                A, b = np.array(qt.calc_matA(), copy=True), np.array(qt.calc_vecB(), copy=True)
                scheds = qt._experiment.schedules
                cands = ts.true_objects(g, c2, "qmpt", m, classes=("interior",), flag=flag) + \
                    ts.edge_objects(c2, "qmpt", m, flag)[:3]
                for t in cands:
                    ctx.case(("oracle-product", flag, m, t.label), sample={"check": "product tester POVMs", "cand": t.label,
                                                                           "local outcome counts": [[2, 2], [2, 3]]})
                    ref = np.concatenate(ts.born_reference("qmpt", rhos, pmats, scheds, t))
                    gen = np.concatenate(qt.generate_prob_dists_sequence(t.obj))
                    pred = A @ t.var(flag) + b
                    if gen.shape != ref.shape or not np.abs(gen - ref).max() <= 1e-11:
                        ctx.violate(f"C08/generate_prob_dists_sequence/qmpt/flag={flag}/product-testers",
                                    f"{spec} true={t.label}: the circuit differs from the Born rule "
                                    f"(shapes {gen.shape} / {ref.shape})", rep)
                        break
                    if not np.abs(pred - ref).max() <= 1e-11:
                        ctx.violate(f"C08/forward-model/qmpt/flag={flag}/product-testers",
                                    f"{spec} true={t.label}: matA·var+vecB differs from the Born rule by {np.abs(pred - ref).max():.2e}", rep)
                        break
            except Exception as e:  # noqa
                raised(ctx, "oracle-product", spec, e, rep)
    ctx.count("oracle product tester POVMs (2 qubits, QMPT)")


def check_option_eps(ctx):
    """objects that carry a non-default `eps_truncate_imaginary_part` (tomography / testers built with that option):
    the option concerns imaginary parts only and must not change any outcome probability"""
    from quara.protocol.qtomography.standard.standard_qst import StandardQst
    from quara.protocol.qtomography.standard.standard_povmt import StandardPovmt
    c = ts.make_csys("qubit")
    B = ts.basis_stack(c)
    sz = np.array([[1, 0], [0, -1]], dtype=complex)
    rho = (np.eye(2) + (1 - 2e-4) * sz) / 2          # probability 1e-4 for the second outcome of the z measurement
    for flag in (True, False):
        rep = {"kind": "option-eps", "seed": ctx.seed}
        spec = ("qubit", "typical", "typical", "qst/povmt", flag, 2, "eps_truncate_imaginary_part=1e-3")
        try:
            povms = ts.generate_tester_povms(c, ["x", "y", "z"])
            qt = StandardQst(povms, on_para_eq_constraint=flag, eps_truncate_imaginary_part=1e-3)
            st = ts.State(c, ts.vec_of(B, rho), on_para_eq_constraint=flag)
            var = st.to_var() if flag else st.to_stacked_vector()
            obj = qt.convert_var_to_qoperation(var)
            pred = qt.calc_matA() @ var + qt.calc_vecB()
            circ = np.concatenate([np.array(compose_qoperations(p, obj).ps) for p in povms])
            ctx.case(("oracle-option-eps", "qst", flag), sample={"check": "eps_truncate_imaginary_part on the candidate", "p_min": 1e-4})
            if not np.abs(pred - circ).max() <= 1e-11:
                ctx.violate(f"C08/forward-model/qst/flag={flag}/option-eps",
                            f"{spec}: candidate built by a tomography with eps_truncate_imaginary_part=1e-3: matA·var+vecB "
                            f"{np.round(pred[-2:], 6)} vs circuit {np.round(circ[-2:], 6)}", rep)
            tst = [ts.State(c, np.array(s_.vec), eps_truncate_imaginary_part=1e-3)
                   for s_ in ts.generate_tester_states(c, ["x0", "y0", "z0", "z1"])] + \
                  [ts.State(c, ts.vec_of(B, rho), eps_truncate_imaginary_part=1e-3)]
            qp = StandardPovmt(tst, 2, on_para_eq_constraint=flag)
            pz = ts.generate_tester_povms(c, ["z"])[0]
            pv = ts.Povm(c, [np.array(v) for v in pz.vecs], on_para_eq_constraint=flag)
            var = pv.to_var() if flag else pv.to_stacked_vector()
            pred = qp.calc_matA() @ var + qp.calc_vecB()
            circ = np.concatenate([np.array(compose_qoperations(pv, s_).ps) for s_ in tst])
            ctx.case(("oracle-option-eps", "povmt", flag), sample={"check": "eps_truncate_imaginary_part on the tester states"})
            if not np.abs(pred - circ).max() <= 1e-11:
                ctx.violate(f"C08/forward-model/povmt/flag={flag}/option-eps",
                            f"{spec}: tester states with eps_truncate_imaginary_part=1e-3: matA·var+vecB {np.round(pred[-2:], 6)} "
                            f"vs circuit {np.round(circ[-2:], 6)}", rep)
        except Exception as e:  # noqa
            raised(ctx, "oracle-option-eps", spec, e, rep)
    ctx.count("oracle objects with a non-default eps_truncate_imaginary_part")


def check_tilted_projective(ctx):
    """1 qubit, Lüders instrument of the projective measurement along an axis tilted by θ from z, tester state z0, tester
    POVMs x, y, z: forward model vs circuit (θ = 0.3: generic; θ = 0.02: one outcome has probability 1e-4)"""
    c = ts.make_csys("qubit")
    B = ts.basis_stack(c)
    sx = np.array([[0, 1], [1, 0]], dtype=complex)
    sz = np.array([[1, 0], [0, -1]], dtype=complex)
    states = ts.generate_tester_states(c, ["z0", "x0"])
    rhos = [s_.to_density_matrix() for s_ in states]
    povms = ts.generate_tester_povms(c, ["x", "y", "z"])
    pmats = [[np.array(x) for x in p.matrices()] for p in povms]
    for theta in (0.3, 0.02):
        for flag in (True, False):
            rep = {"kind": "tilted", "seed": ctx.seed}
            spec = ("qubit", "z0,x0", "x,y,z", "qmpt", flag, 2, f"tilted projective θ={theta}")
            ps = [(np.eye(2) + s_ * (np.sin(theta) * sx + np.cos(theta) * sz)) / 2 for s_ in (1, -1)]
            try:
                qt = ts.build("qmpt", states, povms, flag, 2)
                obj = ts.MProcess(c, [ts.hs_of_kraus(B, [p]) for p in ps], on_para_eq_constraint=flag)
                t = ts.TrueObj("qmpt", f"tilted-{theta}", obj, groups=[[p] for p in ps])
                pred = qt.calc_matA() @ t.var(flag) + qt.calc_vecB()
                ref = np.concatenate(ts.born_reference("qmpt", rhos, pmats, qt._experiment.schedules, t))
                ctx.case(("oracle-tilted", theta, flag), sample={"check": "tilted projective instrument", "theta": theta})
                if not np.abs(pred - ref).max() <= 1e-11:
                    ctx.violate(f"C08/forward-model/qmpt/flag={flag}/tilted-projective", f"{spec}: matA·var+vecB differs from the "
                                f"Born rule by {np.abs(pred - ref).max():.2e}", rep)
                    continue
                try:
                    gen = np.concatenate(qt.generate_prob_dists_sequence(obj))
                except ValueError as e:
                    if "the state is not physically correct" in str(e) and \
                            ts.small_branch("qmpt", rhos, qt._experiment.schedules, t) is not None:
                        ctx.violate(KNOWN_POST, f"{spec}: physical instrument, tester state z0, outcome probability "
                                    f"{np.sin(theta / 2) ** 2:.1e}: compose_qoperations raises `{e}`", rep)
                        continue
                    raise
                if not np.abs(gen - ref).max() <= 1e-11:
                    ctx.violate(f"C08/generate_prob_dists_sequence/qmpt/flag={flag}/tilted-projective",
                                f"{spec}: circuit differs from the Born rule by {np.abs(gen - ref).max():.2e}", rep)
            except Exception as e:  # noqa
                raised(ctx, "oracle-tilted", spec, e, rep)
    ctx.count("oracle tilted projective instruments")


def oracle(ctx, volume=1):
    ctx.partial = PARTIAL
    check_near_redundant(ctx)
    check_tilted_projective(ctx)
    check_product_testers(ctx)
    check_option_eps(ctx)
    if not ctx.quick and volume == 1:
        # thorough tier: the quick configurations again with two more generator seeds (other random testers)
        for extra in (1, 2):
            sub = Ctx("C08", "quick", ctx.seed * 1000 + 500 + extra)
            for spec in specs("quick", 1):
                check_setup(sub, spec)
            ctx.violations += sub.violations
            ctx.evaluations += sub.evaluations
            ctx.count("oracle extra generator seeds (thorough)")
    for spec in specs(ctx.tier, volume):
        big = spec[0] == "2qubit" and spec[3] in ("qpt", "qmpt")
        check_setup(ctx, spec, full_basis=not (big and ctx.quick))
    if volume > 1:
        for extra in range(1, volume):
            sub = Ctx("C08", ctx.tier, ctx.seed * 1000 + extra)
            for spec in specs("quick", 1):
                check_setup(sub, spec)
            ctx.violations += sub.violations
            ctx.evaluations += sub.evaluations
    check_incomplete(ctx)


def search(ctx):
    oracle(ctx, volume=2)


def replay(ctx, data):
    r = data["replay"]
    print("replaying", r)
    sub = Ctx("C08", "quick", int(r.get("seed", 0)))
    if r["kind"] == "setup":
        check_setup(sub, tuple(r["spec"]))
    elif r["kind"] == "near":
        check_near_redundant(sub)
    elif r["kind"] == "tilted":
        check_tilted_projective(sub)
    elif r["kind"] == "product":
        check_product_testers(sub)
    elif r["kind"] == "option-eps":
        check_option_eps(sub)
    else:
        check_incomplete(sub)
    for v in sub.violations:
        print("  still failing:", v["signature"], "-", v["what"])
    if not sub.violations:
        print("  no violation on this input any more")
    return 1 if sub.violations else 0
