"""C04 translator fragment: regenerates lean/QGen/C04.lean from quara/objects/state.py and gate.py on every run (`ast`).

Translated: the element / slice assignments of the equality projections of State and Gate, object level and variable level
(`vec[0] = 1/np.sqrt(dim)`; `hs[0][0] = 1; hs[0][1:] = 0`; `new_var[0] = 1; new_var[1 : c_sys.dim ** 2] = 0`) including the
`if on_para_eq_constraint: new_var = var` branch.  Index and slice bounds are integer expressions in `dim`
(`+ - * **` and literals).  Anything else raises.  QProps.C04 proves generated = hand model (`gen_*`)."""
import ast
import os
from common import REPO, LEAN


class Untranslatable(Exception):
    pass


def int_expr(e, dim_names):
    """integer expression in the dimension -> Lean Nat term over `dim`"""
    if isinstance(e, ast.Constant) and isinstance(e.value, int) and e.value >= 0:
        return str(e.value)
    if isinstance(e, ast.Attribute) and e.attr == "dim" and ast.unparse(e.value) in dim_names:
        return "dim"
    if isinstance(e, ast.BinOp) and isinstance(e.op, (ast.Add, ast.Mult, ast.Sub)):
        op = {ast.Add: "+", ast.Mult: "*", ast.Sub: "-"}[type(e.op)]
        return f"({int_expr(e.left, dim_names)} {op} {int_expr(e.right, dim_names)})"
    if isinstance(e, ast.BinOp) and isinstance(e.op, ast.Pow) and isinstance(e.right, ast.Constant) and isinstance(e.right.value, int):
        return f"({int_expr(e.left, dim_names)} ^ {e.right.value})"
    raise Untranslatable("index expression: " + ast.dump(e))


def value_expr(e, dim_names):
    """right-hand side of an element assignment: 0, 1 or 1/np.sqrt(dim) (model parameter `s`)"""
    if isinstance(e, ast.Constant) and e.value in (0, 1):
        return str(e.value)
    if isinstance(e, ast.BinOp) and isinstance(e.op, ast.Div) and isinstance(e.left, ast.Constant) and e.left.value == 1 \
            and isinstance(e.right, ast.Call) and ast.unparse(e.right.func) == "np.sqrt" and len(e.right.args) == 1 \
            and isinstance(e.right.args[0], ast.Attribute) and e.right.args[0].attr == "dim" \
            and ast.unparse(e.right.args[0].value) in dim_names:
        return "s"
    raise Untranslatable("value: " + ast.dump(e))


def index_cond(sl, var, dim_names):
    """subscript -> Lean condition on the index variable `var`"""
    if isinstance(sl, ast.Slice):
        if sl.step is not None:
            raise Untranslatable("slice step")
        lo = int_expr(sl.lower, dim_names) if sl.lower is not None else "0"
        c = f"{lo} ≤ {var}"
        if sl.upper is not None:
            c += f" ∧ {var} < {int_expr(sl.upper, dim_names)}"
        return c
    return f"{var} = {int_expr(sl, dim_names)}"


def assignments(stmts, target, dim_names, rank):
    """element/slice assignments to `target` in order -> list of (condition, value)"""
    out = []
    for st in stmts:
        if not (isinstance(st, ast.Assign) and len(st.targets) == 1 and isinstance(st.targets[0], ast.Subscript)):
            continue
        t = st.targets[0]
        subs = []
        while isinstance(t, ast.Subscript):
            subs.insert(0, t.slice)
            t = t.value
        if not (isinstance(t, ast.Name) and t.id == target):
            continue
        if len(subs) != rank:
            raise Untranslatable(f"{target}: expected {rank} subscripts")
        names = ["k"] if rank == 1 else ["a", "b"]
        cond = " ∧ ".join(index_cond(s, v, dim_names) for s, v in zip(subs, names))
        out.append((cond, value_expr(st.value, dim_names)))
    if not out:
        raise Untranslatable(f"no element assignment to {target}")
    return out


def nested(assigns, default):
    """later assignments win"""
    s = default
    for cond, val in assigns:
        s = f"if {cond} then {val} else {s}"
    return s


def method(tree, cls, name):
    c = [n for n in tree.body if isinstance(n, ast.ClassDef) and n.name == cls][0]
    for n in c.body:
        if isinstance(n, ast.FunctionDef) and n.name == name:
            return n
    raise Untranslatable(f"{cls}.{name} not found")


def copied_from(fn, target, source_unparsed):
    """`target = copy.deepcopy(<source>)` must precede the element assignments"""
    for st in fn.body:
        if isinstance(st, ast.Assign) and isinstance(st.targets[0], ast.Name) and st.targets[0].id == target:
            v = st.value
            if isinstance(v, ast.Call) and ast.unparse(v.func) == "copy.deepcopy" and ast.unparse(v.args[0]) == source_unparsed:
                return
            raise Untranslatable(f"{fn.name}: {target} is not a deep copy of {source_unparsed}")
    raise Untranslatable(f"{fn.name}: assignment of {target} not found")


def with_var(fn, dim_names):
    """`if on_para_eq_constraint: new_var = var else: new_var = copy.deepcopy(var); new_var[..] = ..`"""
    ifs = [n for n in fn.body if isinstance(n, ast.If) and isinstance(n.test, ast.Name) and n.test.id == "on_para_eq_constraint"]
    if len(ifs) != 1:
        raise Untranslatable(f"{fn.name}: flag branch not found")
    th = ifs[0].body
    if not (len(th) == 1 and isinstance(th[0], ast.Assign) and ast.unparse(th[0]) == "new_var = var"):
        raise Untranslatable(f"{fn.name}: flag branch is not `new_var = var`")
    first = ifs[0].orelse[0]
    if ast.unparse(first) != "new_var = copy.deepcopy(var)":
        raise Untranslatable(f"{fn.name}: else branch does not start with a deep copy")
    ret = fn.body[-1]
    if not (isinstance(ret, ast.Return) and ast.unparse(ret.value) == "new_var"):
        raise Untranslatable(f"{fn.name}: does not return new_var")
    return assignments(ifs[0].orelse, "new_var", dim_names, 1)


# ----------------------------------------------------------------------------- Povm / MProcess equality arithmetic
def povm_eq(fn, src_name, dim_owner):
    """`size = dim**2; m = len(V); c = hstack([array([sqrt(dim)/m]), zeros(size-1)]); a_bar = np.sum(np.array(V), axis=0)/m;
    for vec in V: new_vec = <+/- expression in vec, a_bar, c>` -> Lean entry formula at (x, i)"""
    env = {}
    loop = None
    for st in fn.body:
        if isinstance(st, ast.Assign) and len(st.targets) == 1 and isinstance(st.targets[0], ast.Name):
            env[st.targets[0].id] = st.value
        if isinstance(st, ast.For) and isinstance(st.target, ast.Name) and st.target.id == "vec":
            loop = st
    if loop is None or ast.unparse(loop.iter) != src_name:
        raise Untranslatable(f"{fn.name}: loop `for vec in {src_name}` not found")
    for nm, want in (("size", f"{dim_owner}.dim ** 2"), ("m", f"len({src_name})")):
        if nm not in env or ast.unparse(env[nm]) != want:
            raise Untranslatable(f"{fn.name}: {nm} is not `{want}`")
    ab = env.get("a_bar")
    if ab is None or ast.unparse(ab) != f"np.sum(np.array({src_name}), axis=0) / m":
        raise Untranslatable(f"{fn.name}: a_bar is {ast.unparse(ab) if ab is not None else None}")
    c = env.get("c")
    ok = isinstance(c, ast.Call) and ast.unparse(c.func) == "np.hstack" and len(c.args) == 1 and isinstance(c.args[0], ast.List) \
        and len(c.args[0].elts) == 2
    if ok:
        first, second = c.args[0].elts
        ok = isinstance(first, ast.Call) and ast.unparse(first.func) == "np.array" and isinstance(first.args[0], ast.List) \
            and len(first.args[0].elts) == 1 and ast.unparse(first.args[0].elts[0]) == f"np.sqrt({dim_owner}.dim) / m" \
            and isinstance(second, ast.Call) and ast.unparse(second.func) == "np.zeros" and ast.unparse(second.args[0]) == "size - 1"
    if not ok:
        raise Untranslatable(f"{fn.name}: c is not hstack([array([sqrt(dim)/m]), zeros(size-1)])")
    body = [st for st in loop.body if isinstance(st, ast.Assign) and isinstance(st.targets[0], ast.Name) and st.targets[0].id == "new_vec"]
    apps = [st for st in loop.body if isinstance(st, ast.Expr) and ast.unparse(st.value) == "new_vecs.append(new_vec)"]
    if len(body) != 1 or len(apps) != 1 or len(loop.body) != 2:
        raise Untranslatable(f"{fn.name}: loop body is not `new_vec = ...; new_vecs.append(new_vec)`")
    terms = {"vec": "vecs.get x i", "a_bar": "((fsum m fun x' => vecs.get x' i) / (m : R))",
             "c": "(if i.val = 0 then t / (m : R) else 0)"}

    def ex(e):
        if isinstance(e, ast.Name) and e.id in terms:
            return terms[e.id]
        if isinstance(e, ast.BinOp) and isinstance(e.op, (ast.Add, ast.Sub)):
            return f"({ex(e.left)} {'+' if isinstance(e.op, ast.Add) else '-'} {ex(e.right)})"
        raise Untranslatable(f"{fn.name}: new_vec expression {ast.unparse(e)}")
    return ex(body[0].value)


def mprocess_eq(fn, src_expr):
    """`vec = zeros(dim**2); for hs in hss: vec += hs[0]; vec[0] -= 1; for hs in hss: hs[0] -= vec / len(hss); new_hss.append(hs)`"""
    stmts = [st for st in fn.body if not (isinstance(st, ast.Expr) and isinstance(st.value, ast.Constant))]
    txt = [ast.unparse(st) for st in stmts]
    want = ["dim = " + ("self.composite_system.dim" if "self.hss" in src_expr else "c_sys.dim"),
            "hss = " + src_expr,
            "vec = np.zeros(dim ** 2)",
            "for hs in hss:\n    vec += hs[0]",
            "vec[0] -= 1",
            "new_hss = []",
            "for hs in hss:\n    hs[0] -= vec / len(hss)\n    new_hss.append(hs)"]
    if txt[:len(want)] != want:
        for a, b in zip(txt, want):
            if a != b:
                raise Untranslatable(f"{fn.name}: expected `{b}` but found `{a}`")
        raise Untranslatable(f"{fn.name}: body too short")
    return ("(fsum m fun x' => fsum n fun a' => if a'.val = 0 then hss.get x' a' b else 0) - (if b.val = 0 then 1 else 0)",
            "if a.val = 0 then hss.get x a b - vec.get b / (m : R) else hss.get x a b")


def translate():
    st = ast.parse(open(os.path.join(REPO, "quara", "objects", "state.py")).read())
    gt = ast.parse(open(os.path.join(REPO, "quara", "objects", "gate.py")).read())
    f = method(st, "State", "calc_proj_eq_constraint")
    copied_from(f, "vec", "self.vec")
    s_obj = nested(assignments(f.body, "vec", {"self"}, 1), "vec.get k")
    s_var = nested(with_var(method(st, "State", "calc_proj_eq_constraint_with_var"), {"c_sys"}), "var.get k")
    f = method(gt, "Gate", "calc_proj_eq_constraint")
    copied_from(f, "hs", "self.hs")
    g_obj = nested(assignments(f.body, "hs", {"self"}, 2), "hs.get a b")
    g_var = nested(with_var(method(gt, "Gate", "calc_proj_eq_constraint_with_var"), {"c_sys"}), "var.get k")

    pt = ast.parse(open(os.path.join(REPO, "quara", "objects", "povm.py")).read())
    mt = ast.parse(open(os.path.join(REPO, "quara", "objects", "mprocess.py")).read())
    p_obj = povm_eq(method(pt, "Povm", "calc_proj_eq_constraint"), "self.vecs", "self")
    p_var = povm_eq(method(pt, "Povm", "calc_proj_eq_constraint_with_var"), "vecs", "c_sys")
    mv_o, mr_o = mprocess_eq(method(mt, "MProcess", "calc_proj_eq_constraint"), "[hs.copy() for hs in self.hss]")
    mv_v, mr_v = mprocess_eq(method(mt, "MProcess", "calc_proj_eq_constraint_with_var"),
                             "convert_var_to_hss(c_sys, var, on_para_eq_constraint=on_para_eq_constraint)")

    def fix(body, rank):
        # index variables are Fin values in the generated definitions
        for v in (("k",) if rank == 1 else ("a", "b")):
            body = body.replace(f" {v} ", f" {v}.val ").replace(f"({v} ", f"({v}.val ").replace(f" {v})", f" {v}.val)")
        return body
    import re

    def finvals(body, names):
        for v in names:
            body = re.sub(rf"(?<![\w.]){v}(?![\w.])", f"{v}.val", body)
        return body
    s_obj_l = finvals(s_obj, ["k"]).replace("vec.get k.val", "vec.get k")
    s_var_l = finvals(s_var, ["k"]).replace("var.get k.val", "var.get k")
    g_obj_l = finvals(g_obj, ["a", "b"]).replace("hs.get a.val b.val", "hs.get a b")
    g_var_l = finvals(g_var, ["k"]).replace("var.get k.val", "var.get k")
    out = f'''import QModel.Core
/-! GENERATED by harness/c04_translate.py from quara/objects/state.py and gate.py on every run — do not edit.
Element / slice assignments of the equality projections of State and Gate (object level and `_with_var`). -/
namespace QGen.C04
open QM
variable {{R : Type}} [Zero R] [One R] {{n N : Nat}}

/-- `State.calc_proj_eq_constraint`: `vec = deepcopy(self.vec)` + element assignments (`s` = `1/np.sqrt(dim)`) -/
def stateEqObj (dim : Nat) (s : R) (vec : Vec R n) : Vec R n :=
  Vec.ofFn fun k => {s_obj_l}

/-- `State.calc_proj_eq_constraint_with_var` -/
def stateEqVar (dim : Nat) (s : R) (flag : Bool) (var : Vec R n) : Vec R n :=
  if flag then var else Vec.ofFn fun k => {s_var_l}

/-- `Gate.calc_proj_eq_constraint`: `hs = deepcopy(self.hs)` + element / slice assignments -/
def gateEqObj (dim : Nat) (hs : Mat R n n) : Mat R n n :=
  Mat.ofFn fun a b => {g_obj_l}

/-- `Gate.calc_proj_eq_constraint_with_var` on the flat variable vector -/
def gateEqVar (dim : Nat) (flag : Bool) (var : Vec R N) : Vec R N :=
  if flag then var else Vec.ofFn fun k => {g_var_l}

section arith
variable [Add R] [Sub R] [Div R] [NatCast R] {{m : Nat}}

/-- `Povm.calc_proj_eq_constraint`: `new_vec = vec - a_bar + c` (`t` = `np.sqrt(dim)`) -/
def povmEqObj (t : R) (vecs : Mat R m n) : Mat R m n :=
  Mat.ofFn fun x i => {p_obj}

/-- `Povm.calc_proj_eq_constraint_with_var` after `convert_var_to_vecs` -/
def povmEqVar (t : R) (vecs : Mat R m n) : Mat R m n :=
  Mat.ofFn fun x i => {p_var}

/-- `MProcess.calc_proj_eq_constraint`: `vec = Σ hs[0]; vec[0] -= 1; hs[0] -= vec / len(hss)` -/
def mprocessEqObj (hss : Vector (Mat R n n) m) : Vector (Mat R n n) m :=
  let vec : Vec R n := Vec.ofFn fun b => {mv_o.replace("hss.get x' a' b", "(hss[x']).get a' b")}
  Vector.ofFn fun x => Mat.ofFn fun a b => {mr_o.replace("hss.get x a b", "(hss[x]).get a b")}

/-- `MProcess.calc_proj_eq_constraint_with_var` after `convert_var_to_hss` -/
def mprocessEqVar (hss : Vector (Mat R n n) m) : Vector (Mat R n n) m :=
  let vec : Vec R n := Vec.ofFn fun b => {mv_v.replace("hss.get x' a' b", "(hss[x']).get a' b")}
  Vector.ofFn fun x => Mat.ofFn fun a b => {mr_v.replace("hss.get x a b", "(hss[x]).get a b")}
end arith

end QGen.C04
'''
    path = os.path.join(LEAN, "QGen", "C04.lean")
    if not os.path.exists(path) or open(path).read() != out:
        open(path, "w").write(out)
    return []
