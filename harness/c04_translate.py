"""C04 translator fragment: regenerates lean/QGen/C04.lean from quara/objects/state.py and gate.py on every run (`ast`).

Translated: the element / slice assignments of the equality projections of State and Gate, object level and variable level
(`vec[0] = 1/np.sqrt(dim)`; `hs[0][0] = 1; hs[0][1:] = 0`; `new_var[0] = 1; new_var[1 : c_sys.dim ** 2] = 0`) including the
`if on_para_eq_constraint: new_var = var` branch.  Index and slice bounds are integer expressions in `dim`
(`+ - * **` and literals).  Anything else raises.  QProps.C04 proves generated = hand model (`gen_*`)."""
import ast
import os
from common import REPO, LEAN


class Untranslatable(Exception):
    pass


def int_expr(e, dim_names):
    """integer expression in the dimension -> Lean Nat term over `dim`"""
    if isinstance(e, ast.Constant) and isinstance(e.value, int) and e.value >= 0:
        return str(e.value)
    if isinstance(e, ast.Attribute) and e.attr == "dim" and ast.unparse(e.value) in dim_names:
        return "dim"
    if isinstance(e, ast.BinOp) and isinstance(e.op, (ast.Add, ast.Mult, ast.Sub)):
        op = {ast.Add: "+", ast.Mult: "*", ast.Sub: "-"}[type(e.op)]
        return f"({int_expr(e.left, dim_names)} {op} {int_expr(e.right, dim_names)})"
    if isinstance(e, ast.BinOp) and isinstance(e.op, ast.Pow) and isinstance(e.right, ast.Constant) and isinstance(e.right.value, int):
        return f"({int_expr(e.left, dim_names)} ^ {e.right.value})"
    raise Untranslatable("index expression: " + ast.dump(e))


def value_expr(e, dim_names):
    """right-hand side of an element assignment: 0, 1 or 1/np.sqrt(dim) (model parameter `s`)"""
    if isinstance(e, ast.Constant) and e.value in (0, 1):
        return str(e.value)
    if isinstance(e, ast.BinOp) and isinstance(e.op, ast.Div) and isinstance(e.left, ast.Constant) and e.left.value == 1 \
            and isinstance(e.right, ast.Call) and ast.unparse(e.right.func) == "np.sqrt" and len(e.right.args) == 1 \
            and isinstance(e.right.args[0], ast.Attribute) and e.right.args[0].attr == "dim" \
            and ast.unparse(e.right.args[0].value) in dim_names:
        return "s"
    raise Untranslatable("value: " + ast.dump(e))


def index_cond(sl, var, dim_names):
    """subscript -> Lean condition on the index variable `var`"""
    if isinstance(sl, ast.Slice):
        if sl.step is not None:
            raise Untranslatable("slice step")
        lo = int_expr(sl.lower, dim_names) if sl.lower is not None else "0"
        c = f"{lo} ≤ {var}"
        if sl.upper is not None:
            c += f" ∧ {var} < {int_expr(sl.upper, dim_names)}"
        return c
    return f"{var} = {int_expr(sl, dim_names)}"


def assignments(stmts, target, dim_names, rank):
    """element/slice assignments to `target` in order -> list of (condition, value)"""
    out = []
    for st in stmts:
        if not (isinstance(st, ast.Assign) and len(st.targets) == 1 and isinstance(st.targets[0], ast.Subscript)):
            continue
        t = st.targets[0]
        subs = []
        while isinstance(t, ast.Subscript):
            subs.insert(0, t.slice)
            t = t.value
        if not (isinstance(t, ast.Name) and t.id == target):
            continue
        if len(subs) != rank:
            raise Untranslatable(f"{target}: expected {rank} subscripts")
        names = ["k"] if rank == 1 else ["a", "b"]
        cond = " ∧ ".join(index_cond(s, v, dim_names) for s, v in zip(subs, names))
        out.append((cond, value_expr(st.value, dim_names)))
    if not out:
        raise Untranslatable(f"no element assignment to {target}")
    return out


def nested(assigns, default):
    """later assignments win"""
    s = default
    for cond, val in assigns:
        s = f"if {cond} then {val} else {s}"
    return s


def method(tree, cls, name):
    c = [n for n in tree.body if isinstance(n, ast.ClassDef) and n.name == cls][0]
    for n in c.body:
        if isinstance(n, ast.FunctionDef) and n.name == name:
            return n
    raise Untranslatable(f"{cls}.{name} not found")


def copied_from(fn, target, source_unparsed):
    """`target = copy.deepcopy(<source>)` must precede the element assignments"""
    for st in fn.body:
        if isinstance(st, ast.Assign) and isinstance(st.targets[0], ast.Name) and st.targets[0].id == target:
            v = st.value
            if isinstance(v, ast.Call) and ast.unparse(v.func) == "copy.deepcopy" and ast.unparse(v.args[0]) == source_unparsed:
                return
            raise Untranslatable(f"{fn.name}: {target} is not a deep copy of {source_unparsed}")
    raise Untranslatable(f"{fn.name}: assignment of {target} not found")


def with_var(fn, dim_names):
    """`if on_para_eq_constraint: new_var = var else: new_var = copy.deepcopy(var); new_var[..] = ..`"""
    ifs = [n for n in fn.body if isinstance(n, ast.If) and isinstance(n.test, ast.Name) and n.test.id == "on_para_eq_constraint"]
    if len(ifs) != 1:
        raise Untranslatable(f"{fn.name}: flag branch not found")
    th = ifs[0].body
    if not (len(th) == 1 and isinstance(th[0], ast.Assign) and ast.unparse(th[0]) == "new_var = var"):
        raise Untranslatable(f"{fn.name}: flag branch is not `new_var = var`")
    first = ifs[0].orelse[0]
    if ast.unparse(first) != "new_var = copy.deepcopy(var)":
        raise Untranslatable(f"{fn.name}: else branch does not start with a deep copy")
    ret = fn.body[-1]
    if not (isinstance(ret, ast.Return) and ast.unparse(ret.value) == "new_var"):
        raise Untranslatable(f"{fn.name}: does not return new_var")
    return assignments(ifs[0].orelse, "new_var", dim_names, 1)


def translate():
    st = ast.parse(open(os.path.join(REPO, "quara", "objects", "state.py")).read())
    gt = ast.parse(open(os.path.join(REPO, "quara", "objects", "gate.py")).read())
    f = method(st, "State", "calc_proj_eq_constraint")
    copied_from(f, "vec", "self.vec")
    s_obj = nested(assignments(f.body, "vec", {"self"}, 1), "vec.get k")
    s_var = nested(with_var(method(st, "State", "calc_proj_eq_constraint_with_var"), {"c_sys"}), "var.get k")
    f = method(gt, "Gate", "calc_proj_eq_constraint")
    copied_from(f, "hs", "self.hs")
    g_obj = nested(assignments(f.body, "hs", {"self"}, 2), "hs.get a b")
    g_var = nested(with_var(method(gt, "Gate", "calc_proj_eq_constraint_with_var"), {"c_sys"}), "var.get k")

    def fix(body, rank):
        # index variables are Fin values in the generated definitions
        for v in (("k",) if rank == 1 else ("a", "b")):
            body = body.replace(f" {v} ", f" {v}.val ").replace(f"({v} ", f"({v}.val ").replace(f" {v})", f" {v}.val)")
        return body
    import re

    def finvals(body, names):
        for v in names:
            body = re.sub(rf"(?<![\w.]){v}(?![\w.])", f"{v}.val", body)
        return body
    s_obj_l = finvals(s_obj, ["k"]).replace("vec.get k.val", "vec.get k")
    s_var_l = finvals(s_var, ["k"]).replace("var.get k.val", "var.get k")
    g_obj_l = finvals(g_obj, ["a", "b"]).replace("hs.get a.val b.val", "hs.get a b")
    g_var_l = finvals(g_var, ["k"]).replace("var.get k.val", "var.get k")
    out = f'''import QModel.Core
/-! GENERATED by harness/c04_translate.py from quara/objects/state.py and gate.py on every run — do not edit.
Element / slice assignments of the equality projections of State and Gate (object level and `_with_var`). -/
namespace QGen.C04
open QM
variable {{R : Type}} [Zero R] [One R] {{n N : Nat}}

/-- `State.calc_proj_eq_constraint`: `vec = deepcopy(self.vec)` + element assignments (`s` = `1/np.sqrt(dim)`) -/
def stateEqObj (dim : Nat) (s : R) (vec : Vec R n) : Vec R n :=
  Vec.ofFn fun k => {s_obj_l}

/-- `State.calc_proj_eq_constraint_with_var` -/
def stateEqVar (dim : Nat) (s : R) (flag : Bool) (var : Vec R n) : Vec R n :=
  if flag then var else Vec.ofFn fun k => {s_var_l}

/-- `Gate.calc_proj_eq_constraint`: `hs = deepcopy(self.hs)` + element / slice assignments -/
def gateEqObj (dim : Nat) (hs : Mat R n n) : Mat R n n :=
  Mat.ofFn fun a b => {g_obj_l}

/-- `Gate.calc_proj_eq_constraint_with_var` on the flat variable vector -/
def gateEqVar (dim : Nat) (flag : Bool) (var : Vec R N) : Vec R N :=
  if flag then var else Vec.ofFn fun k => {g_var_l}

end QGen.C04
'''
    path = os.path.join(LEAN, "QGen", "C04.lean")
    if not os.path.exists(path) or open(path).read() != out:
        open(path, "w").write(out)
    return []
