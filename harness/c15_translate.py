"""C15 translator: regenerates lean/QGen/C15.lean from /repo's sources on every run (Python `ast`).

Generated (the theorems of QProps/C15.lean about the seed plumbing and the physicality check are stated about these):
  * `loopShape`      of `generate_empi_dists_and_calc_estimate` (standard_qtomography_simulation.py): number of
                     `to_stream(<seed parameter>)` conversions before the repetition loop / inside it, and what the repetition
                     call receives as `seed_or_generator=` ("stream" = the converted object, "raw" = the parameter itself);
  * `execNoneDefault` what `execute_simulation` substitutes for `seed_or_generator is None`;
  * `repKeyword`     the keyword `_generate_empi_dists_and_calc_estimate` uses for the seed when it calls
                     `qtomography.generate_empi_dists_sequence`, and `qtSeqParams`: the seed parameter name of that method in
                     the four tomography classes (they have to coincide);
  * `qtEntries`      (class, method, number of `to_stream(<seed parameter>)` calls, passes the converted stream on as
                     `seed_or_generator=`) for generate_empi_dist / generate_empi_dists / generate_empi_dists_sequence;
  * `flowSeeds`      the flow: (root attribute of `SeedSequence(…)`, attribute giving the `spawn` count, position at which the
                     spawned generator is handed to the task) for the data level and the sample level;
  * the physicality check: the three threshold constants, the attribute `is_eq_constraint_satisfied_all` resolves the
    equality threshold from, the branches of `get_eq_const_eps`, and the estimator wiring of
    `execute_physicality_violation_check` (class -> condition -> checks called).
Anything outside the recognised shapes raises."""
import ast
import os
from fractions import Fraction

import common
import pytolean
from pytolean import Untranslatable

SIM = "quara/simulation/standard_qtomography_simulation.py"
FLOW = "quara/simulation/standard_qtomography_simulation_flow.py"
PVC = "quara/data_analysis/physicality_violation_check.py"
CHK = "quara/simulation/standard_qtomography_simulation_check.py"
SETTINGS = "quara/settings.py"
QTS = [("StandardQst", "quara/protocol/qtomography/standard/standard_qst.py"),
       ("StandardPovmt", "quara/protocol/qtomography/standard/standard_povmt.py"),
       ("StandardQpt", "quara/protocol/qtomography/standard/standard_qpt.py"),
       ("StandardQmpt", "quara/protocol/qtomography/standard/standard_qmpt.py")]


def _tree(rel):
    return ast.parse(open(os.path.join(common.REPO, rel)).read())


def _fn(tree, name, rel):
    for n in ast.walk(tree):
        if isinstance(n, ast.FunctionDef) and n.name == name:
            return n
    raise Untranslatable(f"{rel}: function {name} not found")


def _is_to_stream(call, param):
    return isinstance(call, ast.Call) and isinstance(call.func, ast.Name) and call.func.id == "to_stream" \
        and len(call.args) == 1 and isinstance(call.args[0], ast.Name) and call.args[0].id == param and not call.keywords


def _to_stream_calls(nodes, param):
    return [n for s in nodes for n in ast.walk(s) if _is_to_stream(n, param)]


def _any_to_stream(nodes):
    return [n for s in nodes for n in ast.walk(s)
            if isinstance(n, ast.Call) and isinstance(n.func, ast.Name) and n.func.id == "to_stream"]


def loop_shape():
    f = _fn(_tree(SIM), "generate_empi_dists_and_calc_estimate", SIM)
    param = "seed_or_generator"
    if param not in [a.arg for a in f.args.args]:
        raise Untranslatable(f"{SIM}:{f.lineno}: no parameter {param}")
    top = [s for s in f.body if isinstance(s, ast.If)]
    if len(top) != 1 or not top[0].orelse:
        raise Untranslatable(f"{SIM}:{f.lineno}: expected `if iteration is None: … else: <repetition loop>`")
    els = top[0].orelse
    loops = [s for s in els if isinstance(s, ast.For)]
    if len(loops) != 1:
        raise Untranslatable(f"{SIM}:{f.lineno}: expected one repetition loop")
    loop = loops[0]
    before = els[:els.index(loop)]
    # names bound to to_stream(param) before the loop
    stream_names = [s.targets[0].id for s in before if isinstance(s, ast.Assign) and len(s.targets) == 1
                    and isinstance(s.targets[0], ast.Name) and _is_to_stream(s.value, param)]
    n_before = len(_to_stream_calls(before, param))
    n_inside = len(_any_to_stream(loop.body))
    if len(_any_to_stream(before)) != n_before:
        raise Untranslatable(f"{SIM}:{f.lineno}: to_stream applied to something else than the seed parameter")
    calls = [n for s in loop.body for n in ast.walk(s) if isinstance(n, ast.Call) and isinstance(n.func, ast.Name)
             and n.func.id == "_generate_empi_dists_and_calc_estimate"]
    if len(calls) != 1:
        raise Untranslatable(f"{SIM}:{loop.lineno}: expected one repetition call in the loop")
    kw = [k for k in calls[0].keywords if k.arg == param]
    if len(kw) != 1 or not isinstance(kw[0].value, ast.Name):
        raise Untranslatable(f"{SIM}:{calls[0].lineno}: repetition call does not pass {param}=<name>")
    v = kw[0].value.id
    passed = "stream" if v in stream_names else "raw" if v == param else None
    if passed is None:
        raise Untranslatable(f"{SIM}:{calls[0].lineno}: {param}={v} is neither the parameter nor a converted stream")
    # the stream must not be re-bound inside the loop
    for s in loop.body:
        for n in ast.walk(s):
            if isinstance(n, (ast.Assign, ast.AugAssign)):
                tg = n.targets if isinstance(n, ast.Assign) else [n.target]
                if any(isinstance(t, ast.Name) and t.id in stream_names + [param] for t in tg):
                    raise Untranslatable(f"{SIM}:{n.lineno}: seed / stream re-bound inside the repetition loop")
    return n_before, n_inside, passed


def exec_none_default():
    f = _fn(_tree(SIM), "execute_simulation", SIM)
    for s in f.body:
        if isinstance(s, ast.If) and isinstance(s.test, ast.Compare) and isinstance(s.test.ops[0], ast.Is) \
                and isinstance(s.test.left, ast.Name) and s.test.left.id == "seed_or_generator" \
                and len(s.body) == 1 and isinstance(s.body[0], ast.Assign) and isinstance(s.body[0].value, ast.Attribute):
            return s.body[0].value.attr
    raise Untranslatable(f"{SIM}:{f.lineno}: no `if seed_or_generator is None: seed_or_generator = <setting>.<attr>`")


def rep_keyword():
    f = _fn(_tree(SIM), "_generate_empi_dists_and_calc_estimate", SIM)
    calls = [n for n in ast.walk(f) if isinstance(n, ast.Call) and isinstance(n.func, ast.Attribute)
             and n.func.attr == "generate_empi_dists_sequence"]
    if len(calls) != 1:
        raise Untranslatable(f"{SIM}:{f.lineno}: expected one call of generate_empi_dists_sequence")
    kws = [k.arg for k in calls[0].keywords if isinstance(k.value, ast.Name) and k.value.id == "seed_or_generator"]
    if len(kws) != 1 or len(calls[0].args) != 2:
        raise Untranslatable(f"{SIM}:{calls[0].lineno}: seed not passed by one keyword after two positional arguments")
    return kws[0]


def qt_tables():
    params, entries = [], []
    for cname, rel in QTS:
        tree = _tree(rel)
        cls = [n for n in tree.body if isinstance(n, ast.ClassDef) and n.name == cname]
        if not cls:
            raise Untranslatable(f"{rel}: class {cname} not found")
        ms = {m.name: m for m in cls[0].body if isinstance(m, ast.FunctionDef)}
        for mname in ("generate_empi_dist", "generate_empi_dists", "generate_empi_dists_sequence"):
            if mname not in ms:
                raise Untranslatable(f"{rel}: {cname}.{mname} not found")
            m = ms[mname]
            args = [a.arg for a in m.args.args]
            seed_param = args[-1]
            if mname == "generate_empi_dists_sequence":
                params.append((cname, seed_param, len(args) - 1))
            n_conv = len(_to_stream_calls(m.body, seed_param))
            if len(_any_to_stream(m.body)) != n_conv:
                raise Untranslatable(f"{rel}:{m.lineno}: to_stream applied to something else than `{seed_param}`")
            names = [s.targets[0].id for s in m.body if isinstance(s, ast.Assign) and len(s.targets) == 1
                     and isinstance(s.targets[0], ast.Name) and _is_to_stream(s.value, seed_param)]
            passes = [k for n in ast.walk(m) if isinstance(n, ast.Call) for k in n.keywords if k.arg == "seed_or_generator"]
            ok = len(passes) == 1 and isinstance(passes[0].value, ast.Name) and passes[0].value.id in names
            # the converted stream must be used as it is: not wrapped, jumped or re-created
            wraps = [n for n in ast.walk(m) if isinstance(n, ast.Assign)
                     and any(isinstance(t, ast.Name) and t.id in names for t in n.targets) and not _is_to_stream(n.value, seed_param)]
            if wraps:
                raise Untranslatable(f"{rel}:{wraps[0].lineno}: the stream is re-bound: `{ast.unparse(wraps[0])[:80]}`")
            entries.append((cname, mname, n_conv, ok))
    return params, entries


def flow_seeds():
    tree = _tree(FLOW)
    out = []
    for fname, task_attr in (("execute_simulation_sample_unit", "generate_empi_dists_sequence"),
                             ("execute_simulation_test_setting_unit", "execute_simulation_sample_unit")):
        f = _fn(tree, fname, FLOW)
        sgs = [s for s in f.body if isinstance(s, ast.Assign) and isinstance(s.value, ast.Call)
               and isinstance(s.value.func, ast.Name) and s.value.func.id == "SeedSequence"]
        if len(sgs) != 1 or len(sgs[0].value.args) != 1 or not isinstance(sgs[0].value.args[0], ast.Attribute):
            raise Untranslatable(f"{FLOW}:{f.lineno}: expected one `sg = SeedSequence(<obj>.<attr>)`")
        root = sgs[0].value.args[0].attr
        sgname = sgs[0].targets[0].id
        comps = [s for s in f.body if isinstance(s, ast.Assign) and isinstance(s.value, ast.ListComp)
                 and "spawn" in ast.unparse(s.value)]
        if len(comps) != 1:
            raise Untranslatable(f"{FLOW}:{f.lineno}: expected one list of spawned generators")
        lc = comps[0].value
        it = lc.generators[0].iter
        if not (isinstance(it, ast.Call) and isinstance(it.func, ast.Attribute) and it.func.attr == "spawn"
                and isinstance(it.func.value, ast.Name) and it.func.value.id == sgname and len(it.args) == 1):
            raise Untranslatable(f"{FLOW}:{lc.lineno}: generators are not drawn from `{sgname}.spawn(n)`")
        cnt = it.args[0]
        count = cnt.attr if isinstance(cnt, ast.Attribute) else cnt.id if isinstance(cnt, ast.Name) else None
        if count is None or ast.unparse(lc.elt) != f"Generator(MT19937({lc.generators[0].target.id}))":
            raise Untranslatable(f"{FLOW}:{lc.lineno}: element is not Generator(MT19937(child)): `{ast.unparse(lc.elt)}`")
        gens = comps[0].targets[0].id
        # the task call: joblib.delayed(<…task_attr>)(args…) inside a comprehension over `gens`
        pos = None
        for n in ast.walk(f):
            if isinstance(n, ast.ListComp) and gens in ast.unparse(n.generators[0].iter):
                call = n.elt
                if isinstance(call, ast.Call) and isinstance(call.func, ast.Call) and task_attr in ast.unparse(call.func):
                    tgt = n.generators[0].target
                    var = tgt.id if isinstance(tgt, ast.Name) else tgt.elts[-1].id
                    idx = [i for i, a in enumerate(call.args) if isinstance(a, ast.Name) and a.id == var]
                    if len(idx) == 1:
                        pos = idx[0]
        if pos is None:
            raise Untranslatable(f"{FLOW}:{f.lineno}: spawned generator is not handed to the {task_attr} task positionally")
        out.append((fname, root, count, pos))
    return out


def _const(node, rel):
    """10 ** (-5), 1e-13, Settings.get_atol() -> Fraction or the string "atol" """
    if isinstance(node, ast.Call) and ast.unparse(node) == "Settings.get_atol()":
        return "atol"
    try:
        v = eval(compile(ast.Expression(node), rel, "eval"), {"__builtins__": {}})
    except Exception:
        raise Untranslatable(f"{rel}:{node.lineno}: constant outside the shape: `{ast.unparse(node)}`")
    return Fraction(str(v)) if isinstance(v, float) else Fraction(v)


def check_tables():
    tree = _tree(PVC)
    consts = {}
    for s in tree.body:
        if isinstance(s, ast.Assign) and len(s.targets) == 1 and isinstance(s.targets[0], ast.Name) \
                and s.targets[0].id in ("__eq_const_eps_true", "__eq_const_eps_false", "__ineq_const_eps"):
            consts[s.targets[0].id] = _const(s.value, PVC)
    if len(consts) != 3:
        raise Untranslatable(f"{PVC}: threshold constants not found: {sorted(consts)}")
    # Settings default
    st = _tree(SETTINGS)
    atol = None
    for n in ast.walk(st):
        if isinstance(n, ast.Assign) and isinstance(n.targets[0], ast.Name) and n.targets[0].id == "__first_default_atol":
            atol = _const(n.value, SETTINGS)
    if atol is None:
        raise Untranslatable(f"{SETTINGS}: default atol not found")
    g = _fn(tree, "get_eq_const_eps", PVC)
    r = g.body[-1]
    if not (isinstance(r, ast.Return) and isinstance(r.value, ast.IfExp) and isinstance(r.value.test, ast.Name)
            and r.value.test.id == g.args.args[0].arg):
        raise Untranslatable(f"{PVC}:{g.lineno}: get_eq_const_eps is not `return A if para else B`")
    branch = (r.value.body.id, r.value.orelse.id)
    f = _fn(tree, "is_eq_constraint_satisfied_all", PVC)
    attr = None
    for s in f.body:
        if isinstance(s, ast.Assign) and isinstance(s.targets[0], ast.Name) and s.targets[0].id == "para":
            v = s.value
            if isinstance(v, ast.Attribute) and ast.unparse(v.value) == "estimation_results[0].estimated_qoperation":
                attr = v.attr
    if attr is None:
        raise Untranslatable(f"{PVC}:{f.lineno}: `para = estimation_results[0].estimated_qoperation.<attr>` not found")
    eps_src = [ast.unparse(s.value) for s in f.body if isinstance(s, ast.Assign) and isinstance(s.targets[0], ast.Name)
               and s.targets[0].id == "eps"]
    if eps_src != ["get_eq_const_eps(para)"]:
        raise Untranslatable(f"{PVC}:{f.lineno}: eps is not get_eq_const_eps(para): {eps_src}")
    for fname, test, arg in (("is_eq_constraint_satisfied_all", "is_eq_constraint_satisfied", "eps"),
                             ("is_ineq_constraint_satisfied_all", "is_ineq_constraint_satisfied", "get_ineq_const_eps()")):
        ff = _fn(tree, fname, PVC)
        calls = [n for n in ast.walk(ff) if isinstance(n, ast.Call) and isinstance(n.func, ast.Attribute) and n.func.attr == test]
        if len(calls) != 1 or [ast.unparse(a) for a in calls[0].args] != [arg]:
            raise Untranslatable(f"{PVC}:{ff.lineno}: {fname} does not call {test}({arg})")
    cu = _fn(tree, "calc_unphysical_qobjects_n", PVC)
    calls = [n for n in ast.walk(cu) if isinstance(n, ast.Call) and isinstance(n.func, ast.Attribute) and n.func.attr == "is_physical"]
    kws = sorted((k.arg, ast.unparse(k.value)) for k in calls[0].keywords) if len(calls) == 1 else None
    if kws != [("atol_eq_const", "eq_const_eps"), ("atol_ineq_const", "get_ineq_const_eps()")]:
        raise Untranslatable(f"{PVC}:{cu.lineno}: is_physical thresholds outside the shape: {kws}")
    eqsrc = [ast.unparse(s.value) for s in cu.body if isinstance(s, ast.Assign) and isinstance(s.targets[0], ast.Name)
             and s.targets[0].id == "eq_const_eps"]
    if eqsrc != ["get_eq_const_eps(estimated_qoperations[0].on_para_eq_constraint)"]:
        raise Untranslatable(f"{PVC}:{cu.lineno}: eq threshold of calc_unphysical_qobjects_n: {eqsrc}")
    # wiring of execute_physicality_violation_check
    ck = _fn(_tree(CHK), "execute_physicality_violation_check", CHK)
    chain = [s for s in ck.body if isinstance(s, ast.If)]
    if len(chain) != 1:
        raise Untranslatable(f"{CHK}:{ck.lineno}: expected one if / elif chain")
    wiring = []
    guards = []
    node = chain[0]
    while True:
        t = node.test
        if not (isinstance(t, ast.Compare) and isinstance(t.ops[0], ast.Eq) and isinstance(t.comparators[0], ast.Name)
                and ast.unparse(t.left) == "type(self.simulation_result.simulation_setting.estimator)"):
            raise Untranslatable(f"{CHK}:{t.lineno}: branch test outside the shape: `{ast.unparse(t)[:90]}`")
        called = []
        for n in ast.walk(ast.Module(body=node.body, type_ignores=[])):
            if isinstance(n, ast.Call) and isinstance(n.func, ast.Attribute) and n.func.attr.endswith("_all") \
                    and n.func.attr not in called:
                called.append(n.func.attr)
        conds = []
        for n in ast.walk(ast.Module(body=node.body, type_ignores=[])):
            if isinstance(n, ast.If):
                conds.append(ast.unparse(n.test))
        wiring.append((t.comparators[0].id, called, conds))
        # (guard, check): the innermost `if <name>:` whose body calls the check directly ("" = unguarded)
        def walk(stmts, guard):
            for st in stmts:
                if isinstance(st, ast.If):
                    g = ast.unparse(st.test)
                    walk(st.body, g if isinstance(st.test, ast.Name) else guard)
                    walk(st.orelse, guard)
                else:
                    for n in ast.walk(st):
                        if isinstance(n, ast.Call) and isinstance(n.func, ast.Attribute) and n.func.attr.endswith("_all"):
                            guards.append((t.comparators[0].id, guard, n.func.attr))
        walk(node.body, "")
        if len(node.orelse) == 1 and isinstance(node.orelse[0], ast.If):
            node = node.orelse[0]
        else:
            break
    return consts, atol, branch, attr, wiring, guards


def _s(x):
    return '"' + x.replace("\\", "\\\\").replace('"', '\\"') + '"'


def _ls(xs):
    return "[" + ", ".join(_s(x) for x in xs) + "]"


def _rat(f):
    return f"(mkRat {f.numerator} {f.denominator})"


def generate():
    nb, ni, passed = loop_shape()
    params, entries = qt_tables()
    consts, atol, branch, attr, wiring, guards = check_tables()
    flows = flow_seeds()

    def cval(name):
        v = consts[name]
        return _rat(atol) if v == "atol" else _rat(v)
    L = ["/-! GENERATED by harness/c15_translate.py from /repo on every run — do not edit.",
         "Seed plumbing of the simulation entry points and the tolerance resolution / wiring of the physicality check. -/",
         "namespace QGen.C15", "",
         "/-- `generate_empi_dists_and_calc_estimate`: `to_stream(seed)` conversions before / inside the repetition loop, and",
         "whether the repetition call receives the converted stream (`true`) or the raw argument (`false`) -/",
         f"def loopConvBefore : Nat := {nb}", f"def loopConvInside : Nat := {ni}",
         f"def loopPassesStream : Bool := {'true' if passed == 'stream' else 'false'}", "",
         "/-- what `execute_simulation` substitutes for `seed_or_generator is None` -/",
         f"def execNoneDefault : String := {_s(exec_none_default())}", "",
         "/-- keyword used for the seed in the call of `qtomography.generate_empi_dists_sequence` -/",
         f"def repKeyword : String := {_s(rep_keyword())}",
         "/-- (tomography class, name of the seed parameter of `generate_empi_dists_sequence`, its position) -/",
         "def qtSeqParams : List (String × String × Nat) := [" +
         ", ".join(f"({_s(c)}, {_s(p)}, {i})" for c, p, i in params) + "]", "",
         "/-- (class, entry point, number of `to_stream(seed)` conversions, hands the converted stream on) -/",
         "def qtEntries : List (String × String × Nat × Bool) := [",
         "  " + ",\n  ".join(f"({_s(c)}, {_s(m)}, {n}, {'true' if ok else 'false'})" for c, m, n, ok in entries) + "]", "",
         "/-- the flow: (function, attribute seeding `SeedSequence`, attribute giving the number of spawned children,",
         "position at which the child generator is handed to the task) -/",
         "def flowSeeds : List (String × String × String × Nat) := [",
         "  " + ",\n  ".join(f"({_s(f)}, {_s(r)}, {_s(c)}, {p})" for f, r, c, p in flows) + "]", "",
         "/-- thresholds of the physicality check (`Settings.get_atol()` at import = the default tolerance) -/",
         f"def eqEpsTrue : Rat := {cval('__eq_const_eps_true')}",
         f"def eqEpsFalse : Rat := {cval('__eq_const_eps_false')}",
         f"def ineqEps : Rat := {cval('__ineq_const_eps')}",
         "/-- `get_eq_const_eps(para)`: `return <then> if para else <else>` -/",
         f"def eqEpsBranches : String × String := ({_s(branch[0])}, {_s(branch[1])})",
         "/-- attribute of the first stored estimate from which `is_eq_constraint_satisfied_all` resolves `para` -/",
         f"def eqParaAttr : String := {_s(attr)}", "",
         "/-- `execute_physicality_violation_check`: (estimator class, checks called in the branch, nested conditions) -/",
         "def checkWiring : List (String × List String × List String) := [",
         "  " + ",\n  ".join(f"({_s(c)}, {_ls(k)}, {_ls(cd)})" for c, k, cd in wiring) + "]", "",
         "/-- (estimator class, innermost guard variable around the call (\"\" = none), check called) -/",
         "def checkGuards : List (String × String × String) := [" +
         ", ".join(f"({_s(c)}, {_s(g)}, {_s(k)})" for c, g, k in guards) + "]", "",
         "end QGen.C15", ""]
    return "\n".join(L)


def translate():
    pytolean.write_if_changed(os.path.join(common.LEAN, "QGen", "C15.lean"), generate())
    return []


if __name__ == "__main__":
    print(generate())
