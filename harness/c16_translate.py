"""C16 translator: regenerates lean/QGen/C16.lean from /repo's sources on every run.

What is generated (everything else of the C16 model is hand-written and tied by the correspondence check):
  * quara/utils/index_util.py — the two index maps.  An `ast` skeleton matcher recognises
        <straight-line integer prelude>; for <targets> in [reversed](<params | list(zip(params))>): <straight-line integer body [+ one acc.append(e)]>;
        return <tuple(reversed(acc)) | tuple(acc) | integer expression of the loop state>
    and emits the loop body, the initial state, the result expression and the iteration / result direction as Lean definitions over `Int`
    (Python `//`, `%` = `Int.fdiv`, `Int.fmod`) together with the fold that runs them.  Anything outside that skeleton raises.
  * quara/math/probability.py:validate_prob_dist — the default `eps` and the (atol, rtol) of its two `np.isclose` call sites.
  * quara/objects/multinomial_distribution.py:__init__ — the default zero threshold of `eps_zero if eps_zero else <c>` and the two
    `validate_sum=` arguments of the constructor's calls to validate_prob_dist.
QProofs/C16Gen.lean proves generated = hand model for all inputs; a source edit that changes the arithmetic, a direction, a default or a
tolerance breaks that proof (or this translator), not only the sampled correspondence."""
import ast
import os
from fractions import Fraction

import common
import pytolean
from pytolean import Fn, INT, Untranslatable

IDX = "quara/utils/index_util.py"
PROB = "quara/math/probability.py"
MD = "quara/objects/multinomial_distribution.py"


def _src(rel):
    return ast.parse(open(os.path.join(common.REPO, rel)).read())


def _body(f):
    b = list(f.body)
    if b and isinstance(b[0], ast.Expr) and isinstance(b[0].value, ast.Constant) and isinstance(b[0].value.value, str):
        b = b[1:]
    return b


def _fail(rel, node, msg):
    raise Untranslatable(f"{rel}:{getattr(node, 'lineno', '?')}: {msg}: `{ast.unparse(node)[:120]}`")


def _iter_spec(rel, it, params):
    """for-loop iterable -> (reversed?, [param names zipped in order])"""
    rev = False
    if isinstance(it, ast.Call) and isinstance(it.func, ast.Name) and it.func.id == "reversed" and len(it.args) == 1 and not it.keywords:
        rev, it = True, it.args[0]
    if isinstance(it, ast.Call) and isinstance(it.func, ast.Name) and it.func.id == "list" and len(it.args) == 1 and not it.keywords:
        it = it.args[0]
    if isinstance(it, ast.Name) and it.id in params:
        return rev, [it.id]
    if isinstance(it, ast.Call) and isinstance(it.func, ast.Name) and it.func.id == "zip" and not it.keywords \
            and all(isinstance(a, ast.Name) and a.id in params for a in it.args) and len(it.args) == 2:
        return rev, [a.id for a in it.args]
    _fail(rel, it, "loop iterable outside the supported skeleton")


def _loop_function(rel, name):
    """returns dict describing the function `name` of index_util.py"""
    f = pytolean.find_def(_src(rel), name)
    params = [a.arg for a in f.args.args]
    if len(params) != 2 or f.args.vararg or f.args.kwarg or f.args.kwonlyargs:
        _fail(rel, f, "expected exactly two positional parameters")
    body = _body(f)
    out = {"name": name, "line": f.lineno, "params": params, "len_guard": False}
    # optional guard: if len(a) != len(b): raise ValueError(...)
    if body and isinstance(body[0], ast.If):
        g = body[0]
        want = {f"len({params[0]}) != len({params[1]})", f"len({params[1]}) != len({params[0]})"}
        if ast.unparse(g.test) not in want or g.orelse or len(g.body) != 1 or not isinstance(g.body[0], ast.Raise) \
                or not (isinstance(g.body[0].exc, ast.Call) and getattr(g.body[0].exc.func, "id", None) == "ValueError"):
            _fail(rel, g, "guard outside the supported skeleton (expected the length-mismatch ValueError)")
        out["len_guard"] = True
        body = body[1:]
    # prelude: straight-line integer statements and at most one `acc = []`
    loops = [i for i, s in enumerate(body) if isinstance(s, ast.For)]
    if len(loops) != 1 or loops[0] != len(body) - 2 or not isinstance(body[-1], ast.Return):
        _fail(rel, f, "expected <prelude>; one for-loop; return")
    loop, ret = body[-2], body[-1]
    acc = None
    fn = Fn(f"{rel}:{name}")
    scalar_params = []
    pre_lines = []
    for s in body[:-2]:
        if isinstance(s, ast.Assign) and len(s.targets) == 1 and isinstance(s.targets[0], ast.Name) \
                and isinstance(s.value, ast.List) and not s.value.elts:
            if acc is not None:
                _fail(rel, s, "more than one accumulator list")
            acc = s.targets[0].id
            continue
        # parameters used as integers in the prelude are the scalar (non-iterated) ones
        for n in ast.walk(s.value if isinstance(s, (ast.Assign, ast.AugAssign)) else s):
            if isinstance(n, ast.Name) and n.id in params and n.id not in fn.env:
                fn.env[n.id] = (n.id, INT)
                scalar_params.append(n.id)
        fn.stmts([s], pre_lines, "  ")
    if loop.orelse:
        _fail(rel, loop, "for-else")
    rev, zipped = _iter_spec(rel, loop.iter, params)
    if any(p in scalar_params for p in zipped):
        _fail(rel, loop, "a parameter is used both as an integer and as the iterated list")
    tg = loop.target
    targets = [tg.id] if isinstance(tg, ast.Name) else [e.id for e in tg.elts] if isinstance(tg, ast.Tuple) and all(isinstance(e, ast.Name) for e in tg.elts) else None
    if targets is None or len(targets) != len(zipped):
        _fail(rel, loop, "loop target does not match the iterable")
    pre_bound = [n for n in fn.env if n not in params]
    state = [n for n in fn.assigned([s for s in loop.body if not _is_append(s, acc)]) if n in pre_bound]
    if not state:
        _fail(rel, loop, "loop carries no integer state")
    init = [fn.env[n][0] for n in state]
    # body
    bfn = Fn(f"{rel}:{name}:loop")
    for n in state + targets:
        bfn.env[n] = (n, INT)
    lines, appended = [], None
    for s in loop.body:
        if _is_append(s, acc):
            if appended is not None:
                _fail(rel, s, "more than one append per iteration")
            text, typ = bfn.expr(s.value.args[0])
            if typ != INT:
                _fail(rel, s, "appended value is not an integer")
            lines.append(f"  let appended_ : Int := {text}")
            appended = "appended_"
        else:
            bfn.stmts([s], lines, "  ")
    if (acc is None) != (appended is None):
        _fail(rel, loop, "accumulator list and append do not match")
    new_state = [bfn.env[n][0] for n in state]
    out.update(scalar_params=scalar_params, pre_lines=pre_lines, init=init, state=state, targets=targets, zipped=zipped,
               iter_reversed=rev, body_lines=lines, new_state=new_state, appends=appended is not None)
    # return
    v = ret.value
    if appended is not None:
        rr = None
        if isinstance(v, ast.Call) and getattr(v.func, "id", None) == "tuple" and len(v.args) == 1:
            inner = v.args[0]
            if isinstance(inner, ast.Call) and getattr(inner.func, "id", None) == "reversed" and len(inner.args) == 1 \
                    and isinstance(inner.args[0], ast.Name) and inner.args[0].id == acc:
                rr = True
            elif isinstance(inner, ast.Name) and inner.id == acc:
                rr = False
        if rr is None:
            _fail(rel, ret, "return outside the supported skeleton (tuple(reversed(acc)) or tuple(acc))")
        out["result_reversed"] = rr
    else:
        rfn = Fn(f"{rel}:{name}:return")
        for n in state:
            rfn.env[n] = (n, INT)
        text, typ = rfn.expr(v)
        if typ != INT:
            _fail(rel, ret, "result is not an integer")
        out["result_expr"] = text
    return out


def _is_append(s, acc):
    return acc is not None and isinstance(s, ast.Expr) and isinstance(s.value, ast.Call) and isinstance(s.value.func, ast.Attribute) \
        and s.value.func.attr == "append" and isinstance(s.value.func.value, ast.Name) and s.value.func.value.id == acc \
        and len(s.value.args) == 1 and not s.value.keywords


def _tuple(xs):
    return xs[0] if len(xs) == 1 else "(" + ", ".join(xs) + ")"


def _ttype(n):
    return " × ".join(["Int"] * n)


def _emit_loop(d, lean):
    """Lean text for one matched function; `lean` = prefix of the generated names"""
    st, tg = d["state"], d["targets"]
    ns = len(st)
    sparams = " ".join(f"({p} : Int)" for p in d["scalar_params"])
    o = [f"/-! ### {IDX}:{d['line']} `{d['name']}` -/", ""]
    o.append(f"/-- statements before the loop: initial value of the carried state ({', '.join(st)}) -/")
    o.append(f"def {lean}Init {sparams} : {_ttype(ns)} :=")
    o += d["pre_lines"] + [f"  {_tuple(d['init'])}", ""]
    res_t = _ttype(ns + 1) if d["appends"] else _ttype(ns)
    o.append(f"/-- one iteration: carried state ({', '.join(st)}), loop variables ({', '.join(tg)}); returns "
             + ("(appended value, new state)" if d["appends"] else "the new state") + " -/")
    o.append(f"def {lean}Body " + " ".join(f"({n} : Int)" for n in st + tg) + f" : {res_t} :=")
    o += d["body_lines"]
    o.append("  " + _tuple((["appended_"] if d["appends"] else []) + d["new_state"]))
    o.append("")
    o.append(f"/-- the loop iterates `reversed(...)` -/\ndef {lean}IterReversed : Bool := {'true' if d['iter_reversed'] else 'false'}")
    if d["appends"]:
        o.append(f"/-- the function returns `tuple(reversed(acc))` -/\ndef {lean}ResultReversed : Bool := {'true' if d['result_reversed'] else 'false'}")
    else:
        o.append(f"/-- `return` expression over the final state -/\ndef {lean}Result " + " ".join(f"({n} : Int)" for n in st) + f" : Int := {d['result_expr']}")
    o.append(f"/-- the function starts with the length-mismatch ValueError guard -/\ndef {lean}LenGuard : Bool := {'true' if d['len_guard'] else 'false'}")
    o.append("")
    return o


def _const(rel, node):
    if isinstance(node, ast.Constant) and type(node.value) in (int, float):
        fr = Fraction(repr(node.value)) if type(node.value) is float else Fraction(node.value)
        return f"mkRat {fr.numerator} {fr.denominator}", repr(node.value)
    _fail(rel, node, "expected a numeric literal")


def _prob_constants():
    tree = _src(PROB)
    f = pytolean.find_def(tree, "validate_prob_dist")
    o = []
    # default eps
    dflt = None
    for s in ast.walk(f):
        if isinstance(s, ast.If) and ast.unparse(s.test) in ("eps == None", "eps is None") and len(s.body) == 1 \
                and isinstance(s.body[0], ast.Assign) and ast.unparse(s.body[0].targets[0]) == "eps":
            dflt = _const(PROB, s.body[0].value)
    args = {a.arg: d for a, d in zip(f.args.args[-len(f.args.defaults):], f.args.defaults)}
    if dflt is None or not (isinstance(args.get("eps"), ast.Constant) and args["eps"].value is None):
        _fail(PROB, f, "validate_prob_dist: default eps not in the expected form (eps=None; if eps == None: eps = <c>)")
    if not (isinstance(args.get("validate_sum"), ast.Constant) and args["validate_sum"].value is True):
        _fail(PROB, f, "validate_prob_dist: validate_sum no longer defaults to True")
    o.append(f"/-- {PROB}: `if eps == None: eps = {dflt[1]}` -/\ndef validateEpsDefault : Rat := {dflt[0]}")
    # isclose call sites: each must pass atol=eps, rtol=<literal>
    sites = [c for c in ast.walk(f) if isinstance(c, ast.Call) and ast.unparse(c.func) in ("np.isclose", "np.allclose")]
    if len(sites) != 2:
        _fail(PROB, f, f"validate_prob_dist: expected 2 isclose call sites, found {len(sites)}")
    sites.sort(key=lambda c: c.lineno)
    for nm, c, ref in (("Neg", sites[0], "0"), ("Sum", sites[1], "1.0")):
        kw = {k.arg: k.value for k in c.keywords}
        if ast.unparse(kw.get("atol", ast.Constant(None))) != "eps":
            _fail(PROB, c, "isclose call site does not pass atol=eps")
        rt = _const(PROB, kw["rtol"]) if "rtol" in kw else ("mkRat 1 100000", "numpy default 1e-05")
        if len(c.args) != 2 or ast.unparse(c.args[1]) != ref:
            _fail(PROB, c, f"isclose reference value is not {ref}")
        o.append(f"/-- {PROB}:{c.lineno} `{ast.unparse(c)}`: rtol -/\ndef validate{nm}Rtol : Rat := {rt[0]}")
    # the negativity test is `prob < 0 and not isclose(...)`
    neg = [s for s in ast.walk(f) if isinstance(s, ast.If) and "prob < 0" in ast.unparse(s.test)]
    ok = len(neg) == 1 and isinstance(neg[0].test, ast.BoolOp) and isinstance(neg[0].test.op, ast.And) and len(neg[0].test.values) == 2 \
        and ast.unparse(neg[0].test.values[0]) == "prob < 0" and isinstance(neg[0].test.values[1], ast.UnaryOp) \
        and isinstance(neg[0].test.values[1].op, ast.Not) and neg[0].test.values[1].operand is sites[0]
    if not ok:
        _fail(PROB, neg[0] if neg else f, "negativity test is no longer `prob < 0 and not np.isclose(prob, 0, atol=eps, rtol=..)`")
    sm = [s for s in ast.walk(f) if isinstance(s, ast.If) and ast.unparse(s.test) in ("validate_sum is True", "validate_sum == True", "validate_sum")]
    if len(sm) != 1:
        _fail(PROB, f, "sum test is not guarded by `validate_sum is True`")
    return o


def _md_constants():
    tree = _src(MD)
    init = pytolean.find_def(tree, "__init__", cls="MultinomialDistribution")
    o = []
    dflt = None
    for s in ast.walk(init):
        if isinstance(s, ast.Assign) and ast.unparse(s.targets[0]) == "self._eps_zero":
            v = s.value
            if isinstance(v, ast.IfExp) and ast.unparse(v.test) == "eps_zero" and ast.unparse(v.body) == "eps_zero":
                dflt = _const(MD, v.orelse)
            else:
                _fail(MD, s, "zero threshold is no longer `eps_zero if eps_zero else <c>`")
    if dflt is None:
        _fail(MD, init, "assignment of self._eps_zero not found")
    o.append(f"/-- {MD}: `eps_zero if eps_zero else {dflt[1]}` -/\ndef epsZeroDefault : Rat := {dflt[0]}")
    calls = sorted([c for c in ast.walk(init) if isinstance(c, ast.Call) and ast.unparse(c.func) == "validate_prob_dist"], key=lambda c: c.lineno)
    if len(calls) != 2:
        _fail(MD, init, f"expected two validate_prob_dist calls in the constructor, found {len(calls)}")
    for nm, c in (("First", calls[0]), ("Second", calls[1])):
        kw = {k.arg: k.value for k in c.keywords}
        if set(kw) - {"validate_sum"} or len(c.args) != 1:
            _fail(MD, c, "validate_prob_dist called with arguments other than (ps, validate_sum=...)")
        vs = kw.get("validate_sum", ast.Constant(True))
        if not (isinstance(vs, ast.Constant) and type(vs.value) is bool):
            _fail(MD, c, "validate_sum is not a boolean literal")
        o.append(f"/-- {MD}:{c.lineno} `{ast.unparse(c)}` -/\ndef ctorValidateSum{nm} : Bool := {'true' if vs.value else 'false'}")
    # the threshold comparison `prob < self.eps_zero`
    cmp_ = [s for s in ast.walk(init) if isinstance(s, ast.If) and "eps_zero" in ast.unparse(s.test) and "prob" in ast.unparse(s.test)]
    if len(cmp_) != 1 or ast.unparse(cmp_[0].test) not in ("prob < self.eps_zero", "prob < self._eps_zero"):
        _fail(MD, init, "threshold comparison is no longer `prob < self.eps_zero`: " + (ast.unparse(cmp_[0].test) if cmp_ else "?"))
    return o


RUNNERS = '''/-! ### the folds that run the generated loop bodies (fixed text) -/

def multiLoop : List Int → Int → List Int
  | [], _ => []
  | l :: ls, s => let r := multiBody s l; r.1 :: multiLoop ls r.2

/-- `index_multi_dimensional_from_index_serial(nums_length, index_serial)` as generated -/
def multiFromSerial (nums_length : List Int) (index_serial : Int) : List Int :=
  let out := multiLoop (if multiIterReversed then nums_length.reverse else nums_length) (multiInit index_serial)
  if multiResultReversed then out.reverse else out

def serialLoop : List (Int × Int) → Int × Int → Int × Int
  | [], st => st
  | p :: r, st => serialLoop r (serialBody st.1 st.2 p.1 p.2)

/-- `index_serial_from_index_multi_dimensional(nums_length, index_multi_dimensional)` as generated; `none` = ValueError -/
def serialFromMulti (nums_length index_multi_dimensional : List Int) : Option Int :=
  if serialLenGuard && nums_length.length != index_multi_dimensional.length then none
  else
    let zs := ZIPPED
    let st := serialLoop (if serialIterReversed then zs.reverse else zs) serialInit
    some (serialResult st.1 st.2)
'''


def generate():
    multi = _loop_function(IDX, "index_multi_dimensional_from_index_serial")
    serial = _loop_function(IDX, "index_serial_from_index_multi_dimensional")
    # arities fixed by the runners below: fail loudly when the skeleton drifts
    if not (multi["appends"] and len(multi["state"]) == 1 and len(multi["targets"]) == 1 and multi["scalar_params"] == [multi["params"][1]]
            and multi["zipped"] == [multi["params"][0]] and not multi["len_guard"]):
        raise Untranslatable(f"{IDX}: index_multi_dimensional_from_index_serial no longer has the shape "
                             "(one carried integer, one loop variable over nums_length, one append per iteration)")
    if not (not serial["appends"] and len(serial["state"]) == 2 and len(serial["targets"]) == 2 and serial["scalar_params"] == []
            and sorted(serial["zipped"]) == sorted(serial["params"])):
        raise Untranslatable(f"{IDX}: index_serial_from_index_multi_dimensional no longer has the shape "
                             "(two carried integers, loop over the zip of both parameters, integer result)")
    zipped = "nums_length.zip index_multi_dimensional" if serial["zipped"] == serial["params"] else "index_multi_dimensional.zip nums_length"
    parts = ["/-! GENERATED on every run by harness/c16.py:translate (harness/c16_translate.py, harness/pytolean.py) from the Python sources of quara — do not edit.",
             "Import-free. `Int.fdiv` / `Int.fmod` are Python's `//` and `%`. -/", "set_option linter.unusedVariables false", "namespace QGen.C16", ""]
    parts += _emit_loop(multi, "multi")
    parts += _emit_loop(serial, "serial")
    parts.append(RUNNERS.replace("ZIPPED", zipped))
    parts.append("/-! ### defaults and tolerances -/\n")
    parts += _prob_constants()
    parts += _md_constants()
    parts += ["", "end QGen.C16", ""]
    return "\n".join(parts)


def translate():
    text = generate()
    pytolean.write_if_changed(os.path.join(common.LEAN, "QGen", "C16.lean"), text)
    return []


if __name__ == "__main__":
    print(generate())
