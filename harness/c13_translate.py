"""C13 translator: regenerates lean/QGen/C13.lean from /repo's sources on every run (Python `ast`).

The C13 state machines (QModel/C13.lean) *assume* an attribute discipline of the classes they stand for.  This fragment reads
that discipline off the source and writes it down as Lean tables; QProofs/C13Gen.lean / QProps/C13.lean prove the assumptions
ABOUT THE GENERATED TABLES, so that a source edit which adds a cached attribute, a memoising decorator, an in-place array
operation or an attribute write outside the declared mutators breaks a proof obligation — not only the sampled histories.

Generated:
  * `csCacheInit`   attributes `CompositeSystem.__init__` initialises to None (the caches), in order;
  * `csGetters`     for every method/property of CompositeSystem that tests `self.<a> is None`: (method, a, attributes assigned on
                    the None branch — inline or through the `self._calc_*()` it calls);
  * `csDeletes`     (method, attributes it sets to None) for the `delete_*` methods;
  * `csWriters`     every method of CompositeSystem with the attributes it assigns (directly or through self-calls);
  * `objWriters`    (class, method, attributes assigned through `self.<a> = …`, augmented assignment or `setattr(self, …)`), own
                    methods of the value / service classes the histories exercise — methods that write nothing are omitted;
  * `objDecorators` (class, method, decorator) for every decorator other than property / setter / staticmethod / classmethod /
                    abstractmethod (memoisation would show up here);
  * `objInplace`    (class, method, source text) of in-place operations on attributes of self: `self.a[...] = …`, `self.a += …`,
                    `self.a.fill/sort/resize/put/itemset/partition/byteswap(...)`, `np.<f>(…, out=self.a)`;
  * `paramWrites`   (file, function, statement) of every function in quara/{objects,utils,math,loss_function,
                    minimization_algorithm,protocol,qcircuit} that may write into an array / container it received as a parameter;
  * `pgdSetConstraint` the shape of `ProjectedGradientDescent.set_constraint_from_standard_qt_and_option`: attributes assigned before
                    the guard, the guard attribute (`if self.<a> is not None: return`), and the branch table
                    (on_algo_eq_constraint, on_algo_ineq_constraint) -> name of the projection factory, `none` = else branch.
Anything outside the recognised shapes raises (`Untranslatable`), which the check reports as a broken obligation."""
import ast
import os

import common
import pytolean
from pytolean import Untranslatable

CS = "quara/objects/composite_system.py"
PGD = "quara/minimization_algorithm/projected_gradient_descent.py"
# classes whose objects take part in the histories: file -> class names
CLASSES = [
    ("quara/objects/qoperation.py", ["QOperation"]),
    ("quara/objects/state.py", ["State"]),
    ("quara/objects/povm.py", ["Povm"]),
    ("quara/objects/gate.py", ["Gate"]),
    ("quara/objects/mprocess.py", ["MProcess"]),
    ("quara/objects/state_ensemble.py", ["StateEnsemble"]),
    ("quara/objects/multinomial_distribution.py", ["MultinomialDistribution"]),
    ("quara/objects/matrix_basis.py", ["Basis", "MatrixBasis", "SparseMatrixBasis", "VectorizedMatrixBasis"]),
    ("quara/objects/elemental_system.py", ["ElementalSystem"]),
    ("quara/objects/composite_system.py", ["CompositeSystem"]),
    ("quara/settings.py", ["Settings"]),
    ("quara/qcircuit/experiment.py", ["Experiment"]),
    ("quara/protocol/qtomography/qtomography.py", ["QTomography"]),
    ("quara/protocol/qtomography/standard/standard_qtomography.py", ["StandardQTomography"]),
    ("quara/protocol/qtomography/standard/standard_qst.py", ["StandardQst"]),
    ("quara/protocol/qtomography/standard/standard_povmt.py", ["StandardPovmt"]),
    ("quara/protocol/qtomography/standard/standard_qpt.py", ["StandardQpt"]),
    ("quara/protocol/qtomography/standard/standard_qmpt.py", ["StandardQmpt"]),
    ("quara/protocol/qtomography/standard/standard_qtomography_estimator.py",
     ["StandardQTomographyEstimationResult", "StandardQTomographyEstimator"]),
    ("quara/protocol/qtomography/standard/linear_estimator.py", ["LinearEstimationResult", "LinearEstimator"]),
    ("quara/protocol/qtomography/standard/projected_linear_estimator.py",
     ["ProjectedLinearEstimationResult", "ProjectedLinearEstimator"]),
    ("quara/protocol/qtomography/standard/loss_minimization_estimator.py",
     ["LossMinimizationEstimationResult", "LossMinimizationEstimator"]),
    ("quara/loss_function/loss_function.py", ["LossFunctionOption", "LossFunction"]),
    ("quara/loss_function/probability_based_loss_function.py",
     ["ProbabilityBasedLossFunctionOption", "ProbabilityBasedLossFunction"]),
    ("quara/loss_function/weighted_probability_based_squared_error.py",
     ["WeightedProbabilityBasedSquaredErrorOption", "WeightedProbabilityBasedSquaredError"]),
    ("quara/loss_function/weighted_relative_entropy.py", ["WeightedRelativeEntropyOption", "WeightedRelativeEntropy"]),
    ("quara/loss_function/standard_qtomography_based_weighted_probability_based_squared_error.py",
     ["StandardQTomographyBasedWeightedProbabilityBasedSquaredErrorOption",
      "StandardQTomographyBasedWeightedProbabilityBasedSquaredError"]),
    ("quara/loss_function/standard_qtomography_based_weighted_relative_entropy.py",
     ["StandardQTomographyBasedWeightedRelativeEntropyOption", "StandardQTomographyBasedWeightedRelativeEntropy"]),
    ("quara/minimization_algorithm/minimization_algorithm.py",
     ["MinimizationResult", "MinimizationAlgorithmOption", "MinimizationAlgorithm"]),
    ("quara/minimization_algorithm/projected_gradient_descent.py",
     ["ProjectedGradientDescentResult", "ProjectedGradientDescentOption", "ProjectedGradientDescent"]),
    ("quara/minimization_algorithm/projected_gradient_descent_backtracking.py",
     ["ProjectedGradientDescentBacktrackingResult", "ProjectedGradientDescentBacktrackingOption",
      "ProjectedGradientDescentBacktracking"]),
]
PLAIN_DECORATORS = {"property", "staticmethod", "classmethod", "abstractmethod"}
INPLACE_METHODS = {"fill", "sort", "resize", "put", "itemset", "partition", "byteswap"}


def _tree(rel):
    return ast.parse(open(os.path.join(common.REPO, rel)).read())


def _cls(tree, name, rel):
    for n in tree.body:
        if isinstance(n, ast.ClassDef) and n.name == name:
            return n
    raise Untranslatable(f"{rel}: class {name} not found")


def _methods(c):
    return [n for n in c.body if isinstance(n, (ast.FunctionDef, ast.AsyncFunctionDef))]


def _self_attr(node):
    """`self.<a>` or `cls.<a>` (class-level state of Settings) -> a"""
    if isinstance(node, ast.Attribute) and isinstance(node.value, ast.Name) and node.value.id in ("self", "cls"):
        return node.attr
    return None


def _targets(t):
    if isinstance(t, (ast.Tuple, ast.List)):
        for e in t.elts:
            yield from _targets(e)
    else:
        yield t


def _mangle(cname, a):
    """`__x` inside class C is the attribute `_C__x`"""
    return f"_{cname.lstrip('_')}{a}" if a.startswith("__") and not a.endswith("__") else a


def direct_writes(f, cname):
    """attributes of self this function binds: assignment, annotated / augmented assignment, setattr, del, with-as, for targets"""
    out = []

    def add(a):
        a = _mangle(cname, a)
        if a not in out:
            out.append(a)
    for n in ast.walk(f):
        tg = []
        if isinstance(n, ast.Assign):
            tg = [x for t in n.targets for x in _targets(t)]
        elif isinstance(n, (ast.AnnAssign, ast.AugAssign)):
            tg = [n.target] if not (isinstance(n, ast.AnnAssign) and n.value is None) else []
        elif isinstance(n, (ast.For, ast.AsyncFor)):
            tg = list(_targets(n.target))
        elif isinstance(n, ast.Delete):
            tg = [x for t in n.targets for x in _targets(t)]
        elif isinstance(n, ast.NamedExpr):
            tg = [n.target]
        elif isinstance(n, (ast.With, ast.AsyncWith)):
            tg = [x for it in n.items if it.optional_vars is not None for x in _targets(it.optional_vars)]
        for t in tg:
            a = _self_attr(t)
            if a is not None:
                add(a)
        if isinstance(n, ast.Call) and isinstance(n.func, ast.Name) and n.func.id in ("setattr", "delattr") and n.args \
                and isinstance(n.args[0], ast.Name) and n.args[0].id in ("self", "cls"):
            if len(n.args) > 1 and isinstance(n.args[1], ast.Constant) and isinstance(n.args[1].value, str):
                add(n.args[1].value)
            else:
                raise Untranslatable(f"{cname}.{f.name}: setattr on self with a computed name: `{ast.unparse(n)[:80]}`")
        if isinstance(n, ast.Attribute) and isinstance(n.value, ast.Name) and n.value.id in ("self", "cls") \
                and n.attr == "__dict__":
            raise Untranslatable(f"{cname}.{f.name}: touches self.__dict__ (line {n.lineno})")
    return out


def self_calls(f, with_super=False):
    """names of the methods called on self; with_super: `super().m(…)` as "super:m" """
    out = []
    for n in ast.walk(f):
        if isinstance(n, ast.Call) and isinstance(n.func, ast.Attribute):
            v = n.func.value
            name = None
            if isinstance(v, ast.Name) and v.id == "self":
                name = n.func.attr
            elif with_super and isinstance(v, ast.Call) and isinstance(v.func, ast.Name) and v.func.id == "super":
                name = "super:" + n.func.attr
            if name is not None and name not in out:
                out.append(name)
    return out


def events(f, cname):
    """attribute bindings of self and calls on self / through super(), in evaluation order: ("w", attr) | ("c", method) |
    ("s", method).  A binding takes effect at the end of its statement (after the calls on its right-hand side)."""
    ev = []
    for n in ast.walk(f):
        if isinstance(n, (ast.Assign, ast.AugAssign, ast.AnnAssign)):
            tg = n.targets if isinstance(n, ast.Assign) else [n.target]
            for t in [x for t in tg for x in _targets(t)]:
                a = _self_attr(t)
                if a is not None and not (isinstance(n, ast.AnnAssign) and n.value is None):
                    ev.append(((n.end_lineno, n.end_col_offset), ("w", _mangle(cname, a))))
        if isinstance(n, ast.Call) and isinstance(n.func, ast.Attribute):
            v = n.func.value
            if isinstance(v, ast.Name) and v.id == "self":
                ev.append(((n.end_lineno, n.end_col_offset - 1), ("c", n.func.attr)))
            elif isinstance(v, ast.Call) and isinstance(v.func, ast.Name) and v.func.id == "super":
                ev.append(((n.end_lineno, n.end_col_offset - 1), ("s", n.func.attr)))
    ev.sort(key=lambda x: x[0])
    return [e for _, e in ev]


def inplace_ops(f, cname):
    out = []
    for n in ast.walk(f):
        hit = None
        if isinstance(n, (ast.Assign, ast.AugAssign, ast.AnnAssign)):
            tg = n.targets if isinstance(n, ast.Assign) else [n.target]
            for t in [x for t in tg for x in _targets(t)]:
                base = t
                while isinstance(base, ast.Subscript):
                    base = base.value
                if base is not t and _self_attr(base) is not None:
                    hit = n          # self.a[...] = / +=
                # an augmented assignment to self.a re-binds a (numpy does it in place): listed as in-place as well
                if isinstance(n, ast.AugAssign) and _self_attr(t) is not None:
                    hit = n
        if isinstance(n, ast.Call) and isinstance(n.func, ast.Attribute) and n.func.attr in INPLACE_METHODS:
            base = n.func.value
            while isinstance(base, ast.Subscript):
                base = base.value
            if _self_attr(base) is not None:
                hit = n
        if isinstance(n, ast.Call):
            for kw in n.keywords:
                if kw.arg == "out" and _self_attr(kw.value) is not None:
                    hit = n
        if hit is not None:
            out.append(" ".join(ast.unparse(hit).split())[:70])
    return out


def decorators(f):
    out = []
    for d in f.decorator_list:
        txt = ast.unparse(d)
        base = txt.split("(")[0]
        if base in PLAIN_DECORATORS or base.endswith(".setter") or base.endswith(".getter") or base.endswith(".deleter") \
                or base in ("abc.abstractmethod",):
            continue
        out.append(txt)
    return out


# ----------------------------------------------------------------------------- CompositeSystem
def _none_assigned(f, cname):
    """attributes assigned the constant None in this function"""
    out = []
    for n in ast.walk(f):
        if isinstance(n, ast.Assign) and isinstance(n.value, ast.Constant) and n.value.value is None:
            for t in n.targets:
                a = _self_attr(t)
                if a is not None and a not in out:
                    out.append(_mangle(cname, a))
    return out


def composite_system():
    c = _cls(_tree(CS), "CompositeSystem", CS)
    ms = {m.name: m for m in _methods(c)}
    init = ms["__init__"]
    cache_init = _none_assigned(init, "CompositeSystem")

    def closure_writes(m, seen=()):
        w = list(direct_writes(m, "CompositeSystem"))
        for callee in self_calls(m):
            if callee in ms and callee not in seen and callee != m.name:
                for a in closure_writes(ms[callee], seen + (m.name,)):
                    if a not in w:
                        w.append(a)
        return w
    getters, deletes, writers = [], [], []
    for m in _methods(c):
        w = closure_writes(m)
        if w:
            writers.append((m.name, w))
        # `if self.<a> is None:` at the top level of the body
        tests = [s for s in m.body if isinstance(s, ast.If) and isinstance(s.test, ast.Compare)
                 and len(s.test.ops) == 1 and isinstance(s.test.ops[0], ast.Is)
                 and isinstance(s.test.comparators[0], ast.Constant) and s.test.comparators[0].value is None
                 and _self_attr(s.test.left) is not None]
        if tests:
            if len(tests) != 1 or tests[0].orelse:
                raise Untranslatable(f"{CS}:{m.lineno}: getter {m.name} outside the `if self.a is None: build` shape")
            t = tests[0]
            built = []
            fake = ast.FunctionDef(name=m.name, args=m.args, body=t.body, decorator_list=[], lineno=t.lineno)
            for a in direct_writes(fake, "CompositeSystem"):
                built.append(a)
            for callee in self_calls(fake):
                if callee in ms:
                    for a in closure_writes(ms[callee], (m.name,)):
                        if a not in built:
                            built.append(a)
            # everything the method writes must be written on the None branch (no other state changes in a getter)
            if sorted(built) != sorted(w):
                raise Untranslatable(f"{CS}:{m.lineno}: getter {m.name} writes outside its build branch: {w} vs {built}")
            getters.append((m.name, _self_attr(t.test.left), built))
        elif m.name.startswith("delete_"):
            na = _none_assigned(m, "CompositeSystem")
            if sorted(na) != sorted(w):
                raise Untranslatable(f"{CS}:{m.lineno}: {m.name} does more than resetting attributes: {w}")
            deletes.append((m.name, na))
    return cache_init, getters, deletes, writers


# ----------------------------------------------------------------------------- generic writer tables
def object_tables():
    writers, decos, inplace, bases, methods, calls, evs = [], [], [], [], [], [], []
    known = {n for _, ns in CLASSES for n in ns}
    for rel, names in CLASSES:
        tree = _tree(rel)
        for cname in names:
            c = _cls(tree, cname, rel)
            bs = [ast.unparse(b).split(".")[-1] for b in c.bases]
            if len([b for b in bs if b in known]) > 1:
                raise Untranslatable(f"{rel}: {cname} has several scanned base classes {bs} (linearisation not modelled)")
            bases.append((cname, [b for b in bs if b in known]))
            methods.append((cname, [m.name for m in _methods(c)]))
            for m in _methods(c):
                sc = self_calls(m, with_super=True)
                if sc:
                    calls.append((cname, m.name, sc))
                e = events(m, cname)
                if e:
                    evs.append((cname, m.name, e))
                w = direct_writes(m, cname)
                if w:
                    writers.append((cname, m.name, w))
                for d in decorators(m):
                    decos.append((cname, m.name, d))
                for e in inplace_ops(m, cname):
                    inplace.append((cname, m.name, e))
            # class-level decorators / metaclass tricks are outside the shape
            for d in c.decorator_list:
                txt = ast.unparse(d)
                if not txt.startswith("dataclasses.dataclass") and txt != "dataclass":
                    raise Untranslatable(f"{rel}: class decorator {txt} on {cname}")
            if any(k.arg == "metaclass" for k in c.keywords):
                raise Untranslatable(f"{rel}: metaclass on {cname}")
            if any(isinstance(n, ast.FunctionDef) and n.name in ("__setattr__", "__getattr__", "__getattribute__", "__slots__")
                   for n in c.body):
                raise Untranslatable(f"{rel}: {cname} customises attribute access")
    return writers, decos, inplace, bases, methods, calls, evs


# ----------------------------------------------------------------------------- PGD.set_constraint_from_standard_qt_and_option
def pgd_set_constraint():
    c = _cls(_tree(PGD), "ProjectedGradientDescent", PGD)
    f = pytolean.find_def(c, "set_constraint_from_standard_qt_and_option")
    body = [s for s in f.body if not (isinstance(s, ast.Expr) and isinstance(s.value, ast.Constant))]
    pre, guard, rest = [], None, None
    for i, s in enumerate(body):
        if isinstance(s, ast.If) and isinstance(s.test, ast.Compare) and isinstance(s.test.ops[0], ast.IsNot) \
                and isinstance(s.test.comparators[0], ast.Constant) and s.test.comparators[0].value is None \
                and len(s.body) == 1 and isinstance(s.body[0], ast.Return) and s.body[0].value is None and not s.orelse:
            guard = _self_attr(s.test.left)
            rest = body[i + 1:]
            break
        if isinstance(s, ast.Assign) and len(s.targets) == 1 and _self_attr(s.targets[0]) is not None:
            pre.append(_self_attr(s.targets[0]))
        else:
            raise Untranslatable(f"{PGD}:{s.lineno}: statement before the guard outside the shape: `{ast.unparse(s)[:80]}`")
    if guard is None:
        raise Untranslatable(f"{PGD}:{f.lineno}: no `if self.<a> is not None: return` guard")
    chain = [s for s in rest if isinstance(s, ast.If)]
    if len(chain) != 1 or any(not isinstance(s, (ast.If, ast.Assign)) for s in rest):
        raise Untranslatable(f"{PGD}:{f.lineno}: body after the guard is not `setting_info = …; if/elif/else`")

    def flags(test):
        """`option.on_algo_eq_constraint == B and option.on_algo_ineq_constraint == B`"""
        if not (isinstance(test, ast.BoolOp) and isinstance(test.op, ast.And) and len(test.values) == 2):
            raise Untranslatable(f"{PGD}:{test.lineno}: branch condition outside the shape: `{ast.unparse(test)[:80]}`")
        got = {}
        for v in test.values:
            if not (isinstance(v, ast.Compare) and isinstance(v.ops[0], ast.Eq) and isinstance(v.left, ast.Attribute)
                    and isinstance(v.comparators[0], ast.Constant) and isinstance(v.comparators[0].value, bool)):
                raise Untranslatable(f"{PGD}:{v.lineno}: comparison outside the shape: `{ast.unparse(v)[:80]}`")
            got[v.left.attr] = v.comparators[0].value
        if sorted(got) != ["on_algo_eq_constraint", "on_algo_ineq_constraint"]:
            raise Untranslatable(f"{PGD}:{test.lineno}: flags {sorted(got)}")
        return got["on_algo_eq_constraint"], got["on_algo_ineq_constraint"]

    def factory(stmts):
        if len(stmts) != 1 or not isinstance(stmts[0], ast.Assign) or _self_attr(stmts[0].targets[0]) != guard \
                or not isinstance(stmts[0].value, ast.Call) or not isinstance(stmts[0].value.func, ast.Attribute):
            raise Untranslatable(f"{PGD}:{stmts[0].lineno}: branch body is not `self.{guard} = <obj>.<factory>(…)`")
        kws = sorted(k.arg for k in stmts[0].value.keywords)
        return stmts[0].value.func.attr, kws
    branches = []
    node = chain[0]
    while True:
        branches.append((flags(node.test), factory(node.body)))
        if len(node.orelse) == 1 and isinstance(node.orelse[0], ast.If):
            node = node.orelse[0]
        else:
            branches.append((None, factory(node.orelse)))
            break
    return pre, guard, branches


# ----------------------------------------------------------------------------- functions that write through their parameters
SCAN_DIRS = ("objects", "utils", "math", "loss_function", "minimization_algorithm", "protocol", "qcircuit")
VIEW_FUNCS={"asarray","asanyarray","reshape","ravel","atleast_1d","atleast_2d","squeeze","transpose","real","imag","asfarray","ascontiguousarray"}
VIEW_METHODS={"reshape","ravel","view","squeeze","transpose","swapaxes"}
VIEW_ATTRS={"T","real","imag","flat"}
INPLACE={"fill","sort","resize","put","itemset","partition","byteswap","setfield"}
def base(n):
    while isinstance(n,(ast.Subscript,)): n=n.value
    return n
def is_view_of(expr, al):
    # returns True if expr may alias a name in al
    if isinstance(expr, ast.Name): return expr.id in al
    if isinstance(expr, ast.Subscript): return is_view_of(expr.value, al)
    if isinstance(expr, ast.Attribute) and expr.attr in VIEW_ATTRS: return is_view_of(expr.value, al)
    if isinstance(expr, ast.Call):
        f=expr.func
        if isinstance(f, ast.Attribute) and f.attr in VIEW_METHODS: return is_view_of(f.value, al)
        if isinstance(f, ast.Attribute) and isinstance(f.value, ast.Name) and f.value.id in ("np","numpy") and f.attr in VIEW_FUNCS and expr.args:
            return is_view_of(expr.args[0], al)
        if isinstance(f, ast.Attribute) and isinstance(f.value, ast.Name) and f.value.id in ("np","numpy") and f.attr=="array" and expr.args:
            if any(k.arg=="copy" and isinstance(k.value, ast.Constant) and k.value.value is False for k in expr.keywords):
                return is_view_of(expr.args[0], al)
    if isinstance(expr,(ast.List,ast.Tuple)): return any(is_view_of(e,al) for e in expr.elts)
    return False


def param_writes():
    """(file, function, statement) for every function of the numeric packages that may write into an array / container it
    received as a parameter: subscript or augmented assignment, in-place ndarray methods, `out=`; aliases through plain
    assignment, views (`np.asarray`, `reshape`, `ravel`, slices, `.T` …) and loop variables are followed (flow-insensitive
    may-analysis)."""
    out = []
    for d in SCAN_DIRS:
        for root, _, files in sorted(os.walk(os.path.join(common.REPO, "quara", d))):
            for fn in sorted(files):
                if not fn.endswith(".py"):
                    continue
                rel = os.path.relpath(os.path.join(root, fn), common.REPO)
                tree = ast.parse(open(os.path.join(root, fn)).read())
                for f in ast.walk(tree):
                    if not isinstance(f, ast.FunctionDef):
                        continue
                    al = {a.arg for a in f.args.args + f.args.kwonlyargs if a.arg not in ("self", "cls")}
                    if f.args.vararg:
                        al.add(f.args.vararg.arg)
                    changed = True
                    while changed:
                        changed = False
                        for n in ast.walk(f):
                            names = []
                            if isinstance(n, ast.Assign) and is_view_of(n.value, al):
                                names = [x for t in n.targets
                                         for x in ([t] if not isinstance(t, (ast.Tuple, ast.List)) else t.elts)
                                         if isinstance(x, ast.Name)]
                            if isinstance(n, ast.For) and (is_view_of(n.iter, al) or (
                                    isinstance(n.iter, ast.Call) and isinstance(n.iter.func, ast.Name)
                                    and n.iter.func.id in ("enumerate", "zip", "reversed")
                                    and any(is_view_of(a, al) for a in n.iter.args))):
                                names = [x for x in ast.walk(n.target) if isinstance(x, ast.Name)]
                            for x in names:
                                if x.id not in al:
                                    al.add(x.id); changed = True
                    for n in ast.walk(f):
                        hit = None
                        if isinstance(n, (ast.Assign, ast.AugAssign)):
                            tg = n.targets if isinstance(n, ast.Assign) else [n.target]
                            for t in tg:
                                for x in ([t] if not isinstance(t, (ast.Tuple, ast.List)) else t.elts):
                                    if isinstance(x, ast.Subscript) and isinstance(base(x), ast.Name) and base(x).id in al:
                                        hit = n
                                    if isinstance(n, ast.AugAssign) and isinstance(x, ast.Name) and x.id in al:
                                        hit = n
                        if isinstance(n, ast.Call) and isinstance(n.func, ast.Attribute) and n.func.attr in INPLACE \
                                and isinstance(base(n.func.value), ast.Name) and base(n.func.value).id in al:
                            hit = n
                        if isinstance(n, ast.Call):
                            for k in n.keywords:
                                if k.arg == "out" and is_view_of(k.value, al):
                                    hit = n
                        if hit is not None:
                            out.append((rel, f.name, " ".join(ast.unparse(hit).split())[:70]))
    return out


# ----------------------------------------------------------------------------- weighting modes of the loss options / losses
WSE = "quara/loss_function/weighted_probability_based_squared_error.py"
WRE = "quara/loss_function/weighted_relative_entropy.py"
PBL = "quara/loss_function/probability_based_loss_function.py"
MPROC = "quara/objects/mprocess.py"


def _accepted_modes(rel, cname):
    """`if not mode_weight in [<strings>]: raise` in the option constructor"""
    init = pytolean.find_def(_cls(_tree(rel), cname, rel), "__init__")
    for n in ast.walk(init):
        if isinstance(n, ast.If) and isinstance(n.test, ast.UnaryOp) and isinstance(n.test.op, ast.Not) \
                and isinstance(n.test.operand, ast.Compare) and isinstance(n.test.operand.ops[0], ast.In) \
                and isinstance(n.test.operand.comparators[0], ast.List) and any(isinstance(b, ast.Raise) for b in n.body):
            vals = n.test.operand.comparators[0].elts
            if all(isinstance(v, ast.Constant) and isinstance(v.value, str) for v in vals):
                return [v.value for v in vals]
    raise Untranslatable(f"{rel}: {cname}.__init__ has no `if not mode_weight in [...]: raise`")


def _mode_branches(rel, cname, setter):
    """the if / elif chain of `_set_weights_by_mode`: (mode strings of the branch, what it does with the weights)"""
    f = pytolean.find_def(_cls(_tree(rel), cname, rel), "_set_weights_by_mode")
    body = [s for s in f.body if not (isinstance(s, ast.Expr) and isinstance(s.value, ast.Constant))]
    if len(body) != 1 or not isinstance(body[0], ast.If):
        raise Untranslatable(f"{rel}:{f.lineno}: _set_weights_by_mode is not a single if / elif chain")

    def modes(test):
        parts = test.values if isinstance(test, ast.BoolOp) and isinstance(test.op, ast.Or) else [test]
        out = []
        for t in parts:
            if not (isinstance(t, ast.Compare) and isinstance(t.ops[0], ast.Eq) and isinstance(t.left, ast.Name)
                    and t.left.id == "mode_weight" and isinstance(t.comparators[0], ast.Constant)):
                raise Untranslatable(f"{rel}:{t.lineno}: branch test outside the shape: `{ast.unparse(t)[:80]}`")
            out.append(t.comparators[0].value)
        return out

    def action(stmts):
        if len(stmts) == 1 and isinstance(stmts[0], ast.Pass):
            return "keep"
        calls = [n for s in stmts for n in ast.walk(s) if isinstance(n, ast.Call) and isinstance(n.func, ast.Attribute)
                 and isinstance(n.func.value, ast.Name) and n.func.value.id == "self" and n.func.attr == setter]
        if len(calls) != 1 or len(calls[0].args) != 1:
            raise Untranslatable(f"{rel}:{stmts[0].lineno}: branch does not end in one self.{setter}(…)")
        arg = ast.unparse(calls[0].args[0])
        if arg == "None":
            return "reset"
        if arg == "self.option.weights":
            return "option"
        if any(isinstance(s, ast.For) for s in stmts) and isinstance(calls[0].args[0], ast.Name):
            return "computed"
        raise Untranslatable(f"{rel}:{calls[0].lineno}: unrecognised weights argument `{arg}`")
    out = []
    node = body[0]
    while True:
        out.append((modes(node.test), action(node.body)))
        if len(node.orelse) == 1 and isinstance(node.orelse[0], ast.If):
            node = node.orelse[0]
        elif not node.orelse:
            break
        else:
            raise Untranslatable(f"{rel}:{node.lineno}: else branch in _set_weights_by_mode")
    return out


def loss_wiring():
    """self-method calls of set_from_standard_qtomography_option_data in source order, with their guard"""
    f = pytolean.find_def(_cls(_tree(PBL), "ProbabilityBasedLossFunction", PBL), "set_from_standard_qtomography_option_data")
    out = []
    for s in f.body:
        if isinstance(s, ast.Expr) and isinstance(s.value, ast.Constant):
            continue
        if isinstance(s, ast.Expr) and isinstance(s.value, ast.Call) and _self_attr(s.value.func) is not None:
            out.append((s.value.func.attr, "always"))
        elif isinstance(s, ast.If) and isinstance(s.test, ast.Name) and not s.orelse and len(s.body) == 1 \
                and isinstance(s.body[0], ast.Expr) and isinstance(s.body[0].value, ast.Call) \
                and _self_attr(s.body[0].value.func) is not None:
            out.append((s.body[0].value.func.attr, s.test.id))
        elif isinstance(s, ast.Assign) and not any(_self_attr(t) for t in s.targets):
            continue
        else:
            raise Untranslatable(f"{PBL}:{s.lineno}: statement outside the wiring shape: `{ast.unparse(s)[:80]}`")
    return out


def hss_alias_bits():
    """does `convert_var_to_hss` hand back matrices that are views of its parameter `var`?  One bit per branch of
    `if on_para_eq_constraint:`: the last binding of the reshaped name in that branch may alias `var`."""
    f = pytolean.find_def(_tree(MPROC), "convert_var_to_hss")
    top = [s for s in f.body if isinstance(s, ast.If) and isinstance(s.test, ast.Name) and s.test.id == "on_para_eq_constraint"]
    if len(top) != 1 or not top[0].orelse:
        raise Untranslatable(f"{MPROC}:{f.lineno}: expected `if on_para_eq_constraint: … else: …`")
    after = f.body[f.body.index(top[0]) + 1:]
    resh = [n for s in after for n in ast.walk(s) if isinstance(n, ast.Call) and isinstance(n.func, ast.Attribute)
            and n.func.attr == "reshape" and isinstance(n.func.value, ast.Name)]
    if len(resh) != 1:
        raise Untranslatable(f"{MPROC}:{f.lineno}: expected one `<name>.reshape(…)` after the branches")
    name = resh[0].func.value.id
    # the returned list must be built from the reshaped array only (views of it)
    ret = [s for s in f.body if isinstance(s, ast.Return)]
    if len(ret) != 1 or not isinstance(ret[0].value, ast.Name):
        raise Untranslatable(f"{MPROC}:{f.lineno}: return outside the shape")

    def branch_bit(stmts):
        al = {"var"}
        alias = None
        for s in stmts:
            for n in ast.walk(s):
                if isinstance(n, ast.Assign):
                    v = is_view_of(n.value, al)
                    for t in n.targets:
                        if isinstance(t, ast.Name):
                            if v:
                                al.add(t.id)
                            else:
                                al.discard(t.id)
                            if t.id == name:
                                alias = v
        if alias is None:
            raise Untranslatable(f"{MPROC}:{stmts[0].lineno}: `{name}` is not bound in this branch")
        return alias
    # calc_proj_eq_constraint_with_var must really write in place into what it got from convert_var_to_hss
    c = pytolean.find_def(_cls(_tree(MPROC), "MProcess", MPROC), "calc_proj_eq_constraint_with_var")
    src = ast.unparse(c)
    if "convert_var_to_hss(" not in src or not any(isinstance(n, ast.AugAssign) and isinstance(n.target, ast.Subscript)
                                                 for n in ast.walk(c)):
        raise Untranslatable(f"{MPROC}:{c.lineno}: calc_proj_eq_constraint_with_var no longer corrects the rows in place")
    return branch_bit(top[0].body), branch_bit(top[0].orelse)


# ----------------------------------------------------------------------------- emit
def _s(x):
    return '"' + x.replace("\\", "\\\\").replace('"', '\\"') + '"'


def _ls(xs):
    return "[" + ", ".join(_s(x) for x in xs) + "]"


def generate():
    cache_init, getters, deletes, writers = composite_system()
    ow, od, oi, ob, om, oc, oe = object_tables()
    pre, guard, branches = pgd_set_constraint()
    pw = param_writes()
    wse_acc = _accepted_modes(WSE, "WeightedProbabilityBasedSquaredErrorOption")
    wre_acc = _accepted_modes(WRE, "WeightedRelativeEntropyOption")
    wse_br = _mode_branches(WSE, "WeightedProbabilityBasedSquaredError", "set_weight_matrices")
    wre_br = _mode_branches(WRE, "WeightedRelativeEntropy", "set_weights")
    wiring = loss_wiring()
    bit_t, bit_f = hss_alias_bits()
    L = ["/-! GENERATED by harness/c13_translate.py from /repo on every run — do not edit.",
         "Attribute discipline of the classes behind the C13 state machines, read off the source with `ast`. -/",
         "namespace QGen.C13", "",
         "/-- attributes `CompositeSystem.__init__` initialises to `None` -/",
         f"def csCacheInit : List String := {_ls(cache_init)}", "",
         "/-- (method, attribute tested `is None`, attributes assigned on that branch) -/",
         "def csGetters : List (String × String × List String) := ["]
    L += ["  " + ",\n  ".join(f"({_s(m)}, {_s(a)}, {_ls(b)})" for m, a, b in getters) + "]", "",
          "/-- (delete method, attributes it resets to `None`) -/",
          "def csDeletes : List (String × List String) := [",
          "  " + ",\n  ".join(f"({_s(m)}, {_ls(a)})" for m, a in deletes) + "]", "",
          "/-- every method of CompositeSystem that assigns attributes of self (directly or through self-calls) -/",
          "def csWriters : List (String × List String) := [",
          "  " + ",\n  ".join(f"({_s(m)}, {_ls(a)})" for m, a in writers) + "]", "",
          "/-- (class, method, attributes of self it binds) — methods that bind nothing are omitted -/",
          "def objWriters : List (String × String × List String) := [",
          "  " + ",\n  ".join(f"({_s(c)}, {_s(m)}, {_ls(a)})" for c, m, a in ow) + "]", "",
          "/-- (class, method, decorator) other than property / setter / staticmethod / classmethod / abstractmethod -/",
          "def objDecorators : List (String × String × String) := [" +
          ", ".join(f"({_s(c)}, {_s(m)}, {_s(d)})" for c, m, d in od) + "]", "",
          "/-- (class, method, source) of in-place operations on attributes of self -/",
          "def objInplace : List (String × String × String) := [" +
          ",\n  ".join(f"({_s(c)}, {_s(m)}, {_s(e)})" for c, m, e in oi) + "]", "",
          "/-- (class, scanned base classes) -/",
          "def objBases : List (String × List String) := [",
          "  " + ",\n  ".join(f"({_s(c)}, {_ls(b)})" for c, b in ob) + "]", "",
          "/-- (class, names of the methods it defines itself) -/",
          "def objMethods : List (String × List String) := [",
          "  " + ",\n  ".join(f"({_s(c)}, {_ls(m)})" for c, m in om) + "]", "",
          "/-- (class, method, methods it calls on self, methods it calls through `super()`) -/",
          "def objCalls : List (String × String × List String × List String) := [",
          "  " + ",\n  ".join(f"({_s(c)}, {_s(m)}, {_ls([x for x in k if not x.startswith('super:')])}, "
                              f"{_ls([x[6:] for x in k if x.startswith('super:')])})" for c, m, k in oc) + "]", "",
          "/-- (file, function, statement): functions of the numeric packages that may write into something they received as a",
          "parameter (flow-insensitive may-analysis through aliases and views) -/",
          "def paramWrites : List (String × String × String) := [",
          "  " + ",\n  ".join(f"({_s(a)}, {_s(b)}, {_s(c)})" for a, b, c in pw) + "]", "",
          "/-- (class, method, events in evaluation order): (\"w\", attribute bound) | (\"c\", method called on self) |",
          "(\"s\", method called through super()) -/",
          "def objEvents : List (String × String × List (String × String)) := [",
          "  " + ",\n  ".join(f"({_s(c)}, {_s(m)}, [" + ", ".join(f"({_s(k)}, {_s(v)})" for k, v in e) + "])"
                              for c, m, e in oe) + "]", "",
          "/-- mode strings the option constructors accept -/",
          f"def wseAccepted : List String := {_ls(wse_acc)}",
          f"def wreAccepted : List String := {_ls(wre_acc)}",
          "/-- `_set_weights_by_mode`: (mode strings of the branch, action: reset = setter(None), option = setter(self.option.weights),",
          "computed = weights computed from the data, keep = pass) -/",
          "def wseBranches : List (List String × String) := [" + ", ".join(f"({_ls(m)}, {_s(a)})" for m, a in wse_br) + "]",
          "def wreBranches : List (List String × String) := [" + ", ".join(f"({_ls(m)}, {_s(a)})" for m, a in wre_br) + "]",
          "/-- setter calls of `set_from_standard_qtomography_option_data` in source order, with their guard -/",
          "def lossWiring : List (String × String) := [" + ", ".join(f"({_s(m)}, {_s(g)})" for m, g in wiring) + "]", "",
          "/-- `convert_var_to_hss`: may the returned matrices be views of the parameter `var`? (branch on_para_eq_constraint",
          "True, branch False) — `calc_proj_eq_constraint_with_var` corrects their first rows in place -/",
          f"def hssAliasFlagTrue : Bool := {'true' if bit_t else 'false'}",
          f"def hssAliasFlagFalse : Bool := {'true' if bit_f else 'false'}", "",
          "/-- `set_constraint_from_standard_qt_and_option`: attributes assigned before the guard -/",
          f"def pgdPre : List String := {_ls(pre)}",
          "/-- the guard `if self.<a> is not None: return` -/",
          f"def pgdGuard : String := {_s(guard)}",
          "/-- branch table: `some (on_algo_eq_constraint, on_algo_ineq_constraint)` (`none` = else), projection factory, keywords -/",
          "def pgdBranches : List (Option (Bool × Bool) × String × List String) := ["]
    L += ["  " + ",\n  ".join(
        f"({'none' if fl is None else f'some ({str(fl[0]).lower()}, {str(fl[1]).lower()})'}, {_s(fn)}, {_ls(kw)})"
        for fl, (fn, kw) in branches) + "]", "", "end QGen.C13", ""]
    return "\n".join(L)


def translate():
    pytolean.write_if_changed(os.path.join(common.LEAN, "QGen", "C13.lean"), generate())
    return []


if __name__ == "__main__":
    print(generate())
