"""C05 translator fragment: regenerates lean/QGen/C05.lean from quara/objects/qoperation.py on every run (Python `ast`).

Translated: the two branches of the sweep body of `calc_proj_physical` (object level) and `calc_proj_physical_with_var`
(variable level), the Birgin–Raydan stopping value, the `k >= 1` guard, the stop comparison, the branch literal and
which stopping-value function the criterion calls.  Anything outside the small expression grammar raises (the check then
reports a broken obligation).  QProps.C05 proves generated = hand model (`gen_*` theorems), so a source edit of the loop
body breaks a proof obligation, not only the sampled correspondence."""
import ast
import os
from common import REPO, LEAN

VARS = {"x_prev", "p_prev", "q_prev", "y_next", "x_next", "p_next", "q_next"}


class Untranslatable(Exception):
    pass


def _is_self_attr(node, name):
    return isinstance(node, ast.Attribute) and isinstance(node.value, ast.Name) and node.value.id == "self" and node.attr == name


def vec_expr(e):
    """vector-valued expression of the sweep body -> Lean term over Peq / Pineq / Vec.add / Vec.sub"""
    if isinstance(e, ast.Name) and e.id in VARS:
        return e.id
    if isinstance(e, ast.BinOp) and isinstance(e.op, (ast.Add, ast.Sub)):
        return f"(Vec.{'add' if isinstance(e.op, ast.Add) else 'sub'} {vec_expr(e.left)} {vec_expr(e.right)})"
    if isinstance(e, ast.Call) and isinstance(e.func, ast.Attribute):
        f = e.func
        # object level: (E).calc_proj_eq_constraint()
        if f.attr in ("calc_proj_eq_constraint", "calc_proj_ineq_constraint") and not e.args and not e.keywords:
            return f"({'Peq' if f.attr == 'calc_proj_eq_constraint' else 'Pineq'} {vec_expr(f.value)})"
        # variable level: self.calc_proj_*_constraint_with_var(self.composite_system, E, on_para_eq_constraint=False[, eps_truncate...])
        if f.attr in ("calc_proj_eq_constraint_with_var", "calc_proj_ineq_constraint_with_var") and \
                isinstance(f.value, ast.Name) and f.value.id == "self":
            if len(e.args) != 2 or not _is_self_attr(e.args[0], "composite_system"):
                raise Untranslatable(ast.dump(e))
            kws = {k.arg: k.value for k in e.keywords}
            flag = kws.pop("on_para_eq_constraint", None)
            if not (isinstance(flag, ast.Constant) and flag.value is False):
                raise Untranslatable("on_para_eq_constraint must be the literal False: " + ast.dump(e))
            tr = kws.pop("eps_truncate_imaginary_part", None)
            if kws or (tr is not None and not _is_self_attr(tr, "eps_truncate_imaginary_part")):
                raise Untranslatable(ast.dump(e))
            return f"({'Peq' if 'eq_constraint' in f.attr and 'ineq' not in f.attr else 'Pineq'} {vec_expr(e.args[1])})"
    raise Untranslatable(ast.dump(e))


def branch(stmts):
    names, lines = [], []
    for st in stmts:
        if not (isinstance(st, ast.Assign) and len(st.targets) == 1 and isinstance(st.targets[0], ast.Name)):
            raise Untranslatable(ast.dump(st))
        t = st.targets[0].id
        if t not in ("y_next", "p_next", "x_next", "q_next"):
            raise Untranslatable("unexpected target " + t)
        names.append(t)
        lines.append(f"  let {t} := {vec_expr(st.value)}")
    if sorted(names) != ["p_next", "q_next", "x_next", "y_next"]:
        raise Untranslatable("sweep body must assign y_next, p_next, x_next, q_next exactly once: " + str(names))
    return "\n".join(lines) + "\n  (y_next, p_next, x_next, q_next)"


def elem_expr(e):
    """element-wise numpy expression inside np.sum(...) -> Lean term at index i"""
    if isinstance(e, ast.Name):
        return f"{e.id}.get i"
    if isinstance(e, ast.BinOp) and isinstance(e.op, (ast.Add, ast.Sub)):
        return f"({elem_expr(e.left)} {'+' if isinstance(e.op, ast.Add) else '-'} {elem_expr(e.right)})"
    if isinstance(e, ast.BinOp) and isinstance(e.op, ast.Pow) and isinstance(e.right, ast.Constant) and e.right.value == 2:
        a = elem_expr(e.left)
        return f"({a} * {a})"
    raise Untranslatable(ast.dump(e))


def find_method(cls, name):
    for n in cls.body:
        if isinstance(n, ast.FunctionDef) and n.name == name:
            return n
    raise Untranslatable("method not found: " + name)


def sweep_if(fn):
    loops = [n for n in ast.walk(fn) if isinstance(n, ast.For) and isinstance(n.target, ast.Name) and n.target.id == "k"]
    if len(loops) != 1:
        raise Untranslatable(f"{fn.name}: expected exactly one `for k in range(max_iteration)` loop")
    loop = loops[0]
    it = loop.iter
    if not (isinstance(it, ast.Call) and isinstance(it.func, ast.Name) and it.func.id == "range" and len(it.args) == 1
            and isinstance(it.args[0], ast.Name) and it.args[0].id == "max_iteration"):
        raise Untranslatable(f"{fn.name}: loop is not `range(max_iteration)`")
    ifs = [n for n in loop.body if isinstance(n, ast.If) and isinstance(n.test, ast.Compare)
           and _is_self_attr(n.test.left, "mode_proj_order")]
    if len(ifs) != 1:
        raise Untranslatable(f"{fn.name}: expected one `if self.mode_proj_order == ...` in the loop")
    t = ifs[0].test
    if not (len(t.ops) == 1 and isinstance(t.ops[0], ast.Eq) and isinstance(t.comparators[0], ast.Constant)
            and isinstance(t.comparators[0].value, str)):
        raise Untranslatable("branch test is not `self.mode_proj_order == <literal>`")
    guards = [n for n in loop.body if isinstance(n, ast.If) and isinstance(n.test, ast.Compare)
              and isinstance(n.test.left, ast.Name) and n.test.left.id == "k"]
    if len(guards) != 1:
        raise Untranslatable(f"{fn.name}: expected one `if k >= ...` guard")
    gt = guards[0].test
    if not (len(gt.ops) == 1 and isinstance(gt.ops[0], ast.GtE) and isinstance(gt.comparators[0], ast.Constant)
            and isinstance(gt.comparators[0].value, int)):
        raise Untranslatable("guard is not `k >= <int>`")
    # shift block: p_prev = p_next etc. (all four)
    shifts = [n for n in loop.body if isinstance(n, ast.If) and isinstance(n.test, ast.BoolOp)]
    if len(shifts) != 1:
        raise Untranslatable(f"{fn.name}: shift block not found")
    sh = sorted((a.targets[0].id, a.value.id) for a in shifts[0].body
                if isinstance(a, ast.Assign) and isinstance(a.targets[0], ast.Name) and isinstance(a.value, ast.Name))
    if sh != [("p_prev", "p_next"), ("q_prev", "q_next"), ("x_prev", "x_next"), ("y_prev", "y_next")]:
        raise Untranslatable(f"{fn.name}: shift block is {sh}")
    # break on is_stopping
    brk = [n for n in loop.body if isinstance(n, ast.If) and isinstance(n.test, ast.Name) and n.test.id == "is_stopping"
           and len(n.body) == 1 and isinstance(n.body[0], ast.Break)]
    if len(brk) != 1:
        raise Untranslatable(f"{fn.name}: `if is_stopping: break` not found")
    return t.comparators[0].value, branch(ifs[0].body), branch(ifs[0].orelse), gt.comparators[0].value


def init_warn_return(fn):
    """initialisation of p, q, x before the loop, the warning condition after it and the variable returned"""
    init = {}
    for st in fn.body:
        if isinstance(st, ast.For):
            break
        if isinstance(st, ast.Assign) and len(st.targets) == 1 and isinstance(st.targets[0], ast.Name) \
                and st.targets[0].id in ("p_prev", "q_prev", "x_prev"):
            u = ast.unparse(st.value)
            if u in ("self.generate_zero_obj()", "self.generate_zero_obj().to_stacked_vector()"):
                init[st.targets[0].id] = "Vec.zero"
            elif u == "self.copy()" or u.startswith("self.convert_var_to_stacked_vector(self.composite_system, var"):
                init[st.targets[0].id] = "x0"
            else:
                raise Untranslatable(f"{fn.name}: initialisation of {st.targets[0].id}: {u}")
    if sorted(init) != ["p_prev", "q_prev", "x_prev"]:
        raise Untranslatable(f"{fn.name}: p_prev, q_prev, x_prev must be initialised before the loop: {init}")
    warns = [n for n in fn.body if isinstance(n, ast.If) and isinstance(n.test, ast.Compare) and isinstance(n.test.left, ast.Name)
             and n.test.left.id == "k"]
    if len(warns) != 1:
        raise Untranslatable(f"{fn.name}: warning condition after the loop not found")
    wt = warns[0].test
    if not (len(wt.ops) == 1 and isinstance(wt.ops[0], ast.Eq) and ast.unparse(wt.comparators[0]) == "max_iteration - 1"):
        raise Untranslatable(f"{fn.name}: warning condition is not `k == max_iteration - 1`: " + ast.unparse(wt))
    rets = set()
    for n in ast.walk(fn):
        if isinstance(n, ast.Return) and n.value is not None:
            v = n.value.elts[0] if isinstance(n.value, ast.Tuple) else n.value
            if not isinstance(v, ast.Name):
                raise Untranslatable(f"{fn.name}: return value {ast.unparse(n.value)}")
            rets.add(v.id)
    if len(rets) != 1:
        raise Untranslatable(f"{fn.name}: returns {rets}")
    ret = rets.pop()
    # the variable-level routine converts the returned stacked vector back to variables under the same name
    conv = [st for st in fn.body if isinstance(st, ast.Assign) and isinstance(st.targets[0], ast.Name) and st.targets[0].id == ret
            and "convert_stacked_vector_to_var" in ast.unparse(st.value)]
    for st in conv:
        args = st.value.args
        if not (len(args) == 2 and isinstance(args[1], ast.Name) and args[1].id == ret):
            raise Untranslatable(f"{fn.name}: conversion of the returned vector: {ast.unparse(st)}")
    if ret not in ("x_next", "y_next", "p_next", "q_next"):
        raise Untranslatable(f"{fn.name}: returns {ret}")
    return init, ret


def translate():
    src = open(os.path.join(REPO, "quara", "objects", "qoperation.py")).read()
    tree = ast.parse(src)
    cls = [n for n in tree.body if isinstance(n, ast.ClassDef) and n.name == "QOperation"][0]
    lit_o, o_then, o_else, g_o = sweep_if(find_method(cls, "calc_proj_physical"))
    lit_v, v_then, v_else, g_v = sweep_if(find_method(cls, "calc_proj_physical_with_var"))
    init_o, ret_o = init_warn_return(find_method(cls, "calc_proj_physical"))
    init_v, ret_v = init_warn_return(find_method(cls, "calc_proj_physical_with_var"))
    if init_o != init_v or ret_o != ret_v:
        raise Untranslatable("object-level and variable-level routines differ in initialisation / returned variable")
    if lit_o != lit_v or g_o != g_v:
        raise Untranslatable("object-level and variable-level routines use different branch literals / guards")
    # stopping value and comparison
    crit = find_method(cls, "_is_satisfied_stopping_criterion_birgin_raydan_vectors")
    calls = [n for n in ast.walk(crit) if isinstance(n, ast.Call) and isinstance(n.func, ast.Attribute)
             and n.func.attr.startswith("_calc_stopping_criterion")]
    if len(calls) != 1:
        raise Untranslatable("criterion must call exactly one _calc_stopping_criterion_* function")
    valfn = find_method(cls, calls[0].func.attr)
    assigns = [n for n in valfn.body if isinstance(n, ast.Assign) and isinstance(n.targets[0], ast.Name) and n.targets[0].id == "val"]
    if len(assigns) != 1:
        raise Untranslatable("stopping value: expected one `val = ...`")
    v = assigns[0].value
    if not (isinstance(v, ast.Call) and isinstance(v.func, ast.Attribute) and v.func.attr == "sum"
            and isinstance(v.func.value, ast.Name) and v.func.value.id == "np" and len(v.args) == 1 and not v.keywords):
        raise Untranslatable("stopping value is not np.sum(<elementwise>): " + ast.dump(v))
    err = elem_expr(v.args[0])
    ifs = [n for n in crit.body if isinstance(n, ast.If)]
    if len(ifs) != 1 or not isinstance(ifs[0].test, ast.Compare):
        raise Untranslatable("criterion: expected one comparison")
    ct = ifs[0].test
    ops = {ast.Lt: "<", ast.LtE: "≤"}
    if not (isinstance(ct.left, ast.Name) and ct.left.id == "error_value" and len(ct.ops) == 1 and type(ct.ops[0]) in ops
            and isinstance(ct.comparators[0], ast.Name) and ct.comparators[0].id == "eps_proj_physical"):
        raise Untranslatable("criterion comparison is not `error_value < eps_proj_physical`")
    ret_t = ifs[0].body[0].value.elts[0].value if isinstance(ifs[0].body[0], ast.Return) else None
    ret_f = ifs[0].orelse[0].value.elts[0].value if ifs[0].orelse and isinstance(ifs[0].orelse[0], ast.Return) else None
    if ret_t is not True or ret_f is not False:
        raise Untranslatable("criterion must return (True, e) when the comparison holds and (False, e) otherwise")
    hdr = "(Peq Pineq : Vec R N → Vec R N) (x_prev p_prev q_prev : Vec R N) :\n    Vec R N × Vec R N × Vec R N × Vec R N :="
    out = f'''import QModel.Core
/-! GENERATED by harness/c05_translate.py from quara/objects/qoperation.py on every run — do not edit.
Sweep bodies of `calc_proj_physical` (obj) / `calc_proj_physical_with_var` (var), both branches of
`if self.mode_proj_order == {lit_o!r}`, stopping value `{calls[0].func.attr}`, guard and comparison. -/
namespace QGen.C05
open QM
variable {{R : Type}} [Add R] [Sub R] [Mul R] [Zero R] {{N : Nat}}

def branchLiteral : String := "{lit_o}"
def guardFrom : Nat := {g_o}

def objThen {hdr}
{o_then}

def objElse {hdr}
{o_else}

def varThen {hdr}
{v_then}

def varElse {hdr}
{v_else}

def stopValue (p_prev p_next q_prev q_next : Vec R N) : R :=
  fsum N fun i => {err}

/-- `(x_prev, p_prev, q_prev)` before the loop (`x0` = the input, `Vec.zero` = `generate_zero_obj()`) -/
def init (x0 : Vec R N) : Vec R N × Vec R N × Vec R N := ({init_o["x_prev"]}, {init_o["p_prev"]}, {init_o["q_prev"]})

/-- the variable returned after the loop -/
def returned (y_next p_next x_next q_next : Vec R N) : Vec R N := {ret_o}

/-- `if k == max_iteration - 1:` (warning) -/
def warns (k max_iteration : Nat) : Bool := k == max_iteration - 1

def stops [LT R] [DecidableRel (α := R) (· < ·)] [LE R] [DecidableRel (α := R) (· ≤ ·)] (error_value eps_proj_physical : R) : Bool :=
  decide (error_value {ops[type(ct.ops[0])]} eps_proj_physical)

end QGen.C05
'''
    path = os.path.join(LEAN, "QGen", "C05.lean")
    if not os.path.exists(path) or open(path).read() != out:
        open(path, "w").write(out)
    return []
