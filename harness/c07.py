"""C07 — tensor products and embeddings respect subsystem structure.

correspondence: `_K`, `_left_permutation_matrix`, `_check_cross_system_position`, `calc_permutation_matrix`,
`convert_list_by_permutation_matrix`, `_tensor_product_hs_hs`, `tensor_product` for every accepted object pair
(every permutation of subsystem names, every grouping), `_permutation_matrix_from_qutrits_to_qubits`,
`_calc_matrix_from_qutrits_to_qubits` against QModel.C07.
oracle: on the real code, every permutation and grouping of 2–4 factors on subsystems of dimension 2/3 against
the Kronecker product of the factors' operators in ascending name order computed independently in numpy
(density matrices / POVM elements / Kraus operators), outcome layout against the reported shape, product
statistics; embedding qutrit -> two qubits against the isometry V: physicality and statistics."""
import itertools
import numpy as np
import shim  # noqa: F401
from common import Driver, q, qlist, ilist, unqlist, unilist, allclose
import qobj
from quara.objects import matrix_basis as mb
from quara.objects.composite_system import CompositeSystem
from quara.objects.elemental_system import ElementalSystem
from quara.objects.operators import tensor_product, _tensor_product, _tensor_product_hs_hs, compose_qoperations
from quara.objects.state import State
from quara.objects.povm import Povm
from quara.objects.gate import Gate
from quara.objects.mprocess import MProcess
from quara.objects.state_ensemble import StateEnsemble
from quara.objects.multinomial_distribution import MultinomialDistribution
from quara.objects.qoperation import QOperation
from quara.utils import matrix_util as mu

TOL = 1e-9
TNAME = {State: "State", Gate: "Gate", Povm: "Povm", MProcess: "MProcess", StateEnsemble: "StateEnsemble"}


# ----------------------------------------------------------------------------- subsystems
def basis_of(dim):
    b = mb.get_normalized_pauli_basis() if dim == 2 else mb.get_normalized_gell_mann_basis()
    return b


def dense(b):
    return [np.array(x.toarray() if hasattr(x, "toarray") else x, dtype=np.complex128) for x in b]


_BAS = {}


def local_basis(dim):
    if dim not in _BAS:
        _BAS[dim] = np.array(dense(basis_of(dim)))
    return _BAS[dim]


def prod_basis(dims):
    """product basis of subsystems (already in ascending name order), built independently with numpy"""
    B = local_basis(dims[0])
    for d in dims[1:]:
        C = local_basis(d)
        B = np.array([np.kron(x, y) for x in B for y in C])
    return B


def vec_in(B, mat):
    return np.einsum("aij,ij->a", B.conj(), mat).real.astype(np.float64)


def mat_in(B, vec):
    return np.einsum("a,aij->ij", np.asarray(vec, dtype=np.float64), B)


def hs_in(B, kraus):
    n = len(B)
    out = np.zeros((n, n))
    for k in kraus:
        kb = np.einsum("ij,bjk,lk->bil", k, B, k.conj())
        out += np.einsum("aij,bij->ab", B.conj(), kb).real
    return out


def kron_all(ms):
    out = ms[0]
    for m in ms[1:]:
        out = np.kron(out, m)
    return out


class Factor:
    """one factor on one elemental system with its operator-level description"""

    def __init__(self, kind, esys, obj, ops, counts):
        self.kind, self.esys, self.obj, self.ops, self.counts = kind, esys, obj, ops, counts
        # ops: 'S' density matrix; 'P' list of effects; 'G' list of Kraus; 'M' list (outcome) of Kraus lists;
        # 'E' list of (p, density)


def make_factor(g, kind, name, dim, m, t=0):
    e = ElementalSystem(name, basis_of(dim))
    c = CompositeSystem([e])
    B = local_basis(dim)
    if kind == "S":
        rho = qobj.rand_density(g, dim, rank=[None, 1][t % 2])
        return Factor("S", e, State(c, vec_in(B, rho)), rho, [])
    if kind == "P":
        mats = qobj.rand_povm_mats(g, dim, m, rank=[None, 1][t % 2] if m >= dim else None)
        return Factor("P", e, Povm(c, [vec_in(B, x) for x in mats]), mats, [m])
    if kind == "G":
        ks = qobj.rand_kraus(g, dim, 1, 1 + t % 2)[0]
        return Factor("G", e, Gate(c, hs_in(B, ks)), ks, [])
    if kind == "M":
        groups = qobj.rand_kraus(g, dim, m, 1)
        return Factor("M", e, MProcess(c, [hs_in(B, ks) for ks in groups]), groups, [m])
    if kind == "E":
        groups = qobj.rand_kraus(g, dim, m, 1)
        rho = qobj.rand_density(g, dim)
        M = MProcess(c, [hs_in(B, ks) for ks in groups])
        ens = compose_qoperations(M, State(c, vec_in(B, rho)))
        items = []
        for ks in groups:
            r = sum(k @ rho @ k.conj().T for k in ks)
            p = np.trace(r).real
            items.append((p, r / p))
        return Factor("E", e, ens, items, [m])
    raise ValueError(kind)


# ----------------------------------------------------------------------------- reference semantics
class Ref:
    """operator-level value of a (partial) tensor product: subsystem list in ARGUMENT order with, per
    subsystem, its operator description; kind-specific outcome bookkeeping"""

    def __init__(self, kind, parts):
        self.kind = kind          # result kind S P G M E
        self.parts = parts        # list of Factor in argument order


def ref_join(a, b):
    ka, kb = a.kind, b.kind
    table = {("S", "S"): "S", ("P", "P"): "P", ("G", "G"): "G", ("G", "M"): "M", ("M", "G"): "M", ("M", "M"): "M",
             ("S", "E"): "E", ("E", "S"): "E", ("E", "E"): "E"}
    if (ka, kb) not in table:
        return None
    return Ref(table[(ka, kb)], a.parts + b.parts)


def sorted_parts(parts):
    return sorted(parts, key=lambda f: f.esys.name)


def check_ref(obj, ref, tol=1e-8):
    """None or (aspect, message)"""
    parts = ref.parts
    sp = sorted_parts(parts)
    names = [f.esys.name for f in sp]
    dims = [f.esys.dim for f in sp]
    got_names = [e.name for e in obj.composite_system.elemental_systems] if type(obj) != StateEnsemble else None
    if got_names is not None and got_names != names:
        return ("system-order", f"composite system order {got_names}, expected ascending {names}")
    B = prod_basis(dims)
    if ref.kind == "S":
        if type(obj) != State:
            return ("type", type(obj).__name__)
        exp = kron_all([f.ops for f in sp])
        if len(obj.vec) != len(B) or not np.allclose(mat_in(B, obj.vec), exp, atol=tol):
            return ("value", "density matrix is not the Kronecker product of the factors in ascending name order")
        return None
    if ref.kind == "G":
        if type(obj) != Gate:
            return ("type", type(obj).__name__)
        ks = [kron_all(list(c)) for c in itertools.product(*[f.ops for f in sp])]
        if obj.hs.shape != (len(B), len(B)) or not np.allclose(obj.hs, hs_in(B, ks), atol=tol):
            return ("value", "HS matrix is not that of the Kronecker product of the Kraus operators in ascending name order")
        return None
    if ref.kind == "P":
        if type(obj) != Povm:
            return ("type", type(obj).__name__)
        exp_nums = [f.counts[0] for f in sp]
        if list(obj.nums_local_outcomes) != exp_nums:
            return ("shape", f"nums_local_outcomes {list(obj.nums_local_outcomes)}, expected {exp_nums} (ascending name order)")
        exp = [kron_all(list(c)) for c in itertools.product(*[f.ops for f in sp])]
        got = [mat_in(B, v) for v in obj.vecs]
        if len(got) != len(exp):
            return ("value", "number of elements")
        if not all(np.allclose(a, b, atol=tol) for a, b in zip(got, exp)):
            perm = all(any(np.allclose(a, b, atol=tol) for b in exp) for a in got)
            return ("layout" if perm else "value", "POVM elements are not laid out as nums_local_outcomes says"
                    if perm else "POVM elements are not the Kronecker products of the factors' elements")
        return None
    if ref.kind == "M":
        if type(obj) != MProcess:
            return ("type", type(obj).__name__)
        mparts = [f for f in parts if f.kind == "M"]
        exp_shape = tuple(f.counts[0] for f in mparts)     # argument order
        if tuple(obj.shape) != exp_shape:
            return ("shape", f"shape {tuple(obj.shape)}, expected {exp_shape} (argument order)")
        exp = []
        for idx in itertools.product(*[range(f.counts[0]) for f in mparts]):
            sel = dict(zip([id(f) for f in mparts], idx))
            per = [f.ops[sel[id(f)]] if f.kind == "M" else f.ops for f in sp]
            ks = [kron_all(list(c)) for c in itertools.product(*per)]
            exp.append(hs_in(B, ks))
        if len(obj.hss) != len(exp):
            return ("value", "number of HS matrices")
        if not all(np.allclose(a, b, atol=tol) for a, b in zip(obj.hss, exp)):
            perm = all(any(np.allclose(a, b, atol=tol) for b in exp) for a in obj.hss)
            return ("layout" if perm else "value",
                    "HS matrices are the right products but not laid out as the reported shape says"
                    if perm else "HS matrices are not those of the Kronecker products of the factors")
        return None
    if ref.kind == "E":
        if type(obj) != StateEnsemble:
            return ("type", type(obj).__name__)
        eparts = [f for f in parts if f.kind == "E"]
        exp_shape = tuple(f.counts[0] for f in eparts)
        if tuple(obj.prob_dist.shape) != exp_shape:
            return ("shape", f"shape {tuple(obj.prob_dist.shape)}, expected {exp_shape}")
        k = 0
        for idx in itertools.product(*[range(f.counts[0]) for f in eparts]):
            sel = dict(zip([id(f) for f in eparts], idx))
            p = np.prod([f.ops[sel[id(f)]][0] for f in eparts])
            rho = kron_all([f.ops[sel[id(f)]][1] if f.kind == "E" else f.ops for f in sp])
            st = obj.states[k]
            if [e.name for e in st.composite_system.elemental_systems] != names:
                return ("system-order", "ensemble state system order")
            if abs(obj.prob_dist.ps[k] - p) > tol or not np.allclose(mat_in(B, st.vec), rho, atol=tol):
                return ("value", f"ensemble entry {idx} is not the product state / product probability")
            k += 1
        return None
    return ("type", "no reference")


# ----------------------------------------------------------------------------- groupings
def trees(lo, hi):
    if hi - lo == 1:
        return [lo]
    out = []
    for mid in range(lo + 1, hi):
        for l in trees(lo, mid):
            for r in trees(mid, hi):
                out.append((l, r))
    return out


def rpn(t):
    if isinstance(t, int):
        return [str(t)]
    return rpn(t[0]) + rpn(t[1]) + ["x"]


def tstr(t):
    return str(t).replace(" ", "")


def eval_tree(t, objs):
    if isinstance(t, int):
        return objs[t]
    return _tensor_product(eval_tree(t[0], objs), eval_tree(t[1], objs))


def perm_failure_sig(e_list):
    """when a tensor node raised: does calc_permutation_matrix itself fail for this system order?"""
    order = [e.name for e in e_list]
    sizes = [e.dim ** 2 for e in e_list]
    try:
        mu.calc_permutation_matrix(order, sizes)
        return None
    except Exception as e:  # noqa
        return f"C07/calc_permutation_matrix/raises-{type(e).__name__}"


def esys_list(obj):
    if type(obj) == StateEnsemble:
        return list(obj.states[0].composite_system.elemental_systems)
    return list(obj.composite_system.elemental_systems)


def oracle_node(ctx, t, factors, rep):
    if isinstance(t, int):
        f = factors[t]
        return f.obj, Ref(f.kind, [f])
    a, ra = oracle_node(ctx, t[0], factors, rep)
    b, rb = oracle_node(ctx, t[1], factors, rep)
    if a is None or b is None:
        return None, None
    pair = f"{TNAME.get(type(a), '?')}-{TNAME.get(type(b), '?')}"
    ref = ref_join(ra, rb)
    r = dict(rep, node=tstr(t), pair=pair)
    try:
        obj = _tensor_product(a, b)
    except Exception as e:  # noqa
        sig = perm_failure_sig(esys_list(a) + esys_list(b)) or f"C07/tensor/{pair}/raises"
        ctx.violate(sig, f"{type(e).__name__}: {str(e)[:120]} at node {tstr(t)}; system order "
                         f"{[x.name for x in esys_list(a) + esys_list(b)]}, dims {[x.dim for x in esys_list(a) + esys_list(b)]}", r)
        return None, None
    bad = check_ref(obj, ref)
    if bad:
        ctx.violate(f"C07/tensor/{pair}/{bad[0]}", f"{bad[1]} (node {tstr(t)}, names {rep['names']}, dims {rep['dims']}, "
                                                   f"outcome counts {rep['counts']})", r)
        return None, None
    if type(obj) != StateEnsemble and not obj.is_physical(1e-9, 1e-9):
        ctx.violate(f"C07/tensor/{pair}/physical", "physical factors, non-physical product", r)
        return None, None
    return obj, ref


# ----------------------------------------------------------------------------- plans
def config_plan(ctx, volume=1):
    """(type string, names, dims) deterministic list; names are distinct, not necessarily 0..k-1.
    `_tensor_product_hs_hs` materialises a (d1·d2)² × (d1·d2)² matrix (134 MB for three qubits, 344 MB for two
    qutrits), so gate-like products of three subsystems / two qutrits are rationed."""
    g = ctx.npgen(7)
    plan = []
    quick = ctx.quick and volume == 1
    type_sets = {2: ["SS", "PP", "GG", "GM", "MG", "MM", "SE", "ES", "EE"],
                 3: ["SSS", "PPP", "GGG", "GMG", "SES", "EES", "EEE"] + ([] if quick else ["MMM", "MGM"]),
                 4: ["SSSS", "PPPP", "SESE"]}
    for k in (2, 3, 4):
        for ts in type_sets[k]:
            heavy = any(c in "GM" for c in ts)
            reps = (1 if (quick or (heavy and k == 3)) else 2) * volume
            for rpt in range(reps):
                names = sorted(int(x) for x in g.choice(9, size=k, replace=False))
                if k == 4:
                    dims = [2, 2, 2, 2] if (quick or rpt == 0) else [2, 3, 2, 2]
                elif k == 3:
                    dims = [2, 2, 2] if (heavy or (quick and rpt == 0)) else [[2, 3, 2], [3, 2, 2], [2, 2, 3]][int(g.integers(0, 3))]
                else:
                    pool = [[2, 3], [3, 2], [2, 2]] + ([[3, 3]] if (not heavy or (not quick and ts == "GG")) else [])
                    dims = pool[(len(plan) + rpt) % len(pool)]
                plan.append((ts, names, dims))
    return plan


def counts_for(k, g):
    ms = [2, 3, 4, 2]
    if k <= 3:
        ms = list(g.permutation([2, 3, 4]))[:k]
    return [int(m) for m in ms]


def arrangements(k, quick, g):
    """(argument order, grouping) pairs: all of them for k <= 3, a spread for k = 4 in the quick tier"""
    out = []
    for perm in itertools.permutations(range(k)):
        for tr in trees(0, k):
            out.append((perm, tr))
    if k == 4 and quick:
        idx = sorted(set(int(i) for i in g.choice(len(out), size=14, replace=False)) | {0, len(out) - 1})
        out = [out[i] for i in idx]
    return out


# ----------------------------------------------------------------------------- encoding for the model
def enc_sys(c_sys):
    return ",".join(f"{e.name}:{e.dim}" for e in c_sys.elemental_systems)


def enc(obj):
    if type(obj) == State:
        return f"S;{enc_sys(obj.composite_system)};{qlist(obj.vec)}"
    if type(obj) == Gate:
        return f"G;{enc_sys(obj.composite_system)};{obj.hs.shape[0]};{qlist(obj.hs.flatten())}"
    if type(obj) == Povm:
        return (f"P;{enc_sys(obj.composite_system)};{ilist(obj.nums_local_outcomes)};{len(obj.vecs)};{len(obj.vecs[0])};"
                f"{qlist(np.concatenate(obj.vecs))}")
    if type(obj) == MProcess:
        return (f"M;{enc_sys(obj.composite_system)};{ilist(obj.shape)};{len(obj.hss)};{obj.hss[0].shape[0]};"
                f"{qlist(np.concatenate([h.flatten() for h in obj.hss]))}")
    if type(obj) == StateEnsemble:
        d = obj.prob_dist
        return (f"E;{enc_sys(obj.states[0].composite_system)};{ilist(d.shape)};{qlist(d.ps)};"
                f"{'true' if d.is_zero_dist else 'false'};{len(obj.states)};{len(obj.states[0].vec)};"
                f"{qlist(np.concatenate([s.vec for s in obj.states]))}")
    raise TypeError(type(obj))


def canon(obj):
    if type(obj) == State:
        return ("S", (enc_sys(obj.composite_system),), list(obj.vec))
    if type(obj) == Gate:
        return ("G", (enc_sys(obj.composite_system), obj.hs.shape[0]), list(obj.hs.flatten()))
    if type(obj) == Povm:
        return ("P", (enc_sys(obj.composite_system), tuple(obj.nums_local_outcomes), len(obj.vecs)), list(np.concatenate(obj.vecs)))
    if type(obj) == MProcess:
        return ("M", (enc_sys(obj.composite_system), tuple(obj.shape), len(obj.hss)),
                list(np.concatenate([h.flatten() for h in obj.hss])))
    if type(obj) == StateEnsemble:
        d = obj.prob_dist
        return ("E", (tuple(d.shape), bool(d.is_zero_dist), len(obj.states),
                      tuple(enc_sys(s.composite_system) for s in obj.states)),
                list(d.ps) + list(np.concatenate([s.vec for s in obj.states])))
    return ("?", (type(obj).__name__,), [])


def fl(s):
    return [float(x) for x in unqlist(s)]


def parse_reply(line):
    t = line.split()
    if t[0] == "err":
        return ("err", t[1])
    if t[0] != "ok":
        return ("bad", line[:80])
    k = t[1]
    if k == "S":
        return ("S", (t[2],), fl(t[3]))
    if k == "G":
        return ("G", (t[2], int(t[3])), fl(t[4]))
    if k == "P":
        return ("P", (t[2], tuple(unilist(t[3])), int(t[4])), fl(t[5]))
    if k == "M":
        return ("M", (t[2], tuple(unilist(t[3])), int(t[4])), fl(t[5]))
    if k == "E":
        # E shape isZero ps n syslist states ; syslist is a comma list of comma lists -> compare loosely
        return ("E", (tuple(unilist(t[2])), t[3] == "true", int(t[5])), fl(t[4]) + fl(t[7]), t[6])
    return ("bad", line[:80])


def err_kind(e):
    m = str(e)
    if isinstance(e, TypeError):
        return "type"
    if isinstance(e, IndexError):
        return "index"
    if "Duplicate ElementalSystem" in m:
        return "dupName"
    if "matmul" in m or "shapes" in m or "reshape" in m or "size" in m:
        return "shape"
    if "at least two" in m:
        return "tooFew"
    return type(e).__name__


def same(impl, model):
    if impl[0] == "err" or model[0] == "err":
        return impl[0] == model[0] and impl[1] == model[1]
    if impl[0] != model[0]:
        return False
    if impl[0] == "E":
        syss = ",".join(impl[1][3])
        return impl[1][:3] == model[1] and syss == model[3] and allclose(impl[2], model[2], TOL)
    return tuple(impl[1]) == tuple(model[1]) and allclose(impl[2], model[2], TOL)


def impl_or_err(fn):
    try:
        return fn()
    except Exception as e:  # noqa
        return ("err", err_kind(e))


# ----------------------------------------------------------------------------- correspondence
def correspondence(ctx):
    drv = Driver("C07")
    pend = []
    g = ctx.npgen(1)

    def mat_reply(m):
        return ("ok", m.shape[0], m.shape[1], [int(round(x)) for x in m.flatten()])

    # --- _K, _left_permutation_matrix, _check_cross_system_position
    for a in range(1, 5):
        for b in range(1, 5):
            pend.append(("K", (a, b), mat_reply(mu._K(a, b)), drv.ask("K", a, b)))
            ctx.case(("K", a, b), nontrivial=a > 1 and b > 1)
    size_pool = [2, 3, 4]
    for k in (2, 3, 4):
        for sizes in itertools.product(size_pool, repeat=k):
            if np.prod(sizes) > 64 or (ctx.quick and g.random() < 0.5):
                continue
            for pos in range(1, k):
                impl = impl_or_err(lambda: mat_reply(mu._left_permutation_matrix(pos, list(sizes))))
                pend.append(("leftperm", (pos, sizes), impl, drv.ask("leftperm", pos, ilist(sizes))))
                ctx.case(("leftperm", pos, sizes))
    for k in (1, 2, 3, 4, 5):
        for order in itertools.permutations(range(k)):
            if k == 5 and g.random() < 0.8:
                continue
            names = [3 * x + 1 for x in order]
            r = mu._check_cross_system_position(list(names))
            pend.append(("cross", names, "ok none" if r is None else f"ok {r}", drv.ask("cross", ilist(names))))
            ctx.case(("cross", tuple(names)), nontrivial=r is not None)
    # --- calc_permutation_matrix: every order of 2..4 systems (5: verdict only), sizes 2/3/4/9
    for k in (2, 3, 4):
        size_sets = [tuple(g.choice([2, 3, 4], size=k)) for _ in range(2 if ctx.quick else 6)] + [tuple([2] * k), tuple([4] * k)]
        for sizes in size_sets:
            sizes = [int(s) for s in sizes]
            for order in itertools.permutations(range(k)):
                names = [2 * x + 1 for x in order]
                full = np.prod(sizes) <= 64
                if full:
                    impl = impl_or_err(lambda: mat_reply(mu.calc_permutation_matrix(list(names), list(sizes))))
                    pend.append(("calcperm", (names, sizes), impl, drv.ask("calcperm", ilist(names), ilist(sizes))))
                else:
                    def f():
                        m = mu.calc_permutation_matrix(list(names), list(sizes))
                        return ("ok", m.shape[0], m.shape[1])
                    pend.append(("calcpermdim", (names, sizes), impl_or_err(f), drv.ask("calcpermdim", ilist(names), ilist(sizes))))
                ctx.case(("calcperm", tuple(names), tuple(sizes)), nontrivial=list(order) != sorted(order),
                         sample={"op": "calc_permutation_matrix", "order": names, "sizes": sizes})
                ctx.count(f"calcperm k={k}")
                # convert_list_by_permutation_matrix
                if full:
                    old = list(range(100, 100 + int(np.prod(sizes))))
                    impl = impl_or_err(lambda: ("ok", mu.convert_list_by_permutation_matrix(old, mu.calc_permutation_matrix(list(names), list(sizes)))))
                    pend.append(("convert", (names, sizes), impl, drv.ask("convert", ilist(names), ilist(sizes), ilist(old))))
    # --- _tensor_product_hs_hs without the system permutation (names ascending)
    for (d1, d2) in ([(2, 2), (2, 3)] if ctx.quick else [(2, 2), (2, 3), (3, 2), (3, 3)]):
        e1, e2 = ElementalSystem(0, basis_of(d1)), ElementalSystem(1, basis_of(d2))
        A = qobj.dyadic(g, (d1 * d1, d1 * d1), bits=6)
        Bm = qobj.dyadic(g, (d2 * d2, d2 * d2), bits=6)
        impl = _tensor_product_hs_hs(A, Bm, [e1, e2])
        pend.append(("hshs", (d1, d2), ("ok", impl.shape[0], list(impl.flatten())),
                     drv.ask("hshs", d1 * d1, d2 * d2, qlist(A.flatten()), qlist(Bm.flatten()))))
        ctx.case(("hshs", d1, d2))
    # --- tensor_product on objects
    for ts, names, dims in config_plan(ctx):
        k = len(ts)
        counts = counts_for(k, g)
        factors = [make_factor(g, ts[i], names[i], dims[i], counts[i], t=i) for i in range(k)]
        arr = arrangements(k, ctx.quick, g)
        if k == 3 and any(c in "GM" for c in ts):
            arr = [arr[1], arr[-2]] if ctx.quick else arr[1::4]
        if k == 4 and not ctx.quick:
            arr = arr[::4]
        for perm, tr in arr:
            objs = [factors[i].obj for i in perm]
            impl = impl_or_err(lambda: canon(eval_tree(tr, objs)))
            pend.append(("tensor", {"types": ts, "names": [names[i] for i in perm], "dims": [dims[i] for i in perm], "tree": tstr(tr)},
                         impl, drv.ask("tensor", k, *[enc(o) for o in objs], *rpn(tr))))
            ctx.count(f"tensor {ts} -> {impl[0]}{':' + impl[1] if impl[0] == 'err' else ''}")
            ctx.case(("tensor", ts, tuple(names), tuple(dims), perm, tstr(tr)), nontrivial=list(perm) != sorted(perm),
                     sample={"op": "tensor", "types": ts, "names": [names[i] for i in perm], "grouping": tstr(tr)})
        # the public left fold on one order
        perm = arr[len(arr) // 2][0]
        objs = [factors[i].obj for i in perm]
        impl = impl_or_err(lambda: canon(tensor_product(*objs)))
        pend.append(("fold", {"types": ts, "names": [names[i] for i in perm]}, impl, drv.ask("fold", *[enc(o) for o in objs])))
    # --- error branches: duplicate names, unsupported pairs
    f1 = make_factor(g, "S", 1, 2, 2)
    f2 = make_factor(g, "S", 1, 2, 2)
    f3 = make_factor(g, "P", 2, 2, 2)
    f4 = make_factor(g, "G", 3, 2, 2)
    for x, y in ((f1, f2), (f1, f3), (f3, f4), (f4, f1), (f3, f1)):
        impl = impl_or_err(lambda: canon(_tensor_product(x.obj, y.obj)))
        pend.append(("tensor", {"pair": x.kind + y.kind}, impl, drv.ask("tensor", 2, enc(x.obj), enc(y.obj), "0", "1", "x")))
        ctx.case(("errpair", x.kind, y.kind), nontrivial=False)
    # --- embedding kernels
    for num in (1, 2):
        P = QOperation._permutation_matrix_from_qutrits_to_qubits(num)
        idx = [int(np.argmax(P[i])) for i in range(4 ** num)]
        ok = bool(np.all(P.sum(axis=1) == 1))
        pend.append(("embedindex", num, ("ok", idx) if ok else ("err", "notperm"), drv.ask("embedindex", num)))
        for t in range(3 if ctx.quick else 10):
            if num == 2 and t > 0 and ctx.quick:
                break
            mat = qobj.dyadic(g, (3 ** num, 3 ** num), bits=6)
            coeff = [0.0, 0.5, 0.25][t % 3]
            out = QOperation._calc_matrix_from_qutrits_to_qubits(num, P, mat, coeff)
            pend.append(("embed", (num, coeff), ("ok", list(out.flatten())), drv.ask("embed", num, q(coeff), qlist(mat.flatten()))))
            ctx.case(("embed", num, t))

    out = drv.run(timeout=3000)
    for op, inp, impl, i in pend:
        ctx.corr_ops.add(op)
        line = out[i]
        t = line.split()
        ok = False
        if op in ("K", "leftperm", "calcperm"):
            if impl[0] == "err":
                ok = t[0] == "err" and t[1] == impl[1]
            else:
                ok = t[0] == "ok" and int(t[1]) == impl[1] and int(t[2]) == impl[2] and unilist(t[3]) == impl[3]
        elif op == "calcpermdim":
            ok = (t[0] == "err" and impl[0] == "err" and t[1] == impl[1]) or \
                 (t[0] == "ok" and impl[0] == "ok" and (int(t[1]), int(t[2])) == (impl[1], impl[2]))
        elif op == "cross":
            ok = line == impl
        elif op == "convert":
            ok = (t[0] == "err" and impl[0] == "err" and t[1] == impl[1]) or \
                 (t[0] == "ok" and impl[0] == "ok" and t[1] == ilist(impl[1]))
        elif op == "hshs":
            ok = t[0] == "ok" and int(t[1]) == impl[1] and allclose(fl(t[2]), impl[2], TOL)
        elif op in ("tensor", "fold"):
            ok = same(impl, parse_reply(line))
        elif op == "embedindex":
            ok = t[0] == "ok" and impl[0] == "ok" and unilist(t[1]) == impl[1]
        elif op == "embed":
            ok = t[0] == "ok" and allclose(fl(t[1]), impl[1], TOL)
        if not ok:
            ctx.disagree(op, inp, impl if impl[0] == "err" else (impl[0], str(impl[1:])[:200]), line[:300])


# ----------------------------------------------------------------------------- oracle
def oracle_perm(ctx, volume=1):
    """calc_permutation_matrix · (v_σ1 ⊗ … ⊗ v_σk) = v_1 ⊗ … ⊗ v_k in ascending name order"""
    g = ctx.npgen(2)
    for k in (2, 3, 4):
        size_sets = [[2] * k, [4] * k, [4, 9, 4, 9][:k], [3, 2, 4, 2][:k]]
        for sizes in size_sets:
            vs = [g.standard_normal(s) for s in sizes]
            for order in itertools.permutations(range(k)):
                names = [5 * x + 2 for x in order]
                ss = [sizes[x] for x in order]
                rep = {"replay_kind": "perm", "order": names, "sizes": ss}
                ctx.case(("operm", tuple(names), tuple(ss)), nontrivial=list(order) != sorted(order))
                try:
                    P = mu.calc_permutation_matrix(list(names), list(ss))
                except Exception as e:  # noqa
                    ctx.violate(f"C07/calc_permutation_matrix/raises-{type(e).__name__}",
                                f"{type(e).__name__}: {str(e)[:100]} for system order {names}, sizes {ss}", rep)
                    continue
                src = kron_all([vs[x] for x in order])
                dst = kron_all(vs)
                if P.shape != (len(src), len(src)) or not np.allclose(P @ src, dst):
                    ctx.violate("C07/calc_permutation_matrix/value", f"P·(⊗ in order {names}) is not the ascending product; sizes {ss}", rep)
                    continue
                # list version
                items = list(itertools.product(*[range(s) for s in ss]))
                conv = mu.convert_list_by_permutation_matrix(items, P)
                exp = [tuple(x[order.index(j)] for j in range(k)) for x in []]
                want = list(itertools.product(*[range(s) for s in sizes]))
                got = [tuple(c[list(order).index(j)] for j in range(k)) for c in conv]
                if got != want:
                    ctx.violate("C07/convert_list_by_permutation_matrix/value", f"list permutation wrong for order {names} sizes {ss}", rep)


def oracle_tensor(ctx, volume=1):
    g = ctx.npgen(3)
    for ts, names, dims in config_plan(ctx, volume):
        k = len(ts)
        counts = counts_for(k, g)
        factors = [make_factor(g, ts[i], names[i], dims[i], counts[i], t=i + len(names)) for i in range(k)]
        arr = arrangements(k, False, g)
        if ctx.quick and k == 4:
            arr = arr[::3]
        if k == 3 and any(c in "GM" for c in ts):
            arr = arr[::3] if ctx.quick else arr[::2]
        for perm, tr in arr:
            fs = [factors[i] for i in perm]
            rep = {"replay_kind": "tensor", "types": "".join(f.kind for f in fs), "names": [f.esys.name for f in fs],
                   "dims": [f.esys.dim for f in fs], "counts": [f.counts for f in fs], "tree": tstr(tr),
                   "seed": ctx.seed, "tier": ctx.tier, "volume": volume}
            ctx.case(("otensor", ts, tuple(names), tuple(dims), perm, tstr(tr)), nontrivial=list(perm) != sorted(perm),
                     sample={"op": "oracle tensor", "types": rep["types"], "names": rep["names"], "dims": rep["dims"], "grouping": tstr(tr)})
            ctx.count(f"oracle {ts} k={k}")
            obj, ref = oracle_node(ctx, tr, fs, rep)
            if obj is None:
                continue
            # product statistics with the reported layout
            if ref.kind == "P":
                sp = sorted_parts(fs)
                rhos = [qobj.rand_density(g, f.esys.dim) for f in sp]
                B = prod_basis([f.esys.dim for f in sp])
                st = State(obj.composite_system, vec_in(B, kron_all(rhos)))
                dist = compose_qoperations(obj, st)
                exp = np.array([np.prod([np.trace(e @ r).real for e, r in zip(c, rhos)])
                                for c in itertools.product(*[f.ops for f in sp])])
                if tuple(dist.shape) != tuple(f.counts[0] for f in sp) or not np.allclose(dist.ps, exp, atol=1e-8):
                    ctx.violate("C07/tensor/Povm-Povm/statistics", "product POVM on a product state does not give product statistics "
                                "in the reported layout", rep)
            if ref.kind == "M":
                sp = sorted_parts(fs)
                rhos = [qobj.rand_density(g, f.esys.dim) for f in sp]
                B = prod_basis([f.esys.dim for f in sp])
                st = State(obj.composite_system, vec_in(B, kron_all(rhos)))
                ens = compose_qoperations(obj, st)
                mparts = [f for f in fs if f.kind == "M"]
                marg = []
                for f in mparts:
                    r = rhos[sp.index(f)]
                    marg.append([sum(np.trace(kk @ r @ kk.conj().T).real for kk in ks) for ks in f.ops])
                exp = np.array([np.prod(c) for c in itertools.product(*marg)])
                if tuple(ens.prob_dist.shape) != tuple(len(m) for m in marg) or not np.allclose(ens.prob_dist.ps, exp, atol=1e-8):
                    ctx.violate("C07/tensor/MProcess-MProcess/statistics", "product measurement process on a product state: joint "
                                "distribution is not the product of the marginals in the reported layout", rep)


def oracle_basis(ctx):
    """(MatrixBasis, MatrixBasis) and (SparseMatrixBasis, SparseMatrixBasis)"""
    for d1, d2 in ((2, 2), (2, 3), (3, 2)):
        b1, b2 = basis_of(d1), basis_of(d2)
        try:
            t = tensor_product(b1, b2)
            got = dense(t)
            exp = [np.kron(x, y) for x in dense(b1) for y in dense(b2)]
            ok = len(got) == len(exp) and all(np.allclose(a, b) for a, b in zip(got, exp))
        except Exception as e:  # noqa
            ctx.violate("C07/tensor/MatrixBasis/raises", f"{type(e).__name__}: {e}", {"replay_kind": "basis", "dims": [d1, d2]})
            continue
        ctx.case(("basis", d1, d2))
        if not ok:
            ctx.violate("C07/tensor/MatrixBasis/value", "product basis is not the list of Kronecker products", {"replay_kind": "basis", "dims": [d1, d2]})
    # dense MatrixBasis
    try:
        m1 = mb.MatrixBasis(dense(basis_of(2)))
        t = tensor_product(m1, m1)
        exp = [np.kron(x, y) for x in dense(m1) for y in dense(m1)]
        if not all(np.allclose(a, b) for a, b in zip(dense(t), exp)):
            ctx.violate("C07/tensor/MatrixBasis/value", "dense product basis wrong", {"replay_kind": "basis", "dims": [2, 2]})
    except Exception as e:  # noqa
        ctx.violate("C07/tensor/MatrixBasis/raises", f"{type(e).__name__}: {e}", {"replay_kind": "basis", "dims": [2, 2]})


def isometry(num):
    """V: (C^3)^{⊗num} -> (C^4)^{⊗num}, level i of each qutrit -> level i of each qubit pair"""
    v1 = np.zeros((4, 3))
    v1[0, 0] = v1[1, 1] = v1[2, 2] = 1
    return kron_all([v1] * num)


def oracle_embed(ctx, volume=1):
    g = ctx.npgen(4)
    nums = [1] if ctx.quick else [1, 2]
    for num in nums:
        V = isometry(num)
        Q = np.eye(4 ** num) - V @ V.T
        e3 = [ElementalSystem(10 + i, basis_of(3)) for i in range(num)]
        c3 = CompositeSystem(e3)
        B3 = prod_basis([3] * num)
        e2 = [ElementalSystem(20 + i, basis_of(2)) for i in range(2 * num)]
        B2 = prod_basis([2] * (2 * num))
        for t in range((4 if ctx.quick else 12) * volume if num == 1 else 2):
            rep = {"replay_kind": "embed", "num": num, "t": t, "seed": ctx.seed, "tier": ctx.tier, "volume": volume}
            ctx.case(("embed", num, t), sample={"op": "embed", "num_qutrits": num})
            rho = qobj.rand_density(g, 3 ** num, rank=[None, 1][t % 2])
            m = 2 + t % 3
            effs = qobj.rand_povm_mats(g, 3 ** num, m, rank=[None, 1][t % 2] if m >= 3 ** num else None)
            try:
                st = QOperation.embed_qoperation_from_qutrits_to_qubits(State(c3, vec_in(B3, rho)), e2)
                pv = QOperation.embed_qoperation_from_qutrits_to_qubits(Povm(c3, [vec_in(B3, e) for e in effs]), e2)
            except Exception as e:  # noqa
                ctx.violate("C07/embed/state-povm/raises", f"{type(e).__name__}: {e}", rep)
                continue
            if not np.allclose(mat_in(B2, st.vec), V @ rho @ V.T, atol=1e-8) or not st.is_physical(1e-9, 1e-9):
                ctx.violate("C07/embed/State/value", "embedded state is not V rho V^T / not physical", rep)
            exp = [V @ e @ V.T + Q / m for e in effs]
            if not all(np.allclose(mat_in(B2, v), x, atol=1e-8) for v, x in zip(pv.vecs, exp)) or not pv.is_physical(1e-9, 1e-9):
                ctx.violate("C07/embed/Povm/value", "embedded POVM is not V Pi V^T + (1-VV^T)/m / not physical", rep)
            d2 = compose_qoperations(pv, st)
            ref = np.array([np.trace(e @ rho).real for e in effs])
            if not np.allclose(d2.ps, ref, atol=1e-8):
                ctx.violate("C07/embed/Povm/statistics", "outcome statistics of embedded POVM on embedded state differ", rep)
            if num > 1:
                continue
            ks = qobj.rand_kraus(g, 3, 1, 1 + t % 3)[0]
            groups = qobj.rand_kraus(g, 3, m, 1 + t % 2)
            try:
                G3 = Gate(c3, hs_in(B3, ks))
                M3 = MProcess(c3, [hs_in(B3, x) for x in groups])
                G2 = QOperation.embed_qoperation_from_qutrits_to_qubits(G3, e2)
                M2 = QOperation.embed_qoperation_from_qutrits_to_qubits(M3, e2)
            except Exception as e:  # noqa
                ctx.violate("C07/embed/gate-mprocess/raises", f"{type(e).__name__}: {e}", rep)
                continue
            if not G2.is_physical(1e-8, 1e-8):
                ctx.violate("C07/embed/Gate/physical", "embedded gate is not physical", rep)
            out = compose_qoperations(G2, st)
            if not np.allclose(mat_in(B2, out.vec), V @ sum(k @ rho @ k.conj().T for k in ks) @ V.T, atol=1e-7):
                ctx.violate("C07/embed/Gate/statistics", "embedded gate on embedded state is not the embedded output state", rep)
            if not M2.is_physical(1e-8, 1e-8) or tuple(M2.shape) != tuple(M3.shape):
                ctx.violate("C07/embed/MProcess/physical", "embedded measurement process is not physical / shape changed", rep)
            ens = compose_qoperations(M2, st)
            for x, kx in enumerate(groups):
                r = sum(k @ rho @ k.conj().T for k in kx)
                p = np.trace(r).real
                if abs(ens.prob_dist.ps[x] - p) > 1e-7 or (p > 1e-5 and not np.allclose(mat_in(B2, ens.states[x].vec), V @ (r / p) @ V.T, atol=1e-6)):
                    ctx.violate("C07/embed/MProcess/statistics", f"outcome {x}: probability / post state of the embedded process differ", rep)
                    break


def oracle(ctx, volume=1):
    oracle_perm(ctx, volume)
    oracle_tensor(ctx, volume)
    oracle_basis(ctx)
    oracle_embed(ctx, volume)


def search(ctx):
    oracle(ctx, volume=2)


def replay(ctx, data):
    r = data["replay"]
    print("replaying", r)
    sig = data.get("signature")
    if r.get("replay_kind") == "perm":
        try:
            P = mu.calc_permutation_matrix(list(r["order"]), list(r["sizes"]))
            print("calc_permutation_matrix returned shape", P.shape, "expected", int(np.prod(r["sizes"])))
        except Exception as e:  # noqa
            print("calc_permutation_matrix raises", type(e).__name__, str(e)[:200])
            return 1
    before = len(ctx.violations)
    ctx.seed = r.get("seed", ctx.seed)
    if r.get("tier"):
        ctx.tier = r["tier"]
        ctx.quick = ctx.tier == "quick"
    oracle(ctx, volume=r.get("volume", 1))
    hits = [v for v in ctx.violations[before:] if v["signature"] == sig]
    for v in hits[:3]:
        print("  ", v["signature"], "::", v["what"])
    print("still failing" if hits else "not reproduced")
    return 1 if hits else 0
