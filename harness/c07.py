"""C07 — tensor products and embeddings respect subsystem structure.

correspondence: `_K`, `_left_permutation_matrix`, `_check_cross_system_position`, `calc_permutation_matrix`,
`convert_list_by_permutation_matrix`, `_tensor_product_hs_hs`, `tensor_product` for every accepted object pair
(every permutation of subsystem names, every grouping), `_permutation_matrix_from_qutrits_to_qubits`,
`_calc_matrix_from_qutrits_to_qubits` against QModel.C07.
oracle: on the real code, every permutation and grouping of 2–4 factors on subsystems of dimension 2/3 against
the Kronecker product of the factors' operators in ascending name order computed independently in numpy
(density matrices / POVM elements / Kraus operators), outcome layout against the reported shape, product
statistics; embedding qutrit -> two qubits against the isometry V: physicality and statistics."""
import itertools
import numpy as np
import shim  # noqa: F401
from common import Driver, q, qlist, ilist, unqlist, unilist, allclose
import qobj
from quara.objects import matrix_basis as mb
from quara.objects.composite_system import CompositeSystem
from quara.objects.elemental_system import ElementalSystem
from quara.objects.operators import tensor_product, _tensor_product, _tensor_product_hs_hs, compose_qoperations
from quara.objects.state import State
from quara.objects.povm import Povm
from quara.objects.gate import Gate
from quara.objects.mprocess import MProcess
from quara.objects.state_ensemble import StateEnsemble
from quara.objects.multinomial_distribution import MultinomialDistribution
from quara.objects.qoperation import QOperation
from quara.utils import matrix_util as mu

TOL = 1e-9
TNAME = {State: "State", Gate: "Gate", Povm: "Povm", MProcess: "MProcess", StateEnsemble: "StateEnsemble"}


# ----------------------------------------------------------------------------- subsystems
def basis_of(dim):
    b = mb.get_normalized_pauli_basis() if dim == 2 else mb.get_normalized_gell_mann_basis()
    return b


def dense(b):
    return [np.array(x.toarray() if hasattr(x, "toarray") else x, dtype=np.complex128) for x in b]


_BAS = {}


def local_basis(dim):
    if dim not in _BAS:
        _BAS[dim] = np.array(dense(basis_of(dim)))
    return _BAS[dim]


def prod_basis(dims):
    """product basis of subsystems (already in ascending name order), built independently with numpy"""
    B = local_basis(dims[0])
    for d in dims[1:]:
        C = local_basis(d)
        B = np.array([np.kron(x, y) for x in B for y in C])
    return B


def vec_in(B, mat):
    return np.einsum("aij,ij->a", B.conj(), mat).real.astype(np.float64)


def mat_in(B, vec):
    return np.einsum("a,aij->ij", np.asarray(vec, dtype=np.float64), B)


def hs_in(B, kraus):
    n = len(B)
    out = np.zeros((n, n))
    for k in kraus:
        kb = np.einsum("ij,bjk,lk->bil", k, B, k.conj())
        out += np.einsum("aij,bij->ab", B.conj(), kb).real
    return out


def kron_all(ms):
    out = ms[0]
    for m in ms[1:]:
        out = np.kron(out, m)
    return out


class Factor:
    """one factor on one elemental system with its operator-level description"""

    def __init__(self, kind, esys, obj, ops, counts):
        self.kind, self.esys, self.obj, self.ops, self.counts = kind, esys, obj, ops, counts
        # ops: 'S' density matrix; 'P' list of effects; 'G' list of Kraus; 'M' list (outcome) of Kraus lists;
        # 'E' list of (p, density)


def make_factor(g, kind, name, dim, m, t=0):
    e = ElementalSystem(name, basis_of(dim))
    c = CompositeSystem([e])
    B = local_basis(dim)
    if kind == "S":
        rho = qobj.rand_density(g, dim, rank=[None, 1][t % 2])
        return Factor("S", e, State(c, vec_in(B, rho)), rho, [])
    if kind == "P":
        mats = qobj.rand_povm_mats(g, dim, m, rank=[None, 1][t % 2] if m >= dim else None)
        return Factor("P", e, Povm(c, [vec_in(B, x) for x in mats]), mats, [m])
    if kind == "G":
        ks = qobj.rand_kraus(g, dim, 1, 1 + t % 2)[0]
        return Factor("G", e, Gate(c, hs_in(B, ks)), ks, [])
    if kind == "M":
        groups = qobj.rand_kraus(g, dim, m, 1)
        return Factor("M", e, MProcess(c, [hs_in(B, ks) for ks in groups]), groups, [m])
    if kind == "E":
        groups = qobj.rand_kraus(g, dim, m, 1)
        rho = qobj.rand_density(g, dim)
        M = MProcess(c, [hs_in(B, ks) for ks in groups])
        ens = compose_qoperations(M, State(c, vec_in(B, rho)))
        items = []
        for ks in groups:
            r = sum(k @ rho @ k.conj().T for k in ks)
            p = np.trace(r).real
            items.append((p, r / p))
        return Factor("E", e, ens, items, [m])
    raise ValueError(kind)


# ----------------------------------------------------------------------------- reference semantics
class Ref:
    """operator-level value of a (partial) tensor product: subsystem list in ARGUMENT order with, per
    subsystem, its operator description; kind-specific outcome bookkeeping"""

    def __init__(self, kind, parts):
        self.kind = kind          # result kind S P G M E
        self.parts = parts        # list of Factor in argument order


def ref_join(a, b):
    ka, kb = a.kind, b.kind
    table = {("S", "S"): "S", ("P", "P"): "P", ("G", "G"): "G", ("G", "M"): "M", ("M", "G"): "M", ("M", "M"): "M",
             ("S", "E"): "E", ("E", "S"): "E", ("E", "E"): "E"}
    if (ka, kb) not in table:
        return None
    return Ref(table[(ka, kb)], a.parts + b.parts)


def sorted_parts(parts):
    return sorted(parts, key=lambda f: f.esys.name)


def check_ref(obj, ref, tol=1e-8):
    """None or (aspect, message)"""
    parts = ref.parts
    sp = sorted_parts(parts)
    names = [f.esys.name for f in sp]
    dims = [f.esys.dim for f in sp]
    got_names = [e.name for e in obj.composite_system.elemental_systems] if type(obj) != StateEnsemble else None
    if got_names is not None and got_names != names:
        return ("system-order", f"composite system order {got_names}, expected ascending {names}")
    B = prod_basis(dims)
    if ref.kind == "S":
        if type(obj) != State:
            return ("type", type(obj).__name__)
        exp = kron_all([f.ops for f in sp])
        if len(obj.vec) != len(B) or not np.allclose(mat_in(B, obj.vec), exp, atol=tol):
            return ("value", "density matrix is not the Kronecker product of the factors in ascending name order")
        return None
    if ref.kind == "G":
        if type(obj) != Gate:
            return ("type", type(obj).__name__)
        ks = [kron_all(list(c)) for c in itertools.product(*[f.ops for f in sp])]
        if obj.hs.shape != (len(B), len(B)) or not np.allclose(obj.hs, hs_in(B, ks), atol=tol):
            return ("value", "HS matrix is not that of the Kronecker product of the Kraus operators in ascending name order")
        return None
    if ref.kind == "P":
        if type(obj) != Povm:
            return ("type", type(obj).__name__)
        exp_nums = [f.counts[0] for f in sp]
        if list(obj.nums_local_outcomes) != exp_nums:
            return ("shape", f"nums_local_outcomes {list(obj.nums_local_outcomes)}, expected {exp_nums} (ascending name order)")
        exp = [kron_all(list(c)) for c in itertools.product(*[f.ops for f in sp])]
        got = [mat_in(B, v) for v in obj.vecs]
        if len(got) != len(exp):
            return ("value", "number of elements")
        if not all(np.allclose(a, b, atol=tol) for a, b in zip(got, exp)):
            perm = all(any(np.allclose(a, b, atol=tol) for b in exp) for a in got)
            return ("layout" if perm else "value", "POVM elements are not laid out as nums_local_outcomes says"
                    if perm else "POVM elements are not the Kronecker products of the factors' elements")
        return None
    if ref.kind == "M":
        if type(obj) != MProcess:
            return ("type", type(obj).__name__)
        mparts = [f for f in parts if f.kind == "M"]
        exp_shape = tuple(f.counts[0] for f in mparts)     # argument order
        if tuple(obj.shape) != exp_shape:
            return ("shape", f"shape {tuple(obj.shape)}, expected {exp_shape} (argument order)")
        exp = []
        for idx in itertools.product(*[range(f.counts[0]) for f in mparts]):
            sel = dict(zip([id(f) for f in mparts], idx))
            per = [f.ops[sel[id(f)]] if f.kind == "M" else f.ops for f in sp]
            ks = [kron_all(list(c)) for c in itertools.product(*per)]
            exp.append(hs_in(B, ks))
        if len(obj.hss) != len(exp):
            return ("value", "number of HS matrices")
        if not all(np.allclose(a, b, atol=tol) for a, b in zip(obj.hss, exp)):
            perm = all(any(np.allclose(a, b, atol=tol) for b in exp) for a in obj.hss)
            return ("layout" if perm else "value",
                    "HS matrices are the right products but not laid out as the reported shape says"
                    if perm else "HS matrices are not those of the Kronecker products of the factors")
        # look-up by outcome label: the tuple addresses the row-major entry under the reported shape
        if len(exp_shape) >= 1:
            for k, idx in enumerate(np.ndindex(*exp_shape)):
                lab = tuple(int(i) for i in idx)
                try:
                    got = obj.hs(lab)
                except Exception as e:  # noqa
                    return ("label", f"hs({lab}) raises {type(e).__name__}: {e}")
                if not np.array_equal(got, obj.hss[k]):
                    return ("label", f"hs({lab}) of a product measurement process of shape {exp_shape} is not the row-major entry {k}")
        return None
    if ref.kind == "E":
        if type(obj) != StateEnsemble:
            return ("type", type(obj).__name__)
        eparts = [f for f in parts if f.kind == "E"]
        exp_shape = tuple(f.counts[0] for f in eparts)
        if tuple(obj.prob_dist.shape) != exp_shape:
            return ("shape", f"shape {tuple(obj.prob_dist.shape)}, expected {exp_shape}")
        k = 0
        for idx in itertools.product(*[range(f.counts[0]) for f in eparts]):
            sel = dict(zip([id(f) for f in eparts], idx))
            p = np.prod([f.ops[sel[id(f)]][0] for f in eparts])
            rho = kron_all([f.ops[sel[id(f)]][1] if f.kind == "E" else f.ops for f in sp])
            st = obj.states[k]
            if [e.name for e in st.composite_system.elemental_systems] != names:
                return ("system-order", "ensemble state system order")
            if abs(obj.prob_dist.ps[k] - p) > tol or not np.allclose(mat_in(B, st.vec), rho, atol=tol):
                return ("value", f"ensemble entry {idx} is not the product state / product probability")
            lab = tuple(int(i) for i in idx)
            try:
                st_l, p_l = obj.state(lab), obj.prob_dist[lab]
            except Exception as e:  # noqa
                return ("label", f"look-up by outcome label {lab} raises {type(e).__name__}: {e}")
            if st_l is not st or p_l != obj.prob_dist.ps[k]:
                return ("label", f"state({lab}) / prob_dist[{lab}] of a product ensemble of shape {exp_shape} is not the row-major entry {k}")
            k += 1
        return None
    return ("type", "no reference")


# ----------------------------------------------------------------------------- groupings
def trees(lo, hi):
    if hi - lo == 1:
        return [lo]
    out = []
    for mid in range(lo + 1, hi):
        for l in trees(lo, mid):
            for r in trees(mid, hi):
                out.append((l, r))
    return out


def rpn(t):
    if isinstance(t, int):
        return [str(t)]
    return rpn(t[0]) + rpn(t[1]) + ["x"]


def tstr(t):
    return str(t).replace(" ", "")


def eval_tree(t, objs):
    if isinstance(t, int):
        return objs[t]
    return _tensor_product(eval_tree(t[0], objs), eval_tree(t[1], objs))


def perm_failure_sig(e_list):
    """when a tensor node raised: does calc_permutation_matrix itself fail for this system order?"""
    order = [e.name for e in e_list]
    sizes = [e.dim ** 2 for e in e_list]
    try:
        mu.calc_permutation_matrix(order, sizes)
        return None
    except Exception as e:  # noqa
        return f"C07/calc_permutation_matrix/raises-{type(e).__name__}"


def esys_list(obj):
    if type(obj) == StateEnsemble:
        return list(obj.states[0].composite_system.elemental_systems)
    return list(obj.composite_system.elemental_systems)


def eval_node(t, factors, rep, viol):
    """evaluate one grouping node by node on the real code against the reference.
    Returns (obj | None, ref, clean, errkind): obj None = the implementation raised (errkind says what);
    clean False = an upstream node already deviated from the reference (no further attribution)."""
    if isinstance(t, int):
        f = factors[t]
        return f.obj, Ref(f.kind, [f]), True, None
    a, ra, ca, ea = eval_node(t[0], factors, rep, viol)
    if a is None:
        return None, None, False, ea
    b, rb, cb, eb = eval_node(t[1], factors, rep, viol)
    if b is None:
        return None, None, False, eb
    pair = f"{TNAME.get(type(a), '?')}-{TNAME.get(type(b), '?')}"
    ref = ref_join(ra, rb)
    r = dict(rep, node=tstr(t), pair=pair)
    try:
        obj = _tensor_product(a, b)
    except Exception as e:  # noqa
        if ca and cb:
            sig = perm_failure_sig(esys_list(a) + esys_list(b)) or f"C07/tensor/{pair}/raises"
            viol.append((sig, f"{type(e).__name__}: {str(e)[:120]} at node {tstr(t)}; system order "
                              f"{[x.name for x in esys_list(a) + esys_list(b)]}, dims {[x.dim for x in esys_list(a) + esys_list(b)]}", r))
        return None, None, False, err_kind(e)
    clean = ca and cb
    if clean:
        bad = check_ref(obj, ref)
        if bad:
            viol.append((f"C07/tensor/{pair}/{bad[0]}", f"{bad[1]} (node {tstr(t)}, names {rep['names']}, dims {rep['dims']}, "
                                                         f"outcome counts {rep['counts']})", r))
            clean = False
        elif type(obj) != StateEnsemble and not obj.is_physical(1e-9, 1e-9):
            viol.append((f"C07/tensor/{pair}/physical", "physical factors, non-physical product", r))
            clean = False
    return obj, ref, clean, None


# ----------------------------------------------------------------------------- plans
def all_arrangements(k):
    return [(perm, tr) for perm in itertools.permutations(range(k)) for tr in trees(0, k)]


def pick(arr, n, g):
    if n >= len(arr):
        return list(arr)
    idx = sorted(int(i) for i in g.choice(len(arr), size=n, replace=False))
    return [arr[i] for i in idx]


def config_plan(ctx, volume=1):
    """list of dict(ts, names, dims, arr): which (argument order, grouping) pairs are evaluated.
    Costs on the real code that ration the plan: `CompositeSystem([...])` takes 19 s for four qubits, 82 s with a
    qutrit among four, 4 s for qubit·qutrit·qubit; `_tensor_product_hs_hs` materialises a (d1·d2)² square matrix
    (134 MB for three qubits, 344 MB for two qutrits)."""
    g = ctx.npgen(7)
    quick = ctx.quick and volume == 1
    plan = []

    def draw_names(k):
        """distinct python ints; every second configuration contains the name 0 and a negative name"""
        if len(plan) % 2 == 0:
            rest = [int(x) for x in g.choice([-3, 1, 2, 4, 6, 7], size=k - 2, replace=False)] if k > 2 else []
            return sorted([0, int(g.choice([-2, -1]))] + rest)
        return sorted(int(x) for x in g.choice(list(range(-3, 9)), size=k, replace=False))

    def add(ts, dims, n, arr=None):
        k = len(ts)
        names = draw_names(k)
        plan.append({"ts": ts, "names": names, "dims": dims,
                     "arr": (arr or []) + pick([a for a in all_arrangements(k) if a not in (arr or [])], n, g)})

    light2 = ["SS", "PP", "SE", "ES", "EE"]
    heavy2 = ["GG", "GM", "MG", "MM"]
    pool2 = [[2, 3], [3, 2], [2, 2], [3, 3]]
    for i, ts in enumerate(light2):
        for r in range(1 if quick else 2):
            add(ts, pool2[(i + r) % 4], 2)
    for i, ts in enumerate(heavy2):
        for r in range(1 if quick else 3):
            add(ts, pool2[(i + r) % 3], 2)
    if not quick:
        add("GG", [3, 3], 1)
        add("MM", [2, 2], 2)
    # three subsystems
    for ts in ["SSS", "PPP", "SES", "EES", "EEE"]:
        add(ts, [2, 2, 2], 12)          # every argument order and grouping (cheap on three qubits)
    # gate-like products are expensive: always the two groupings in which the single factor's name lies BETWEEN the
    # names of the pairwise product it is tensored with (from the left and from the right), plus random ones
    straddle = [((1, 0, 2), (0, (1, 2))), ((0, 2, 1), ((0, 1), 2))]
    for ts in ["GGG", "MGG"] + ([] if quick else ["GMG", "MMM", "MGM", "GGM"]):
        add(ts, [2, 2, 2], 0 if quick else 3, arr=straddle)
    mixed3 = [[2, 3, 2], [3, 2, 2], [2, 2, 3]]
    for i, ts in enumerate(["SSS", "PPP"] + ([] if quick else ["SES", "EEE"])):
        add(ts, mixed3[(i + ctx.seed) % 3], 1 if quick else 6)
    # four subsystems: every order is checked on calc_permutation_matrix directly (oracle_perm); full products are rationed
    def four(ts, dims, n_fail, n_ok):
        names = draw_names(4)
        arr = all_arrangements(4)
        def fails(perm, tr):       # a swap at position 1 or 3 of a 4-list is needed somewhere (head/tail identity of two sizes)
            return perm_needs_outer_swap([names[i] for i in perm], tr)
        bad = [a for a in arr if fails(*a)]
        good = [a for a in arr if not fails(*a) and list(a[0]) != [0, 1, 2, 3]]
        plan.append({"ts": ts, "names": names, "dims": dims, "arr": pick(bad, n_fail, g) + pick(good, n_ok, g)})
    if quick:
        four("SSSS", [2, 2, 2, 2], 1, 0)
        four("PPPP", [2, 2, 2, 2], 1, 0)
    else:
        four("SSSS", [2, 2, 2, 2], 4, 6)
        four("PPPP", [2, 2, 2, 2], 2, 5)
        four("SESE", [2, 2, 2, 2], 1, 3)
        four("SSSS", [2, 3, 2, 2], 1, 1)
    return plan


def perm_needs_outer_swap(names, tr):
    """does evaluating grouping `tr` on factors with these names (argument order) ever bubble at position 1 or 3
    of a four-element list (where sum and product sizes differ)?  Pure bookkeeping on names."""
    hit = [False]

    def rec(t):
        if isinstance(t, int):
            return [names[t]]
        l = rec(t[0]) + rec(t[1])      # sorted(left) ++ sorted(right)
        cur = list(l)
        while True:
            pos = next((i for i in range(1, len(cur)) if cur[i - 1] > cur[i]), None)
            if pos is None:
                break
            if len(cur) == 4 and pos in (1, 3):
                hit[0] = True
            cur[pos - 1], cur[pos] = cur[pos], cur[pos - 1]
        return sorted(l)
    rec(tr)
    return hit[0]


def counts_for(k, g):
    ms = [2, 3, 4, 2]
    if k <= 3:
        ms = list(g.permutation([2, 3, 4]))[:k]
    return [int(m) for m in ms]


_CACHE = {}


def run_cases(ctx, volume=1):
    """evaluate the plan once on the real code (shared by correspondence and oracle)"""
    key = (ctx.seed, ctx.tier, volume)
    if key in _CACHE:
        return _CACHE[key]
    g = ctx.npgen(3)
    recs = []
    for cfg in config_plan(ctx, volume):
        ts, names, dims = cfg["ts"], cfg["names"], cfg["dims"]
        k = len(ts)
        counts = counts_for(k, g)
        factors = [make_factor(g, ts[i], names[i], dims[i], counts[i], t=i + len(recs)) for i in range(k)]
        for perm, tr in cfg["arr"]:
            fs = [factors[i] for i in perm]
            rep = {"replay_kind": "tensor", "types": "".join(f.kind for f in fs), "names": [f.esys.name for f in fs],
                   "dims": [f.esys.dim for f in fs], "counts": [f.counts for f in fs], "tree": tstr(tr),
                   "seed": ctx.seed, "tier": ctx.tier, "volume": volume}
            viol = []
            obj, ref, clean, ek = eval_node(tr, fs, rep, viol)
            recs.append({"ts": ts, "names": names, "dims": dims, "perm": perm, "tree": tr, "fs": fs, "rep": rep,
                         "obj": obj, "ref": ref, "clean": clean, "err": ek, "viol": viol})
    _CACHE[key] = recs
    return recs


# ----------------------------------------------------------------------------- encoding for the model
NAME_SHIFT = 8      # the model's subsystem names are naturals; only their order matters, so names are shifted for it


def enc_sys(c_sys):
    return ",".join(f"{e.name + NAME_SHIFT}:{e.dim}" for e in c_sys.elemental_systems)


def enc(obj):
    if type(obj) == State:
        return f"S;{enc_sys(obj.composite_system)};{qlist(obj.vec)}"
    if type(obj) == Gate:
        return f"G;{enc_sys(obj.composite_system)};{obj.hs.shape[0]};{qlist(obj.hs.flatten())}"
    if type(obj) == Povm:
        return (f"P;{enc_sys(obj.composite_system)};{ilist(obj.nums_local_outcomes)};{len(obj.vecs)};{len(obj.vecs[0])};"
                f"{qlist(np.concatenate(obj.vecs))}")
    if type(obj) == MProcess:
        return (f"M;{enc_sys(obj.composite_system)};{ilist(obj.shape)};{len(obj.hss)};{obj.hss[0].shape[0]};"
                f"{qlist(np.concatenate([h.flatten() for h in obj.hss]))}")
    if type(obj) == StateEnsemble:
        d = obj.prob_dist
        return (f"E;{enc_sys(obj.states[0].composite_system)};{ilist(d.shape)};{qlist(d.ps)};"
                f"{'true' if d.is_zero_dist else 'false'};{len(obj.states)};{len(obj.states[0].vec)};"
                f"{qlist(np.concatenate([s.vec for s in obj.states]))}")
    raise TypeError(type(obj))


def canon(obj):
    if type(obj) == State:
        return ("S", (enc_sys(obj.composite_system),), list(obj.vec))
    if type(obj) == Gate:
        return ("G", (enc_sys(obj.composite_system), obj.hs.shape[0]), list(obj.hs.flatten()))
    if type(obj) == Povm:
        return ("P", (enc_sys(obj.composite_system), tuple(obj.nums_local_outcomes), len(obj.vecs)), list(np.concatenate(obj.vecs)))
    if type(obj) == MProcess:
        return ("M", (enc_sys(obj.composite_system), tuple(obj.shape), len(obj.hss)),
                list(np.concatenate([h.flatten() for h in obj.hss])))
    if type(obj) == StateEnsemble:
        d = obj.prob_dist
        return ("E", (tuple(d.shape), bool(d.is_zero_dist), len(obj.states),
                      tuple(enc_sys(s.composite_system) for s in obj.states)),
                list(d.ps) + list(np.concatenate([s.vec for s in obj.states])))
    return ("?", (type(obj).__name__,), [])


def fl(s):
    return [float(x) for x in unqlist(s)]


def parse_reply(line):
    t = line.split()
    if t[0] == "err":
        return ("err", t[1])
    if t[0] != "ok":
        return ("bad", line[:80])
    k = t[1]
    if k == "S":
        return ("S", (t[2],), fl(t[3]))
    if k == "G":
        return ("G", (t[2], int(t[3])), fl(t[4]))
    if k == "P":
        return ("P", (t[2], tuple(unilist(t[3])), int(t[4])), fl(t[5]))
    if k == "M":
        return ("M", (t[2], tuple(unilist(t[3])), int(t[4])), fl(t[5]))
    if k == "E":
        # E shape isZero ps n syslist states ; syslist is a comma list of comma lists -> compare loosely
        return ("E", (tuple(unilist(t[2])), t[3] == "true", int(t[5])), fl(t[4]) + fl(t[7]), t[6])
    return ("bad", line[:80])


def err_kind(e):
    m = str(e)
    if isinstance(e, TypeError):
        return "type"
    if isinstance(e, IndexError):
        return "index"
    if "Duplicate ElementalSystem" in m:
        return "dupName"
    if "matmul" in m or "shapes" in m or "reshape" in m or "size" in m:
        return "shape"
    if "at least two" in m:
        return "tooFew"
    return type(e).__name__


def same(impl, model):
    if impl[0] == "err" or model[0] == "err":
        return impl[0] == model[0] and impl[1] == model[1]
    if impl[0] != model[0]:
        return False
    if impl[0] == "E":
        syss = ",".join(impl[1][3])
        return impl[1][:3] == model[1] and syss == model[3] and allclose(impl[2], model[2], TOL)
    return tuple(impl[1]) == tuple(model[1]) and allclose(impl[2], model[2], TOL)


def impl_or_err(fn):
    try:
        return fn()
    except Exception as e:  # noqa
        return ("err", err_kind(e))


# ----------------------------------------------------------------------------- correspondence
def translate(ctx):
    """regenerate lean/QGen/C07.lean from the current source (c07_translate.py); QProps proves model = generated"""
    import c07_translate
    return c07_translate.translate()


def correspondence(ctx):
    drv = Driver("C07")
    pend = []
    g = ctx.npgen(1)

    def mat_reply(m):
        return ("ok", m.shape[0], m.shape[1], [int(round(x)) for x in m.flatten()])

    # --- _K, _left_permutation_matrix, _check_cross_system_position
    for a in range(1, 5):
        for b in range(1, 5):
            pend.append(("K", (a, b), mat_reply(mu._K(a, b)), drv.ask("K", a, b)))
            ctx.case(("K", a, b), nontrivial=a > 1 and b > 1)
    size_pool = [2, 3, 4]
    for k in (2, 3, 4):
        for sizes in itertools.product(size_pool, repeat=k):
            if np.prod(sizes) > 64 or (ctx.quick and g.random() < 0.5):
                continue
            for pos in range(1, k):
                impl = impl_or_err(lambda: mat_reply(mu._left_permutation_matrix(pos, list(sizes))))
                pend.append(("leftperm", (pos, sizes), impl, drv.ask("leftperm", pos, ilist(sizes))))
                ctx.case(("leftperm", pos, sizes))
    for k in (1, 2, 3, 4, 5):
        for order in itertools.permutations(range(k)):
            if k == 5 and g.random() < 0.8:
                continue
            names = [3 * x + 1 for x in order]
            r = mu._check_cross_system_position(list(names))
            pend.append(("cross", names, "ok none" if r is None else f"ok {r}", drv.ask("cross", ilist(names))))
            ctx.case(("cross", tuple(names)), nontrivial=r is not None)
    # --- calc_permutation_matrix: every order of 2..4 systems (5: verdict only), sizes 2/3/4/9
    for k in (2, 3, 4):
        size_sets = [tuple(g.choice([2, 3, 4], size=k)) for _ in range(2 if ctx.quick else 6)] + [tuple([2] * k), tuple([4] * k)]
        for sizes in size_sets:
            sizes = [int(s) for s in sizes]
            for oi, order in enumerate(itertools.permutations(range(k))):
                names = [2 * x + 1 for x in order]
                full = np.prod(sizes) <= 64
                if not full and ctx.quick and oi % 4 != 3:
                    continue        # 256x256 integer matrix chains are slow in the model; the oracle covers all 24 orders
                if full:
                    impl = impl_or_err(lambda: mat_reply(mu.calc_permutation_matrix(list(names), list(sizes))))
                    pend.append(("calcperm", (names, sizes), impl, drv.ask("calcperm", ilist(names), ilist(sizes))))
                else:
                    def f():
                        m = mu.calc_permutation_matrix(list(names), list(sizes))
                        return ("ok", m.shape[0], m.shape[1])
                    pend.append(("calcpermdim", (names, sizes), impl_or_err(f), drv.ask("calcpermdim", ilist(names), ilist(sizes))))
                ctx.case(("calcperm", tuple(names), tuple(sizes)), nontrivial=list(order) != sorted(order),
                         sample={"op": "calc_permutation_matrix", "order": names, "sizes": sizes})
                ctx.count(f"calcperm k={k}")
                # convert_list_by_permutation_matrix
                if full:
                    old = list(range(100, 100 + int(np.prod(sizes))))
                    impl = impl_or_err(lambda: ("ok", mu.convert_list_by_permutation_matrix(old, mu.calc_permutation_matrix(list(names), list(sizes)))))
                    pend.append(("convert", (names, sizes), impl, drv.ask("convert", ilist(names), ilist(sizes), ilist(old))))
    # --- _tensor_product_hs_hs without the system permutation (names ascending)
    for (d1, d2) in ([(2, 2), (2, 3)] if ctx.quick else [(2, 2), (2, 3), (3, 2), (3, 3)]):
        e1, e2 = ElementalSystem(0, basis_of(d1)), ElementalSystem(1, basis_of(d2))
        A = qobj.dyadic(g, (d1 * d1, d1 * d1), bits=6)
        Bm = qobj.dyadic(g, (d2 * d2, d2 * d2), bits=6)
        impl = _tensor_product_hs_hs(A, Bm, [e1, e2])
        pend.append(("hshs", (d1, d2), ("ok", impl.shape[0], list(impl.flatten())),
                     drv.ask("hshs", d1 * d1, d2 * d2, qlist(A.flatten()), qlist(Bm.flatten()))))
        ctx.case(("hshs", d1, d2))
    # --- tensor_product on objects (every planned argument order and grouping)
    folded = set()
    for rec in run_cases(ctx):
        fs, tr, ts = rec["fs"], rec["tree"], rec["ts"]
        objs = [f.obj for f in fs]
        impl = canon(rec["obj"]) if rec["obj"] is not None else ("err", rec["err"])
        # gate-like products beyond two qubits: the model runs `kron` in place of the (d1·d2)²-square vec-permutation
        # (equal for all sizes by theorem hs_tensor); the pipeline as coded is executed on the small cases and by `hshs`
        big = any(c in "GM" for c in ts) and int(np.prod([d * d for d in rec["dims"]])) > 16
        mode = "exec" if big else "coded"
        ctx.count(f"tensor model mode {mode}")
        pend.append(("tensor", {"types": rec["rep"]["types"], "names": rec["rep"]["names"], "dims": rec["rep"]["dims"], "tree": tstr(tr)},
                     impl, drv.ask("tensor", mode, len(objs), *[enc(o) for o in objs], *rpn(tr))))
        ctx.count(f"tensor {ts} -> {impl[0]}{':' + impl[1] if impl[0] == 'err' else ''}")
        ctx.case(("tensor", ts, tuple(rec["names"]), tuple(rec["dims"]), rec["perm"], tstr(tr)),
                 nontrivial=list(rec["perm"]) != sorted(rec["perm"]),
                 sample={"op": "tensor", "types": rec["rep"]["types"], "names": rec["rep"]["names"], "grouping": tstr(tr)})
        # the public left fold, once per configuration of at most three (cheap) subsystems
        key = (ts, tuple(rec["names"]), tuple(rec["dims"]))
        if key not in folded and len(objs) <= 3 and 3 not in rec["dims"]:
            folded.add(key)
            impl = impl_or_err(lambda: canon(tensor_product(*objs)))
            pend.append(("fold", {"types": ts, "names": rec["rep"]["names"]}, impl, drv.ask("fold", mode, *[enc(o) for o in objs])))
    # --- error branches: duplicate names, unsupported pairs
    f1 = make_factor(g, "S", 1, 2, 2)
    f2 = make_factor(g, "S", 1, 2, 2)
    f3 = make_factor(g, "P", 2, 2, 2)
    f4 = make_factor(g, "G", 3, 2, 2)
    for x, y in ((f1, f2), (f1, f3), (f3, f4), (f4, f1), (f3, f1)):
        impl = impl_or_err(lambda: canon(_tensor_product(x.obj, y.obj)))
        pend.append(("tensor", {"pair": x.kind + y.kind}, impl, drv.ask("tensor", "coded", 2, enc(x.obj), enc(y.obj), "0", "1", "x")))
        ctx.case(("errpair", x.kind, y.kind), nontrivial=False)
    # --- embedding kernels
    for num in (1, 2):
        P = QOperation._permutation_matrix_from_qutrits_to_qubits(num)
        idx = [int(np.argmax(P[i])) for i in range(4 ** num)]
        ok = bool(np.all(P.sum(axis=1) == 1))
        pend.append(("embedindex", num, ("ok", idx) if ok else ("err", "notperm"), drv.ask("embedindex", num)))
        for t in range(3 if ctx.quick else 10):
            if num == 2 and t > 0 and ctx.quick:
                break
            mat = qobj.dyadic(g, (3 ** num, 3 ** num), bits=6)
            coeff = [0.0, 0.5, 0.25][t % 3]
            out = QOperation._calc_matrix_from_qutrits_to_qubits(num, P, mat, coeff)
            pend.append(("embed", (num, coeff), ("ok", list(out.flatten())), drv.ask("embed", num, q(coeff), qlist(mat.flatten()))))
            ctx.case(("embed", num, t))

    out = drv.run(timeout=3000)
    for op, inp, impl, i in pend:
        ctx.corr_ops.add(op)
        line = out[i]
        t = line.split()
        ok = False
        if op in ("K", "leftperm", "calcperm"):
            if impl[0] == "err":
                ok = t[0] == "err" and t[1] == impl[1]
            else:
                ok = t[0] == "ok" and int(t[1]) == impl[1] and int(t[2]) == impl[2] and unilist(t[3]) == impl[3]
        elif op == "calcpermdim":
            ok = (t[0] == "err" and impl[0] == "err" and t[1] == impl[1]) or \
                 (t[0] == "ok" and impl[0] == "ok" and (int(t[1]), int(t[2])) == (impl[1], impl[2]))
        elif op == "cross":
            ok = line == impl
        elif op == "convert":
            ok = (t[0] == "err" and impl[0] == "err" and t[1] == impl[1]) or \
                 (t[0] == "ok" and impl[0] == "ok" and t[1] == ilist(impl[1]))
        elif op == "hshs":
            ok = t[0] == "ok" and int(t[1]) == impl[1] and allclose(fl(t[2]), impl[2], TOL)
        elif op in ("tensor", "fold"):
            ok = same(impl, parse_reply(line))
        elif op == "embedindex":
            ok = t[0] == "ok" and impl[0] == "ok" and unilist(t[1]) == impl[1]
        elif op == "embed":
            ok = t[0] == "ok" and allclose(fl(t[1]), impl[1], TOL)
        if not ok:
            ctx.disagree(op, inp, impl if impl[0] == "err" else (impl[0], str(impl[1:])[:200]), line[:300])


# ----------------------------------------------------------------------------- oracle
def oracle_perm(ctx, volume=1):
    """calc_permutation_matrix · (v_σ1 ⊗ … ⊗ v_σk) = v_1 ⊗ … ⊗ v_k in ascending name order"""
    g = ctx.npgen(2)
    for k in (2, 3, 4):
        size_sets = [[2] * k, [4] * k, [4, 9, 4, 4][:k], [3, 2, 4, 2][:k]]
        for sizes in size_sets:
            vs = [g.standard_normal(s) for s in sizes]
            for order in itertools.permutations(range(k)):
                names = [[-3, 0, 4, 9][x] for x in order]      # python ints: negative, zero, positive
                ss = [sizes[x] for x in order]
                rep = {"replay_kind": "perm", "order": names, "sizes": ss}
                ctx.case(("operm", tuple(names), tuple(ss)), nontrivial=list(order) != sorted(order))
                try:
                    P = mu.calc_permutation_matrix(list(names), list(ss))
                except Exception as e:  # noqa
                    ctx.violate(f"C07/calc_permutation_matrix/raises-{type(e).__name__}",
                                f"{type(e).__name__}: {str(e)[:100]} for system order {names}, sizes {ss}", rep)
                    continue
                src = kron_all([vs[x] for x in order])
                dst = kron_all(vs)
                if P.shape != (len(src), len(src)) or not np.allclose(P @ src, dst):
                    ctx.violate("C07/calc_permutation_matrix/value", f"P·(⊗ in order {names}) is not the ascending product; sizes {ss}", rep)
                    continue
                # list version
                items = list(itertools.product(*[range(s) for s in ss]))
                conv = mu.convert_list_by_permutation_matrix(items, P)
                exp = [tuple(x[order.index(j)] for j in range(k)) for x in []]
                want = list(itertools.product(*[range(s) for s in sizes]))
                got = [tuple(c[list(order).index(j)] for j in range(k)) for c in conv]
                if got != want:
                    ctx.violate("C07/convert_list_by_permutation_matrix/value", f"list permutation wrong for order {names} sizes {ss}", rep)


def oracle_tensor(ctx, volume=1):
    g = ctx.npgen(5)
    for rec in run_cases(ctx, volume):
        fs, tr, ts, rep = rec["fs"], rec["tree"], rec["ts"], rec["rep"]
        ctx.case(("otensor", ts, tuple(rec["names"]), tuple(rec["dims"]), rec["perm"], tstr(tr)),
                 nontrivial=list(rec["perm"]) != sorted(rec["perm"]),
                 sample={"op": "oracle tensor", "types": rep["types"], "names": rep["names"], "dims": rep["dims"], "grouping": tstr(tr)})
        ctx.count(f"oracle {ts} k={len(ts)}")
        for sig, what, r in rec["viol"]:
            ctx.violate(sig, what, r)
        obj, ref = rec["obj"], rec["ref"]
        if obj is None or not rec["clean"]:
            continue
        if True:
            # product statistics with the reported layout
            if ref.kind == "P":
                sp = sorted_parts(fs)
                rhos = [qobj.rand_density(g, f.esys.dim) for f in sp]
                B = prod_basis([f.esys.dim for f in sp])
                st = State(obj.composite_system, vec_in(B, kron_all(rhos)))
                dist = compose_qoperations(obj, st)
                exp = np.array([np.prod([np.trace(e @ r).real for e, r in zip(c, rhos)])
                                for c in itertools.product(*[f.ops for f in sp])])
                # (Povm∘State returns a flat distribution; the layout is the Povm's nums_local_outcomes, checked above)
                if len(dist.ps) != len(exp) or not np.allclose(dist.ps, exp, atol=1e-8):
                    ctx.violate("C07/tensor/Povm-Povm/statistics", "product POVM on a product state does not give product statistics "
                                "in the reported layout", rep)
            if ref.kind == "M":
                sp = sorted_parts(fs)
                rhos = [qobj.rand_density(g, f.esys.dim) for f in sp]
                B = prod_basis([f.esys.dim for f in sp])
                st = State(obj.composite_system, vec_in(B, kron_all(rhos)))
                ens = compose_qoperations(obj, st)
                mparts = [f for f in fs if f.kind == "M"]
                marg = []
                for f in mparts:
                    r = rhos[sp.index(f)]
                    marg.append([sum(np.trace(kk @ r @ kk.conj().T).real for kk in ks) for ks in f.ops])
                exp = np.array([np.prod(c) for c in itertools.product(*marg)])
                if tuple(ens.prob_dist.shape) != tuple(len(m) for m in marg) or not np.allclose(ens.prob_dist.ps, exp, atol=1e-8):
                    ctx.violate("C07/tensor/MProcess-MProcess/statistics", "product measurement process on a product state: joint "
                                "distribution is not the product of the marginals in the reported layout", rep)


def oracle_basis(ctx):
    """(MatrixBasis, MatrixBasis) and (SparseMatrixBasis, SparseMatrixBasis)"""
    for d1, d2 in ((2, 2), (2, 3), (3, 2)):
        b1, b2 = basis_of(d1), basis_of(d2)
        try:
            t = tensor_product(b1, b2)
            got = dense(t)
            exp = [np.kron(x, y) for x in dense(b1) for y in dense(b2)]
            ok = len(got) == len(exp) and all(np.allclose(a, b) for a, b in zip(got, exp))
        except Exception as e:  # noqa
            ctx.violate("C07/tensor/MatrixBasis/raises", f"{type(e).__name__}: {e}", {"replay_kind": "basis", "dims": [d1, d2]})
            continue
        ctx.case(("basis", d1, d2))
        if not ok:
            ctx.violate("C07/tensor/MatrixBasis/value", "product basis is not the list of Kronecker products", {"replay_kind": "basis", "dims": [d1, d2]})
    # dense MatrixBasis
    try:
        m1 = mb.MatrixBasis(dense(basis_of(2)))
        t = tensor_product(m1, m1)
        exp = [np.kron(x, y) for x in dense(m1) for y in dense(m1)]
        if not all(np.allclose(a, b) for a, b in zip(dense(t), exp)):
            ctx.violate("C07/tensor/MatrixBasis/value", "dense product basis wrong", {"replay_kind": "basis", "dims": [2, 2]})
    except Exception as e:  # noqa
        ctx.violate("C07/tensor/MatrixBasis/raises", f"{type(e).__name__}: {e}", {"replay_kind": "basis", "dims": [2, 2]})


def isometry(num):
    """V: (C^3)^{⊗num} -> (C^4)^{⊗num}, level i of each qutrit -> level i of each qubit pair"""
    v1 = np.zeros((4, 3))
    v1[0, 0] = v1[1, 1] = v1[2, 2] = 1
    return kron_all([v1] * num)


def oracle_embed(ctx, volume=1):
    g = ctx.npgen(4)
    nums = [1] if (ctx.quick and volume == 1) else [1, 2]
    for num in nums:
        V = isometry(num)
        Q = np.eye(4 ** num) - V @ V.T
        e3 = [ElementalSystem(10 + i, basis_of(3)) for i in range(num)]
        c3 = CompositeSystem(e3)
        B3 = prod_basis([3] * num)
        e2 = [ElementalSystem(20 + i, basis_of(2)) for i in range(2 * num)]
        B2 = prod_basis([2] * (2 * num))
        for t in range((4 if ctx.quick else 12) * volume if num == 1 else 2):
            rep = {"replay_kind": "embed", "num": num, "t": t, "seed": ctx.seed, "tier": ctx.tier, "volume": volume}
            ctx.case(("embed", num, t), sample={"op": "embed", "num_qutrits": num})
            rho = qobj.rand_density(g, 3 ** num, rank=[None, 1][t % 2])
            m = 2 + t % 3
            effs = qobj.rand_povm_mats(g, 3 ** num, m, rank=[None, 1][t % 2] if m >= 3 ** num else None)
            try:
                st = QOperation.embed_qoperation_from_qutrits_to_qubits(State(c3, vec_in(B3, rho)), e2)
                pv = QOperation.embed_qoperation_from_qutrits_to_qubits(Povm(c3, [vec_in(B3, e) for e in effs]), e2)
            except Exception as e:  # noqa
                ctx.violate("C07/embed/state-povm/raises", f"{type(e).__name__}: {e}", rep)
                continue
            if not np.allclose(mat_in(B2, st.vec), V @ rho @ V.T, atol=1e-8) or not st.is_physical(1e-9, 1e-9):
                ctx.violate("C07/embed/State/value", "embedded state is not V rho V^T / not physical", rep)
            exp = [V @ e @ V.T + Q / m for e in effs]
            if not all(np.allclose(mat_in(B2, v), x, atol=1e-8) for v, x in zip(pv.vecs, exp)) or not pv.is_physical(1e-9, 1e-9):
                ctx.violate("C07/embed/Povm/value", "embedded POVM is not V Pi V^T + (1-VV^T)/m / not physical", rep)
            d2 = compose_qoperations(pv, st)
            ref = np.array([np.trace(e @ rho).real for e in effs])
            if not np.allclose(d2.ps, ref, atol=1e-8):
                ctx.violate("C07/embed/Povm/statistics", "outcome statistics of embedded POVM on embedded state differ", rep)
            if num > 1:
                continue
            ks = qobj.rand_kraus(g, 3, 1, 1 + t % 3)[0]
            if t % 2 == 1:
                # nearly unitary gate with a weak noise component (Kraus weight 1e-6 ... 1e-11): still a physical gate
                pw = [1e-9, 1e-6, 1e-11][(t // 2) % 3]
                ks = [np.sqrt(1 - pw) * qobj.rand_unitary(g, 3), np.sqrt(pw) * qobj.rand_unitary(g, 3)]
                rep = dict(rep, noise_weight=pw)
            groups = qobj.rand_kraus(g, 3, m, 1 + t % 2)
            try:
                G3 = Gate(c3, hs_in(B3, ks))
                M3 = MProcess(c3, [hs_in(B3, x) for x in groups])
                G2 = QOperation.embed_qoperation_from_qutrits_to_qubits(G3, e2)
                M2 = QOperation.embed_qoperation_from_qutrits_to_qubits(M3, e2)
            except Exception as e:  # noqa
                ctx.violate("C07/embed/gate-mprocess/raises", f"{type(e).__name__}: {e}", rep)
                continue
            if not G2.is_physical(1e-8, 1e-8):
                ctx.violate("C07/embed/Gate/physical", "embedded gate is not physical", rep)
            out = compose_qoperations(G2, st)
            if not np.allclose(mat_in(B2, out.vec), V @ sum(k @ rho @ k.conj().T for k in ks) @ V.T, atol=1e-7):
                ctx.violate("C07/embed/Gate/statistics", "embedded gate on embedded state is not the embedded output state", rep)
            if not M2.is_physical(1e-8, 1e-8) or tuple(M2.shape) != tuple(M3.shape):
                ctx.violate("C07/embed/MProcess/physical", "embedded measurement process is not physical / shape changed", rep)
            ens = compose_qoperations(M2, st)
            for x, kx in enumerate(groups):
                r = sum(k @ rho @ k.conj().T for k in kx)
                p = np.trace(r).real
                if abs(ens.prob_dist.ps[x] - p) > 1e-7 or (p > 1e-5 and not np.allclose(mat_in(B2, ens.states[x].vec), V @ (r / p) @ V.T, atol=1e-6)):
                    ctx.violate("C07/embed/MProcess/statistics", f"outcome {x}: probability / post state of the embedded process differ", rep)
                    break


PARTIAL = [
    {"theorem": "object-level tensor product (order / grouping independence)", "missing": "proved on the executed path only for states in product form: tensorStateState_product_partial (via ratPerm_eq_calcPerm and calcPerm_sorts: any number of subsystems, any dims, one vector per elemental system — hence any two single-subsystem states); proved in addition: PᵀP = 1 for every calc_permutation_matrix / ratPerm result (calcPerm_orthogonal, ratPerm_orthogonal); and for the executed gate product R = P(A⊗B)Pᵀ the intertwining R·(P·x) = P·((A⊗B)·x) for every x, entangled or not (tensorHs_intertwines), in particular R·P(x1⊗x2) = P((A x1)⊗(B x2)) (tensorHs_product_action); not proved: the fully explicit sorted form for composite operands, the POVM / gate / m-process branches (tensorPovmPovm incl. convertList and newNums, tensorHsWith's P·t·Pᵀ), associativity of tensorObj / tensorFold; those rest on hs_tensor, product_gate_action, calcPerm_sorts and the correspondence over every order and grouping"},
    {"theorem": "product_statistics / povm_product_raw_layout", "missing": "stated on the unpermuted Kronecker lists (dotL is a QProps-local inner product), not on the outputs of tensorPovmPovm after the outcome permutation; MProcess⊗MProcess layout is false on the current tree (D7b open: mprocess_product_layout_fails)"},
    {"theorem": "tie to the source", "missing": "leftPerm_matches_source and the two swaps of calcPerm_loop_matches_source are ties; accumOnLeft is a tripwire; _check_cross_system_position, _K and everything in operators.py are not regenerated"},
    {"theorem": "embedding for >= 3 qutrits", "missing": "embedding = V M V^H + coeff (1 - V V^H) is proved for every isometric relabelling (embed_state_physical, embed_povm_physical, embed_kraus_tp, embed_statistics); that the coded index permutation IS such a relabelling is proved for 1 and 2 qutrits (embedEntry_one_eq, embedEntry_two_eq, finite), not for general num_qutrits; the Kraus round trip around it is C02's; the 2*num_qutrits != len(e_syss) guard is not modelled"},
]




def oracle_list_forms(ctx, volume=1):
    """`tensor_product` accepts lists of operands anywhere among its arguments: every way of handing over the same
    operands (flat, one list, several lists, a list that is not the first argument) gives the same product"""
    g = ctx.npgen(12)
    for ts in ("SSS", "PPP"):
        names = sorted(int(x) for x in g.choice(list(range(-2, 8)), size=3, replace=False))
        counts = counts_for(3, g)
        fs0 = [make_factor(g, ts[i], names[i], 2, counts[i], t=i) for i in range(3)]
        for perm in ((0, 1, 2), (2, 0, 1), (1, 2, 0)):
            a, b, c = [fs0[i] for i in perm]
            forms = {"(a,[b,c])": (a.obj, [b.obj, c.obj]), "([a,b],c)": ([a.obj, b.obj], c.obj), "(a,b,[c])": (a.obj, b.obj, [c.obj]),
                     "([a],[b,c])": ([a.obj], [b.obj, c.obj]), "([a,b,c])": ([a.obj, b.obj, c.obj],), "(a,[b],c)": (a.obj, [b.obj], c.obj)}
            ref = Ref(a.kind, [a, b, c])
            for name, args in forms.items():
                rep = {"replay_kind": "list-forms", "types": ts, "names": [f.esys.name for f in (a, b, c)], "form": name,
                       "seed": ctx.seed, "tier": ctx.tier, "volume": volume}
                ctx.case(("list-forms", ts, perm, name), sample={"op": "tensor_product list arguments", "form": name, "types": ts})
                try:
                    obj = tensor_product(*args)
                except Exception as e:  # noqa
                    ctx.violate("C07/tensor_product/list-arguments/raises", f"{type(e).__name__}: {e} for tensor_product{name}", rep)
                    continue
                if type(obj) == StateEnsemble:
                    continue
                got = [e.name for e in obj.composite_system.elemental_systems]
                if got != sorted(f.esys.name for f in (a, b, c)):
                    ctx.violate("C07/tensor_product/list-arguments/value", f"tensor_product{name} acts on subsystems {got}: operands were dropped", rep)
                    continue
                bad = check_ref(obj, ref)
                if bad:
                    ctx.violate("C07/tensor_product/list-arguments/value", f"tensor_product{name}: {bad[1]}", rep)


def oracle_sequences(ctx, volume=1):
    """several products in ONE process with the same name sequence and the same total dimension but differently
    distributed subsystem dimensions, back to back in both orders (stale state between calls must not leak)"""
    g = ctx.npgen(6)
    quick = ctx.quick and volume == 1
    plans = []
    nm = [(5, 2), (6, 3), (7, 1), (8, 4)]
    for i, ts in enumerate(["SS", "PP", "GG", "MM"] if quick else ["SS", "PP", "GG", "MM", "GM", "MG", "SE", "EE"]):
        a, b = nm[i % 4], nm[(i + 1) % 4]
        plans.append((ts, a, [(2, 3), (3, 2)]))
        plans.append((ts, b, [(3, 2), (2, 3)]))
    three = [("SSS", (4, 7, 1), [(2, 3, 2), (3, 2, 2)])]
    if not quick:
        three += [("SSS", (6, 2, 5), [(2, 2, 3), (2, 3, 2), (3, 2, 2)]), ("PPP", (3, 8, 0), [(3, 2, 2), (2, 2, 3)])]
    plans += three
    for ts, names, dimseq in plans:
        for step, dims in enumerate(dimseq):
            k = len(ts)
            counts = counts_for(k, g)
            fs = [make_factor(g, ts[i], names[i], dims[i], counts[i], t=step + i) for i in range(k)]
            tr = trees(0, k)[-1]       # left fold
            rep = {"replay_kind": "sequence", "types": ts, "names": list(names), "dims": list(dims), "step": step,
                   "sequence": [list(d) for d in dimseq], "counts": [f.counts for f in fs], "tree": tstr(tr),
                   "seed": ctx.seed, "tier": ctx.tier, "volume": volume}
            ctx.case(("sequence", ts, names, dims, step), sample={"op": "sequence", "types": ts, "names": list(names), "dims": list(dims), "step": step})
            ctx.count(f"sequence {ts} step {step}")
            viol = []
            eval_node(tr, fs, rep, viol)
            for sig, what, r in viol:
                ctx.violate(sig, what + f" [product {step + 1} of the sequence {[list(d) for d in dimseq]} with names {list(names)}]", r)


def oracle_povm_accessors(ctx, volume=1):
    """tuple accessors of product POVMs: vec / matrix / matrix_with_sparsity at every multi-index against the
    Kronecker product of the factors' effects — the multi-index is laid out as nums_local_outcomes says"""
    g = ctx.npgen(8)
    for counts in ([2, 3], [4, 2], [2, 3, 4]):
        k = len(counts)
        names = sorted(int(x) for x in g.choice(9, size=k, replace=False))
        fs0 = [make_factor(g, "P", names[i], 2, counts[i], t=i) for i in range(k)]
        B = prod_basis([2] * k)
        for perm in itertools.permutations(range(k)):
            fs = [fs0[i] for i in perm]
            rep = {"replay_kind": "accessor", "counts": counts, "names": [f.esys.name for f in fs], "seed": ctx.seed,
                   "tier": ctx.tier, "volume": volume}
            ctx.case(("accessor", tuple(counts), perm), nontrivial=list(perm) != sorted(perm),
                     sample={"op": "povm tuple accessors", "counts": counts, "names": rep["names"]})
            try:
                povm = tensor_product(*[f.obj for f in fs])
            except Exception as e:  # noqa
                ctx.violate("C07/povm-accessor/product-raises", f"{type(e).__name__}: {e}", rep)
                continue
            sp = sorted_parts(fs)
            if list(povm.nums_local_outcomes) != [f.counts[0] for f in sp]:
                continue      # reported by the tensor oracle
            done = False
            for idx in itertools.product(*[range(f.counts[0]) for f in sp]):
                exp = kron_all([f.ops[i] for f, i in zip(sp, idx)])
                for acc in ("vec", "matrix", "matrix_with_sparsity"):
                    try:
                        got = getattr(povm, acc)(tuple(idx))
                        got = mat_in(B, got) if acc == "vec" else np.asarray(got.toarray() if hasattr(got, "toarray") else got)
                    except Exception as e:  # noqa
                        ctx.violate(f"C07/povm-accessor/{acc}/raises", f"{type(e).__name__}: {str(e)[:100]} at multi-index {idx} of a product "
                                    f"POVM with nums_local_outcomes {list(povm.nums_local_outcomes)}", dict(rep, index=list(idx)))
                        done = True
                        break
                    if got.shape != exp.shape or not np.allclose(got, exp, atol=1e-8):
                        ctx.violate(f"C07/povm-accessor/{acc}/value", f"{acc}({idx}) of a product POVM with nums_local_outcomes "
                                    f"{list(povm.nums_local_outcomes)} is not the Kronecker product of the factors' elements {idx}",
                                    dict(rep, index=list(idx)))
                        done = True
                        break
                if done:
                    break


def oracle(ctx, volume=1):
    ctx.partial = PARTIAL
    oracle_perm(ctx, volume)
    oracle_tensor(ctx, volume)
    oracle_basis(ctx)
    oracle_embed(ctx, volume)
    oracle_sequences(ctx, volume)
    oracle_povm_accessors(ctx, volume)
    oracle_list_forms(ctx, volume)


def search(ctx):
    oracle(ctx, volume=2)


def replay(ctx, data):
    r = data["replay"]
    print("replaying", r)
    sig = data.get("signature")
    if r.get("replay_kind") == "perm":
        try:
            P = mu.calc_permutation_matrix(list(r["order"]), list(r["sizes"]))
            print("calc_permutation_matrix returned shape", P.shape, "expected", int(np.prod(r["sizes"])))
        except Exception as e:  # noqa
            print("calc_permutation_matrix raises", type(e).__name__, str(e)[:200])
            return 1
    before = len(ctx.violations)
    ctx.seed = r.get("seed", ctx.seed)
    if r.get("tier"):
        ctx.tier = r["tier"]
        ctx.quick = ctx.tier == "quick"
    oracle(ctx, volume=r.get("volume", 1))
    hits = [v for v in ctx.violations[before:] if v["signature"] == sig]
    for v in hits[:3]:
        print("  ", v["signature"], "::", v["what"])
    print("still failing" if hits else "not reproduced")
    return 1 if hits else 0
