"""Generators of quara objects (physical / boundary / non-physical) shared by the property harnesses.
Everything random is drawn from a numpy Generator handed in by the caller (derived from VERIF_SEED)."""
import shim  # noqa: F401
import numpy as np
from quara.objects.composite_system import CompositeSystem
from quara.objects.elemental_system import ElementalSystem
from quara.objects import matrix_basis as mb
from quara.objects.state import State
from quara.objects.povm import Povm
from quara.objects.gate import Gate
from quara.objects.mprocess import MProcess


def csys(kind="qubit", names=(0,), basis_fn=None):
    """kind: 'qubit' | 'qutrit' or a list like ['qubit','qutrit'] (one per name)"""
    kinds = [kind] * len(names) if isinstance(kind, str) else list(kind)
    systems = []
    for k, n in zip(kinds, names):
        if basis_fn is not None:
            b = basis_fn()
        else:
            b = mb.get_normalized_pauli_basis() if k == "qubit" else mb.get_normalized_gell_mann_basis()
        systems.append(ElementalSystem(n, b))
    return CompositeSystem(systems)


def basis_mats(c_sys):
    return [np.array(b.toarray() if hasattr(b, "toarray") else b, dtype=np.complex128) for b in c_sys.basis()]


def rand_unitary(g, d):
    z = g.standard_normal((d, d)) + 1j * g.standard_normal((d, d))
    qm, r = np.linalg.qr(z)
    return qm * (np.diag(r) / np.abs(np.diag(r)))


def rand_density(g, d, rank=None):
    rank = rank or d
    a = g.standard_normal((d, rank)) + 1j * g.standard_normal((d, rank))
    rho = a @ a.conj().T
    return rho / np.trace(rho).real


def rand_hermitian(g, d, scale=1.0):
    a = g.standard_normal((d, d)) + 1j * g.standard_normal((d, d))
    return scale * (a + a.conj().T) / 2


def vec_of(c_sys, mat):
    """real coefficient vector of a Hermitian matrix in the (orthonormal) basis of c_sys"""
    return np.array([np.trace(b.conj().T @ mat).real for b in basis_mats(c_sys)], dtype=np.float64)


def mat_of(c_sys, vec):
    return sum(v * b for v, b in zip(vec, basis_mats(c_sys)))


def rand_kraus(g, d, m, rank=1):
    """m outcome groups, each with `rank` Kraus operators, jointly trace preserving"""
    n = m * rank
    z = g.standard_normal((n * d, d)) + 1j * g.standard_normal((n * d, d))
    qm, _ = np.linalg.qr(z)  # isometry (n*d) x d
    ks = [qm[i * d:(i + 1) * d, :] for i in range(n)]
    return [ks[i * rank:(i + 1) * rank] for i in range(m)]


def hs_of_kraus(c_sys, ks):
    B = basis_mats(c_sys)
    n = len(B)
    hs = np.zeros((n, n))
    for a in range(n):
        for b in range(n):
            hs[a, b] = sum(np.trace(B[a].conj().T @ k @ B[b] @ k.conj().T) for k in ks).real
    return hs


def rand_state(g, c_sys, rank=None, required=True):
    return State(c_sys, vec_of(c_sys, rand_density(g, c_sys.dim, rank)), is_physicality_required=required)


def rand_povm_mats(g, d, m, rank=None):
    rank = rank or d
    es = []
    for _ in range(m):
        a = g.standard_normal((d, rank)) + 1j * g.standard_normal((d, rank))
        es.append(a @ a.conj().T)
    s = sum(es)
    w, v = np.linalg.eigh(s)
    sinv = v @ np.diag(w ** -0.5) @ v.conj().T
    return [sinv @ e @ sinv for e in es]


def rand_povm(g, c_sys, m, rank=None, required=True):
    mats = rand_povm_mats(g, c_sys.dim, m, rank)
    return Povm(c_sys, [vec_of(c_sys, e) for e in mats], is_physicality_required=required)


def rand_gate(g, c_sys, kraus_rank=2, required=True):
    ks = rand_kraus(g, c_sys.dim, 1, kraus_rank)[0]
    return Gate(c_sys, hs_of_kraus(c_sys, ks), is_physicality_required=required)


def rand_mprocess(g, c_sys, m, kraus_rank=1, required=True, **kw):
    groups = rand_kraus(g, c_sys.dim, m, kraus_rank)
    hss = [hs_of_kraus(c_sys, ks) for ks in groups]
    return MProcess(c_sys, hss, is_physicality_required=required, **kw), groups


def dyadic(g, shape, bits=10, scale=1.0):
    """random reals that are small dyadic rationals (keeps the exact model's rationals short)"""
    return np.round(g.standard_normal(shape) * scale * 2 ** bits) / 2 ** bits
