"""C18 — Lindbladian generators: correspondence with QModel.C18 and property oracle on the real code.

Defects with precise signatures:
  D12  calc_j_mat enumerated basis[1:] (identity component dropped, coefficient of basis[1] halved) - REPAIRED in /repo by
       `fix:` 8192d10; the `.../identity-component-dropped` signatures stay live and are no longer known findings, so
       re-introducing the defect is reported as a VIOLATION
  D13  generate_j_part_cb_from_jump_operators uses the jump operators themselves instead of c^dagger c (known finding)
Every D12/D13-affected check compares the observed value with BOTH the correct value and the value the
documented defect predicts; anything that matches neither gets a different (`.../other`) signature."""
import itertools
import numpy as np
import shim  # noqa: F401
from common import Driver, q, qlist, unqlist
import qobj
from quara.objects import matrix_basis as mb
from quara.objects import effective_lindbladian as el
from quara.objects.effective_lindbladian import EffectiveLindbladian
from quara.objects.gate import convert_hs
from scipy.linalg import expm

ATOL = 1e-13          # Settings.get_atol() default
EPS = "1/10000000000000"
TOL = 1e-9
ABS_FLOOR = 1e-12      # 10 x Settings atol: slack for quara's absolute truncation of entries below 1e-13


# ----------------------------------------------------------------------------- systems
def _dense(b):
    return np.array(b.toarray() if hasattr(b, "toarray") else b, dtype=np.complex128)


def rotated_csys(g, kind):
    """orthonormal Hermitian basis with B_0 = 1/sqrt(d): the traceless elements mixed by a random rotation"""
    base = mb.get_normalized_pauli_basis() if kind == "qubit" else mb.get_normalized_gell_mann_basis()
    B = [_dense(x) for x in base]
    n = len(B)
    O, _ = np.linalg.qr(g.standard_normal((n - 1, n - 1)))
    nb = [B[0]] + [sum(O[a, c] * B[c + 1] for c in range(n - 1)) for a in range(n - 1)]
    return qobj.csys(kind, basis_fn=lambda: mb.SparseMatrixBasis(nb))


def systems(ctx, g, role):
    out = [("qubit", qobj.csys("qubit")), ("qubit-rot", rotated_csys(g, "qubit")), ("qutrit", qobj.csys("qutrit"))]
    if not ctx.quick:
        out.append(("qutrit-rot", rotated_csys(g, "qutrit")))
        out.append(("2qubit", qobj.csys("qubit", names=(0, 1))))
    return out


# ----------------------------------------------------------------------------- generators
def dy(g, shape, scale=1.0, bits=8):
    return np.round(g.standard_normal(shape) * 2 ** bits) / 2 ** bits * scale


def herm(g, d, scale=1.0):
    a = dy(g, (d, d)) + 1j * dy(g, (d, d))
    return scale * (a + a.conj().T) / 2


def psd(g, n, rank, scale=1.0):
    a = dy(g, (n, rank)) + 1j * dy(g, (n, rank))
    return scale * (a @ a.conj().T) / 4


def rand_K(g, n, kind, scale):
    if kind == "psd-full":
        return psd(g, n, n, scale)
    if kind == "psd-rank1":
        return psd(g, n, 1, scale)
    if kind == "psd-lowrank":
        return psd(g, n, max(1, n // 2), scale)
    if kind == "indefinite":
        return herm(g, n, scale)
    if kind in ("strong-slightly-indefinite", "strong-slightly-positive"):
        # PSD part of spectral radius `scale` (30 .. 40: the largest strength at which quara's ABSOLUTE 1e-13 thresholds on
        # round-off imaginary parts still pass) plus ONE eigenvalue of modulus 5e-14 * scale >= 15 atol, two orders above
        # float round-off -> it must be judged by its sign
        u = qobj.rand_unitary(g, n)
        ev = scale * np.linspace(1.0, 0.25, n)
        ev[-1] = (-5e-14 if kind.endswith("indefinite") else 5e-14) * scale
        K = (u * ev) @ u.conj().T
        return (K + K.conj().T) / 2
    if kind == "traceless-J":   # K supported away from index 0 with zero trace: J has no identity and no B_1 part
        K = np.zeros((n, n), dtype=complex)
        return K
    raise ValueError(kind)


K_KINDS = ["psd-full", "psd-rank1", "psd-lowrank", "indefinite"]
SCALES = [1e-2, 1e-1, 1.0, 8.0]
WEAK = [1e-4, 1e-6, 1e-7]     # weak generators: H and K both at this strength (with SCALES: 1 ... 1e-7)


def basis_of(c):
    return qobj.basis_mats(c)


def J_of_K(B, K):
    n = len(B) - 1
    return -0.5 * sum(K[a, b] * B[b + 1].conj().T @ B[a + 1] for a in range(n) for b in range(n))


def lcb_of_hs(B, hs):
    """comp-basis (row-major vec) matrix of the map with HS matrix hs — own formula"""
    V = np.array([b.flatten() for b in B])          # V[a, r] = B_a[r]
    return V.T @ hs @ V.conj()


def hs_of_lcb(B, L):
    V = np.array([b.flatten() for b in B])
    return V.conj() @ L @ V.T


def lcb_gksl(B, H, K, J=None):
    d = B[0].shape[0]
    I = np.eye(d)
    n = len(B) - 1
    if J is None:
        J = J_of_K(B, K)
    L = -1j * (np.kron(H, I) - np.kron(I, H.conj())) + np.kron(J, I) + np.kron(I, J.conj())
    for a in range(n):
        for b in range(n):
            if K[a, b] != 0:
                L = L + K[a, b] * np.kron(B[a + 1], B[b + 1].conj())
    return L


def gksl_apply(B, H, K, rho):
    n = len(B) - 1
    out = -1j * (H @ rho - rho @ H)
    for a in range(n):
        for b in range(n):
            if K[a, b] != 0:
                G = B[b + 1].conj().T @ B[a + 1]
                out = out + K[a, b] * (B[a + 1] @ rho @ B[b + 1].conj().T - 0.5 * (G @ rho + rho @ G))
    return out


def coeff_matrix(B, hs):
    """c[a,b] = sum_{g,e} hs[g,e] tr(B_e B_a B_g B_b): the full (d^2 x d^2) coefficient matrix of
    L = sum c[a,b] B_a . B_b^dagger — independent of the code's trace formulas"""
    T = np.array(B)
    return np.einsum("ge,eij,ajk,gkl,bli->ab", hs, T, T, T, T, optimize=True)


def choi_of_hs(B, hs):
    """Choi matrix sum_{ij} E_ij (x) G(E_ij) from the HS matrix — own formula"""
    d = B[0].shape[0]
    L = lcb_of_hs(B, hs)
    C = np.zeros((d * d, d * d), dtype=complex)
    for i in range(d):
        for j in range(d):
            E = np.zeros((d, d), dtype=complex); E[i, j] = 1
            out = (L @ E.flatten()).reshape(d, d)
            C += np.kron(E, out)
    return C


def EL(c, hs, **kw):
    kw.setdefault("is_physicality_required", False)
    return EffectiveLindbladian(c, np.array(hs, dtype=np.float64), **kw)


# ----------------------------------------------------------------------------- protocol packing
def pc(A):
    A = np.asarray(A, dtype=np.complex128).flatten()
    return qlist(x for z in A for x in (z.real, z.imag))


def prr(A):
    return qlist(np.asarray(A, dtype=np.float64).flatten())


def pbasis(B):
    return qlist(x for b in B for z in b.flatten() for x in (z.real, z.imag))


def unc(s, shape):
    v = [float(x) for x in unqlist(s)]
    return (np.array(v[0::2]) + 1j * np.array(v[1::2])).reshape(shape)


def unr(s, shape):
    return np.array([float(x) for x in unqlist(s)]).reshape(shape)


def near(a, b, tol=TOL, ref=1.0):
    """|a - b| <= tol * max(ref, |a|, |b|): RELATIVE to the magnitude `ref` of the generator at hand (a weak generator
    of strength 1e-6 is compared at 1e-6 * tol, not at tol)"""
    a = np.asarray(a); b = np.asarray(b)
    if a.shape != b.shape:
        return False
    sc = max(float(ref), float(np.abs(a).max(initial=0)), float(np.abs(b).max(initial=0)))
    # + ABS_FLOOR: every hs that quara returns went through `_truncate_hs`, whose fluctuation cut sets entries with
    # |x| < atol = 1e-13 to 0 (ABSOLUTE, whatever the strength of the generator); a genuine entry just below the cut is
    # therefore off by up to 1e-13, and sums / extractions of a few such entries by a small multiple of it
    return bool(np.abs(a - b).max(initial=0) <= tol * sc + ABS_FLOOR)


def err_kind(e):
    m = str(e)
    if "h_mat must be Hermitian" in m:
        return "notHermitianH"
    if "j_mat must be Hermitian" in m:
        return "notHermitianJ"
    if "k_mat must be Hermitian" in m:
        return "notHermitianK"
    if "imaginary parts" in m:
        return "imagPart"
    if isinstance(e, TypeError) or isinstance(e, IndexError):
        return "emptyJump"
    return type(e).__name__


def impl_r(fn):
    try:
        return ("ok", np.array(fn(), dtype=np.float64))
    except Exception as e:  # noqa
        return ("err", err_kind(e))


# ----------------------------------------------------------------------------- correspondence
def correspondence(ctx):
    drv = Driver("C18")
    pend = []   # (op, input-description, impl, reply-index, parser)
    g = ctx.npgen(11)
    reps = 3 if ctx.quick else 6

    cur = {"ref": 1.0}     # comparison scale of the case at hand (weak generators are compared relative to their strength)

    def ask_c(op, desc, impl, shape, *toks):
        pend.append((op, desc, ("ok", np.asarray(impl)), drv.ask(*toks), ("c", shape), cur["ref"]))

    def ask_r(op, desc, impl, shape, *toks):
        pend.append((op, desc, impl, drv.ask(*toks), ("r", shape), cur["ref"]))

    for label, c in systems(ctx, g, "corr"):
        B = basis_of(c)
        d = c.dim
        n = d * d
        bs = pbasis(B)
        for rep in range(reps):
            ccases = [(kk, kind, SCALES[int(g.integers(0, 4))], SCALES[int(g.integers(0, 4))]) for kk, kind in enumerate(K_KINDS)]
            wk = WEAK[rep % len(WEAK)]
            ccases.append((4, K_KINDS[rep % 4], wk, wk))          # weak generator: the truncation thresholds of _truncate_hs matter
            for kk, kind, sH, sK in ccases:
                cur["ref"] = 1.0 if kk < 4 else 0.1 * wk
                H = herm(g, d, sH)
                K = rand_K(g, n - 1, kind, sK)
                J = herm(g, d, sK)
                desc = {"sys": label, "K": kind, "sH": sH, "sK": sK, "rep": rep}
                ctx.count(f"corr {label} K={kind}" + (f" weak strength={sH:g}" if kk == 4 else ""))
                ctx.case(("corr", label, kind, rep, H.tobytes(), K.tobytes()), nontrivial=True,
                         sample={"op": "fromhk/ext/...", **desc})
                # ---- builders
                r1 = impl_r(lambda: el.generate_hs_from_hk(c, H, K))
                ask_r("fromhk", desc, r1, (n, n), "fromhk", d, bs, pc(H), pc(K), EPS, EPS)
                ask_r("fromhjk", desc, impl_r(lambda: el.generate_hs_from_hjk(c, H, J, K)), (n, n),
                      "fromhjk", d, bs, pc(H), pc(J), pc(K), EPS, EPS)
                if kk == 0:
                    ask_r("fromh", desc, impl_r(lambda: el.generate_hs_from_h(c, H)), (n, n),
                          "fromh", d, bs, pc(H), EPS, EPS)
                ask_r("fromk", desc, impl_r(lambda: el.generate_hs_from_k(c, K)), (n, n),
                      "fromk", d, bs, pc(K), EPS, EPS)
                ask_c("jfromk", desc, el._calc_j_mat_from_k_mat(K, c), (d, d), "jfromk", d, bs, pc(K))
                # ---- extraction on the generator from (H, J, K) (not TP, generic) and on a generic real hs
                hs_list = []
                if r1[0] == "ok":
                    hs_list.append(("hk", r1[1]))
                hs_list.append(("generic", dy(g, (n, n), sK)))
                for hname, hs in hs_list:
                    L = EL(c, hs)
                    dd = dict(desc, hs=hname)
                    hss = prr(hs)
                    ask_c("hmat", dd, L.calc_h_mat(), (d, d), "ext", "hmat", d, bs, hss)
                    ask_c("jmat", dd, L.calc_j_mat(), (d, d), "ext", "jmat", d, bs, hss)
                    ask_c("kmat", dd, L.calc_k_mat(), (n - 1, n - 1), "ext", "kmat", d, bs, hss)
                    ask_c("tocomp", dd, convert_hs(L.hs, c.basis(), c.comp_basis()), (n, n), "ext", "tocomp", d, bs, hss)
                    ask_c("hpartcb", dd, L.calc_h_part("comp_basis"), (n, n), "ext", "hpartcb", d, bs, hss)
                    ask_c("jpartcb", dd, L.calc_j_part("comp_basis"), (n, n), "ext", "jpartcb", d, bs, hss)
                    ask_c("kpartcb", dd, L.calc_k_part("comp_basis"), (n, n), "ext", "kpartcb", d, bs, hss)
                    for nm, fn in (("hpart", L.calc_h_part), ("jpart", L.calc_j_part), ("kpart", L.calc_k_part),
                                   ("dpart", L.calc_d_part)):
                        ask_r(nm, dd, impl_r(lambda: fn("hermitian_basis")), (n, n), "part", nm, d, bs, hss, EPS)
                    # verdicts
                    kimpl = L.calc_k_mat()
                    eigs = np.linalg.eigvalsh(kimpl)
                    if np.abs(eigs).min() > 1e-9 and np.abs(kimpl - kimpl.conj().T).max() < 1e-14:
                        pend.append(("iscp", dd, ("ok", bool(L.is_cp())),
                                     drv.ask("iscp", d, bs, hss, qlist(eigs), EPS), ("b", None), 1.0))
                    # projections
                    ask_r("projeq", dd, ("ok", L.calc_proj_eq_constraint().hs), (n, n), "projeq", n, hss)
                    lam, V = np.linalg.eig(kimpl)
                    if np.abs(lam.real).min() > 1e-9:
                        ask_r("projineq", dd, impl_r(lambda: L.calc_proj_ineq_constraint().hs), (n, n),
                              "projineq", d, bs, hss, pc(lam), pc(V), EPS, EPS)
                # ---- jump operators
                m = int(g.integers(1, n + 1)) if kk else 1
                cs = [dy(g, (d, d), np.sqrt(sK)) + 1j * dy(g, (d, d), np.sqrt(sK)) for _ in range(m)]
                dj = dict(desc, jumps=m)
                ctx.count(f"corr jump-operators m={'1' if m == 1 else ('d^2' if m == n else 'mid')}")
                ask_r("jump", dj, impl_r(lambda: el.generate_effective_lindbladian_from_jump_operators(
                    c, cs, is_physicality_required=False).hs), (n, n), "jump", d, bs, pc(np.array(cs)), EPS)
                jp = el.generate_j_part_cb_from_jump_operators(cs)
                kp = el.generate_k_part_cb_from_jump_operators(cs)
                pend.append(("jumpparts", dj, ("ok", (jp, kp)), drv.ask("jumpparts", d, pc(np.array(cs))), ("cc", (n, n)), cur["ref"]))
            cur["ref"] = 1.0
            # ---- is_tp thresholds (well inside / well outside), to_gate series
            for off, expect in ((0.0, True), (ATOL / 10, True), (ATOL * 10, False), (1e-3, False)):
                hs = dy(g, (n, n), 1.0)
                hs[0, :] = 0
                hs[0, int(g.integers(0, n))] = off * (1 if g.random() < 0.5 else -1)
                L = EL(c, hs)
                pend.append(("istp", {"sys": label, "row0": off}, ("ok", bool(L.is_tp())),
                             drv.ask("istp", n, prr(hs), EPS), ("b", None), 1.0))
                ctx.count(f"corr is_tp offset={off:g}")
            if n <= 9 or rep == 0:
                hs = dy(g, (n, n), 0.25, bits=5)
                hs[0, :] = 0
                L = EL(c, hs)
                ask_r("expseries", {"sys": label, "what": "to_gate"}, ("ok", L.to_gate().hs), (n, n),
                      "expseries", n, prr(hs), 30)
        # ---- error branches of the guards (clearly non-Hermitian arguments)
        H = herm(g, d); K = psd(g, n - 1, 2); J = herm(g, d)
        Hb = H.copy(); Hb[0, d - 1] += 0.25
        Kb = K.copy(); Kb[0, n - 2] += 0.25j
        Jb = J.copy(); Jb[d - 1, 0] -= 0.5
        for nm, (h_, j_, k_) in (("badH", (Hb, J, K)), ("badJ", (H, Jb, K)), ("badK", (H, J, Kb)), ("badHK", (Hb, J, Kb))):
            ask_r("fromhjk", {"sys": label, "guard": nm}, impl_r(lambda: el.generate_hs_from_hjk(c, h_, j_, k_)), (n, n),
                  "fromhjk", d, bs, pc(h_), pc(j_), pc(k_), EPS, EPS)
            ask_r("fromhk", {"sys": label, "guard": nm}, impl_r(lambda: el.generate_hs_from_hk(c, h_, k_)), (n, n),
                  "fromhk", d, bs, pc(h_), pc(k_), EPS, EPS)
            ctx.count("corr guard error branches")
        ask_r("jump", {"sys": label, "jumps": 0}, impl_r(lambda: el.generate_effective_lindbladian_from_jump_operators(
            c, [], is_physicality_required=False).hs), (n, n), "jump", d, bs, "-", EPS)
    # ---- constructor guards: every ValueError branch of EffectiveLindbladian.__init__ / Gate.__init__, in code order
    def ctor_kind(e):
        m = str(e)
        for key, kind_ in (("0th prop I", "basisNotOnh0"), ("must be square matrix", "notSquare"), ("square number", "dimNotSquare"),
                           ("must be real matrix", "notReal"), ("must equal dim of CompositeSystem", "dimMismatch"),
                           ("not physically correct", "notPhysical")):
            if key in m:
                return kind_
        return type(e).__name__
    c_q = qobj.csys("qubit")
    c_bad = qobj.csys("qubit", basis_fn=lambda: mb.SparseMatrixBasis([_dense(x) for x in mb.get_pauli_basis()]))   # unnormalised
    Hc = herm(g, 2, 1.0)
    hs_phys = el.generate_hs_from_hk(c_q, Hc, psd(g, 3, 2, 0.5))
    hs_ncp = el.generate_hs_from_hk(c_q, Hc, herm(g, 3, 1.0))
    hs_ntp = hs_phys.copy(); hs_ntp[0, 1] = 0.25
    ctor_cases = [
        ("ok-physical", c_q, hs_phys, True), ("ok-not-required", c_q, hs_ntp, False),
        ("basis", c_bad, hs_phys, True), ("basis-first", c_bad, np.zeros((4, 5)), True),
        ("not-square", c_q, np.zeros((4, 5)), True), ("dim-not-square", c_q, np.zeros((3, 3)), True),
        ("dim-not-square-2", c_q, np.zeros((8, 8)), False),
        ("complex", c_q, hs_phys.astype(np.complex128), True), ("int", c_q, np.zeros((4, 4), dtype=np.int64), False),
        ("float32", c_q, hs_phys.astype(np.float32), False),
        ("dim-mismatch", c_q, np.zeros((9, 9)), True), ("dim-mismatch-before-physical", c_q, np.eye(9), True),
        ("not-tp", c_q, hs_ntp, True), ("not-cp", c_q, hs_ncp, True),
    ]
    for nm, cc, hsx, req in ctor_cases:
        try:
            EffectiveLindbladian(cc, hsx, is_physicality_required=req)
            impl_c = "ok"
        except ValueError as e:
            impl_c = "err " + ctor_kind(e)
        rows, cols = hsx.shape
        phys = False
        if cc is c_q and rows == cols == 4 and hsx.dtype == np.float64:
            L_ = EL(cc, hsx)
            phys = bool(L_.is_tp() and L_.is_cp())
        i_ = drv.ask("ctor", int(bool(cc.is_orthonormal_hermitian_0thprop_identity)), rows, cols, int(hsx.dtype == np.float64),
                     cc.dim, int(req), int(phys))
        pend.append(("ctor", {"case": nm}, impl_c, i_, ("s", None), 1.0))
        ctx.count("corr constructor guard branches")
        ctx.case(("ctor", nm), nontrivial=True, sample={"op": "constructor guards", "case": nm})
    out = drv.run()
    for op, desc, impl, i, (kind, shape), ref in pend:
        ctx.corr_ops.add(op)
        rep = out[i]
        t = rep.split()
        ok = False
        if t[0] == "bad-op":
            ok = False
        elif kind == "s":
            ok = rep == impl
        elif kind == "b":
            ok = t[0] == "ok" and (t[1] == "true") == impl[1]
        elif t[0] == "err" or impl[0] == "err":
            ok = t[0] == "err" and impl[0] == "err" and t[1] == impl[1]
        elif kind == "c":
            ok = near(unc(t[1], shape), impl[1], TOL, ref)
        elif kind == "r":
            ok = near(unr(t[1], shape), impl[1], TOL, ref)
        elif kind == "cc":
            ok = near(unc(t[1], shape), impl[1][0], TOL, ref) and near(unc(t[2], shape), impl[1][1], TOL, ref)
        if not ok:
            ctx.disagree(op, desc, str(impl)[:300], rep[:300])


# ----------------------------------------------------------------------------- oracle
def arr(A):
    A = np.asarray(A)
    if np.iscomplexobj(A):
        return {"re": A.real.tolist(), "im": A.imag.tolist()}
    return {"re": A.tolist()}


def unarr(dct):
    a = np.array(dct["re"], dtype=np.float64)
    if "im" in dct:
        return a + 1j * np.array(dct["im"], dtype=np.float64)
    return a


def preuse(c):
    """read-only queries that other users of the same composite system may have made before (both modes of the
    computational basis — column-major FIRST —, the basis, the sparse tables): none of them may change what the Lindbladian
    functions compute afterwards"""
    c.comp_basis(mode="column_major")
    c.comp_basis(mode="row_major")
    c.comp_basis()
    c.basis()
    for e_ in c.elemental_systems:
        e_.comp_basis(mode="column_major")
        e_.comp_basis()
    _ = c.basis_basisconjugate_T_sparse_from_1, c.basishermitian_basis_T_from_1, c.basis_T_sparse
    return c


def sys_by_label(label, rot_seed):
    if label.endswith("-pre"):
        return preuse(sys_by_label(label[:-4], rot_seed))
    g = np.random.Generator(np.random.PCG64(rot_seed))
    if label.endswith("-rot"):
        return rotated_csys(g, label[:-4])
    if label == "2qubit":
        return qobj.csys("qubit", names=(0, 1))
    return qobj.csys(label)


def d12_coded_j(B, Jtrue):
    """what calc_j_mat returns under D12 for a generator whose anti-commutator matrix is Jtrue"""
    co = [np.trace(b.conj().T @ Jtrue) for b in B]
    out = np.zeros_like(Jtrue, dtype=complex)
    for a in range(1, len(B)):
        out = out + (0.5 if a == 1 else 1.0) * co[a] * B[a]
    return out


def check_generator(ctx, label, rot_seed, c, B, hs, H, K, J, family, tag, g):
    """all clauses of the property for one generator hs built from (H, K) [J = J_of_K] or (H, J, K)."""
    d = c.dim
    n = d * d
    I = np.eye(d)
    rep = {"kind": "gen", "sys": label, "rot_seed": rot_seed, "hs": arr(hs), "H": arr(H), "K": arr(K), "J": arr(J),
           "family": family, "tag": tag}
    fails = []
    S = max(float(np.abs(np.asarray(hs)).max()), 1e-300)      # magnitude of the generator: every comparison is relative to it

    def V(sig, what):
        ctx.violate(sig, what, rep)
        fails.append(sig)

    try:
        L = EL(c, hs)
        # 1. GKSL action on random states (independent numpy from (H, K))
        if tag == "hk":
            for _ in range(3):
                rho = qobj.rand_density(g, d)
                out = qobj.mat_of(c, L.hs @ qobj.vec_of(c, rho))
                ref = gksl_apply(B, H, K, rho)
                if not near(out, ref, 1e-8, ref=S):
                    V(f"C18/gksl_action/{family}", f"{label}: generator from (H,K) acts differently from the GKSL equation, max diff {np.abs(out - ref).max():.3g}")
                    break
        # 2. extraction
        Ht = H - np.trace(H) / d * I
        h = L.calc_h_mat(); k = L.calc_k_mat(); j = L.calc_j_mat()
        if not near(h, Ht, 1e-8, ref=S):
            V(f"C18/calc_h_mat/{family}", f"{label}: calc_h_mat != traceless part of H, diff {np.abs(h - Ht).max():.3g}")
        if not near(k, K, 1e-8, ref=S):
            V(f"C18/calc_k_mat/{family}", f"{label}: calc_k_mat != K, diff {np.abs(k - K).max():.3g}")
        j_ok = near(j, J, 1e-8, ref=S)
        if not j_ok:
            if near(j, d12_coded_j(B, J), 1e-8, ref=S):
                V("C18/calc_j_mat/identity-component-dropped", f"{label}: calc_j_mat drops the identity component of J and halves the basis[1] one: tr J = {np.trace(J).real:.4g}, extracted trace {np.trace(j).real:.3g}, diff {np.abs(j - J).max():.3g}")
            else:
                V(f"C18/calc_j_mat/{family}/other", f"{label}: calc_j_mat differs from J and from the D12 pattern, diff {np.abs(j - J).max():.3g}")
        # 3. parts sum to the whole, both basis modes
        Lcb = lcb_of_hs(B, L.hs)
        resid_cb_d12 = np.kron(J - d12_coded_j(B, J), I) + np.kron(I, (J - d12_coded_j(B, J)).conj())
        for mode, whole, resid in (("hermitian_basis", L.hs, hs_of_lcb(B, resid_cb_d12).real), ("comp_basis", Lcb, resid_cb_d12)):
            try:
                s = L.calc_h_part(mode) + L.calc_j_part(mode) + L.calc_k_part(mode)
                dpart = L.calc_d_part(mode)
                dsum = L.calc_j_part(mode) + L.calc_k_part(mode)
            except Exception as e:  # noqa
                V(f"C18/parts_sum/{mode}/raises", f"{label}: {type(e).__name__}: {e}"); continue
            if not near(dpart, dsum, 1e-8, ref=S):
                V(f"C18/parts_sum/{mode}/d_part", f"{label}: d part != j part + k part")
            if near(s, whole, 1e-8, ref=S):
                continue
            if (not j_ok) and near(whole - s, resid, 1e-8, ref=S):
                V(f"C18/parts_sum/{mode}/identity-component-dropped", f"{label}: h+j+k parts differ from the whole by {np.abs(whole - s).max():.3g} (= the dropped J components)")
            else:
                V(f"C18/parts_sum/{mode}/{family}/other", f"{label}: h+j+k parts differ from the whole by {np.abs(whole - s).max():.3g}, not explained by D12")
        # 4. extract -> rebuild reproduces the generator
        try:
            hs2 = el.generate_hs_from_hjk(c, h, j, k)
            if not near(hs2, L.hs, 1e-8, ref=S):
                if (not j_ok) and near(L.hs - hs2, hs_of_lcb(B, resid_cb_d12).real, 1e-8, ref=S):
                    V("C18/extract_rebuild/identity-component-dropped", f"{label}: rebuild from extracted (h,j,k) differs by {np.abs(hs2 - L.hs).max():.3g}")
                else:
                    V(f"C18/extract_rebuild/{family}/other", f"{label}: rebuild from extracted (h,j,k) differs by {np.abs(hs2 - L.hs).max():.3g}, not explained by D12")
        except Exception as e:  # noqa
            V(f"C18/extract_rebuild/{family}/raises", f"{label}: {type(e).__name__}: {e}")
        # 5. verdicts: physical <=> first row zero and K PSD (K from an independent coefficient formula)
        cm = coeff_matrix(B, L.hs)
        Kind = cm[1:, 1:]
        ev = np.linalg.eigvalsh((Kind + Kind.conj().T) / 2)
        row0 = np.abs(L.hs[0]).max()
        # quara's verdicts use the ABSOLUTE atol = 1e-13: expectations are formed only where the reference lies at
        # <= atol/10 inside or >= 10 atol outside (weak generators included: a PSD K of strength 1e-7 must be judged CP)
        if (row0 <= 1e-14 or row0 >= 1e-12) and (ev.min() >= -1e-14 or ev.min() <= -1e-12):
            exp_tp, exp_cp = bool(row0 <= 1e-14), bool(ev.min() >= -1e-14)
            if bool(L.is_tp()) != exp_tp:
                V(f"C18/is_tp/{family}", f"{label}: is_tp={L.is_tp()} but max|first row|={row0:.3g}")
            if bool(L.is_cp()) != exp_cp:
                V(f"C18/is_cp/{family}", f"{label}: is_cp={L.is_cp()} but min eig K={ev.min():.3g}")
            if bool(L.is_physical()) != (exp_tp and exp_cp):
                V(f"C18/is_physical/{family}", f"{label}: is_physical={L.is_physical()} but tp={exp_tp} cp={exp_cp}")
            physical = exp_tp and exp_cp
        else:
            physical = None
        # 6. equality projection
        P = L.calc_proj_eq_constraint()
        if np.any(P.hs[0] != 0) or np.any(P.hs[1:] != L.hs[1:]):
            V(f"C18/proj_eq/{family}", f"{label}: equality projection must zero exactly the first row and keep the others")
        if not np.array_equal(L.hs, np.array(hs, dtype=np.float64)):
            V(f"C18/proj_eq/mutates/{family}", f"{label}: projection modified the generator it was called on")
        # 7. inequality projection: PSD dissipator; physical generators unchanged
        try:
            Q = L.calc_proj_ineq_constraint()
            cq = coeff_matrix(B, Q.hs)[1:, 1:]
            evq = np.linalg.eigvalsh((cq + cq.conj().T) / 2)
            if evq.min() < -1e-8 * max(1, np.abs(evq).max()):
                V(f"C18/proj_ineq/psd/{family}", f"{label}: dissipator of the inequality projection has eigenvalue {evq.min():.3g}")
            # dissipator = clipped K exactly
            w, U = np.linalg.eigh((Kind + Kind.conj().T) / 2)
            Kclip = U @ np.diag(np.maximum(w, 0)) @ U.conj().T
            if not near(cq, Kclip, 1e-7, ref=S):
                V(f"C18/proj_ineq/clip/{family}", f"{label}: dissipator of the inequality projection is not the eigenvalue-clipped K, diff {np.abs(cq - Kclip).max():.3g}")
            if physical:
                if not near(Q.hs, L.hs, 1e-8, ref=S):
                    if (not j_ok) and near(L.hs - Q.hs, hs_of_lcb(B, resid_cb_d12).real, 1e-7, ref=S):
                        V("C18/proj_ineq/physical-unchanged/identity-component-dropped", f"{label}: inequality projection changes a physical generator by {np.abs(Q.hs - L.hs).max():.3g} (first row {np.abs(Q.hs[0]).max():.3g})")
                    else:
                        V(f"C18/proj_ineq/physical-unchanged/{family}/other", f"{label}: inequality projection changes a physical generator by {np.abs(Q.hs - L.hs).max():.3g}, not explained by D12")
        except Exception as e:  # noqa
            V(f"C18/proj_ineq/{family}/raises", f"{label}: {type(e).__name__}: {e}")
        # 8. to_gate of a physical generator
        if physical:
            ctx.count(f"oracle to_gate physical generators {label}")
            for t in (1e-3, 1e-1, 1.0, 10.0):
                Lt = EL(c, L.hs * t)
                try:
                    G = Lt.to_gate()
                except Exception as e:  # noqa
                    V(f"C18/to_gate/{family}/raises", f"{label}: t={t}: {type(e).__name__}: {e}"); break
                ref = expm(L.hs * t)
                ch = choi_of_hs(B, G.hs)
                e0 = np.zeros(n); e0[0] = 1
                bad = []
                if not near(G.hs, ref, 1e-9, ref=S):
                    bad.append("differs from scipy expm")
                if np.abs(G.hs[0] - e0).max() > 1e-9:
                    bad.append("not TP")
                if np.linalg.eigvalsh((ch + ch.conj().T) / 2).min() < -1e-8:
                    bad.append("Choi not PSD")
                # Gate.is_physical compares at atol = 1e-13: demanded only where float rounding of expm stays
                # far below that (|t L| small); beyond, the tolerance-based checks above decide
                if np.abs(L.hs * t).max() <= 5.0 and not bool(G.is_physical()):
                    bad.append("is_physical False")
                # semigroup law as an independent check of the exponential
                if not near(G.hs @ G.hs, expm(2 * t * L.hs), 1e-8, ref=S):
                    bad.append("G(t)^2 != G(2t)")
                if bad:
                    V(f"C18/to_gate/{family}", f"{label}: t={t}: " + ", ".join(bad)); break
    except Exception as e:  # noqa
        V(f"C18/{family}/raises", f"{label}: unexpected {type(e).__name__}: {e}")
    return fails


def check_jump(ctx, label, rot_seed, c, B, cs, family, g):
    d = c.dim
    I = np.eye(d)
    rep = {"kind": "jump", "sys": label, "rot_seed": rot_seed, "cs": [arr(x) for x in cs], "family": family}
    fails = []

    def V(sig, what):
        ctx.violate(sig, what, rep); fails.append(sig)
    try:
        L = el.generate_effective_lindbladian_from_jump_operators(c, cs, is_physicality_required=False)
        Lcb = lcb_of_hs(B, L.hs)
        kref = sum(np.kron(x, x.conj()) for x in cs)
        jref = -0.5 * sum(np.kron(x.conj().T @ x, I) + np.kron(I, (x.conj().T @ x).conj()) for x in cs)
        jcoded = -0.5 * sum(np.kron(x, I) + np.kron(I, x.conj()) for x in cs)
        rho = qobj.rand_density(g, d)
        ref = sum(x @ rho @ x.conj().T - 0.5 * (x.conj().T @ x @ rho + rho @ x.conj().T @ x) for x in cs)
        out = qobj.mat_of(c, L.hs @ qobj.vec_of(c, rho))
        S = max(float(np.abs(kref).max()), 1e-300)
        if near(out, ref, 1e-8, ref=S) and near(Lcb, kref + jref, 1e-8, ref=S):
            if not (L.is_tp() and L.is_cp()):
                V(f"C18/jump/verdict/{family}", f"{label}: GKSL generator from jump operators judged tp={L.is_tp()} cp={L.is_cp()}")
        elif near(Lcb, kref + jcoded, 1e-8, ref=S):
            V("C18/jump/gksl_action/anticommutator-uses-c-not-cdagc", f"{label}: generator from {len(cs)} jump operator(s) is not the GKSL one (diff on a state {np.abs(out - ref).max():.3g}); its anti-commutator part is built from c instead of c^dagger c; is_tp={L.is_tp()}")
        else:
            V(f"C18/jump/gksl_action/{family}/other", f"{label}: generator from jump operators differs from GKSL by {np.abs(out - ref).max():.3g}, not explained by D13")
        kp = el.generate_k_part_cb_from_jump_operators(cs)
        if not near(kp, kref, 1e-9, ref=S):
            V(f"C18/jump/k_part/{family}", f"{label}: k part from jump operators != sum c (x) conj c")
        kg = el.generate_k_part_gb_from_jump_operators(cs, c.basis())
        if not near(kg, hs_of_lcb(B, kref).real, 1e-9, ref=S):
            V(f"C18/jump/k_part_gb/{family}", f"{label}: k part (basis) from jump operators wrong")
    except Exception as e:  # noqa
        V(f"C18/jump/{family}/raises", f"{label}: {type(e).__name__}: {e}")
    return fails


# ----------------------------------------------------------------------------- translator: index glue of calc_h/j/k_mat -> lean/QGen/C18.lean
import re as _re


def _method_lines(cls, name):
    import ast
    fn = [f for f in cls.body if isinstance(f, ast.FunctionDef) and f.name == name]
    if len(fn) != 1:
        raise ValueError(f"translator: EffectiveLindbladian.{name} not found")
    body = [st for st in fn[0].body if not (isinstance(st, ast.Expr) and isinstance(st.value, ast.Constant))]
    return body


def _expect(st, text, where):
    import ast
    got = ast.unparse(st)
    if got != text:
        raise ValueError(f"translator: {where}: expected `{text}`, source has `{got}`")


def _slice_start(it, enumerate_required, where):
    """`basis`, `basis[N:]`, `enumerate(basis)`, `enumerate(basis[N:])` -> N"""
    m = _re.fullmatch(r"enumerate\((basis(?:\[(\d+):\])?)\)" if enumerate_required else r"(basis(?:\[(\d+):\])?)", it)
    if not m:
        raise ValueError(f"translator: {where}: unsupported loop range `{it}`")
    return int(m.group(2) or 0)


_PRELUDE_SRC = ["basis = self.composite_system.basis()", "comp_basis = self.composite_system.comp_basis()",
                "lindbladian_cb = convert_hs(self.hs, basis, comp_basis)"]


def _extract_hj(cls, name, var):
    """skeleton of calc_h_mat / calc_j_mat -> dict(start, neg, conj, imag, den, delta_at)"""
    import ast
    body = _method_lines(cls, name)
    for st, text in zip(body[:3], _PRELUDE_SRC):
        _expect(st, text, name)
    _expect(body[3], "identity = np.eye(self.dim)", name)
    _expect(body[4], f"tmp_{var}_mat = np.zeros((self.dim, self.dim), dtype=np.complex128)", name)
    loop = body[5]
    if not isinstance(loop, ast.For) or loop.orelse or len(body) != 7:
        raise ValueError(f"translator: {name}: expected one for-loop followed by the return")
    _expect(body[6], f"return tmp_{var}_mat", name)
    tgt = ast.unparse(loop.target)
    if tgt == "B_alpha":
        start, enum = _slice_start(ast.unparse(loop.iter), False, name), False
    elif tgt == "(alpha, B_alpha)":
        start, enum = _slice_start(ast.unparse(loop.iter), True, name), True
    else:
        raise ValueError(f"translator: {name}: unsupported loop target `{tgt}`")
    lines = [ast.unparse(st) for st in loop.body]
    m = _re.fullmatch(r"trace = np\.trace\(lindbladian_cb @ \(mutil\.kron\(B_alpha, identity\) ([+-]) mutil\.kron\(identity, B_alpha(\.conj\(\))?\)\)\)", lines[0])
    if not m:
        raise ValueError(f"translator: {name}: unsupported trace statement `{lines[0]}`")
    neg, conj = m.group(1) == "-", bool(m.group(2))
    rest = lines[1:]
    delta_at = None
    if rest and rest[0].startswith("delta"):
        md = _re.fullmatch(r"delta = 1 if alpha == (\d+) else 0", rest[0])
        if not md or not enum:
            raise ValueError(f"translator: {name}: unsupported delta statement `{rest[0]}`")
        delta_at = int(md.group(1))
        rest = rest[1:]
    if len(rest) != 2:
        raise ValueError(f"translator: {name}: unexpected loop body {rest}")
    mc = _re.fullmatch(rf"{var}_alpha = (1j|1) / \((\d+) \* self\.dim( \* \(1 \+ delta\))?\) \* trace", rest[0])
    if not mc or bool(mc.group(3)) != (delta_at is not None):
        raise ValueError(f"translator: {name}: unsupported coefficient `{rest[0]}`")
    if rest[1] != f"tmp_{var}_mat += {var}_alpha * B_alpha":
        raise ValueError(f"translator: {name}: unsupported accumulation `{rest[1]}`")
    return {"start": start, "neg": neg, "conj": conj, "imag": mc.group(1) == "1j", "den": int(mc.group(2)), "delta_at": delta_at}


def _extract_k(cls):
    import ast
    body = _method_lines(cls, "calc_k_mat")
    for st, text in zip(body[:3], _PRELUDE_SRC):
        _expect(st, text, "calc_k_mat")
    _expect(body[3], "tmp_k_mat = np.zeros((self.dim ** 2 - 1, self.dim ** 2 - 1), dtype=np.complex128)", "calc_k_mat")
    loop = body[4]
    _expect(body[5], "return tmp_k_mat", "calc_k_mat")
    if not (isinstance(loop, ast.For) and ast.unparse(loop.target) == "(alpha, B_alpha)" and len(loop.body) == 1
            and isinstance(loop.body[0], ast.For) and ast.unparse(loop.body[0].target) == "(beta, B_beta)" and len(loop.body[0].body) == 1):
        raise ValueError("translator: calc_k_mat: expected two nested enumerate loops with one assignment")
    r0 = _slice_start(ast.unparse(loop.iter), True, "calc_k_mat")
    r1 = _slice_start(ast.unparse(loop.body[0].iter), True, "calc_k_mat")
    m = _re.fullmatch(r"tmp_k_mat\[alpha, beta\] = np\.trace\(lindbladian_cb @ mutil\.kron\(B_alpha, B_beta(\.conj\(\))?\)\)", ast.unparse(loop.body[0].body[0]))
    if not m:
        raise ValueError("translator: calc_k_mat: unsupported entry statement `" + ast.unparse(loop.body[0].body[0]) + "`")
    if (r0, r1) != (1, 1):
        raise ValueError(f"translator: calc_k_mat: loops over basis[{r0}:] x basis[{r1}:] do not fit the (dim^2 - 1)^2 result")
    return {"row": r0, "col": r1, "conj": bool(m.group(1))}


def translate(ctx):
    """regenerates lean/QGen/C18.lean (loop ranges, delta index, signs, conjugations and coefficient constants of
    calc_h_mat / calc_j_mat / calc_k_mat) from the source; raises on anything outside the skeletons above"""
    import ast, os
    from common import REPO, LEAN
    tree = ast.parse(open(os.path.join(REPO, "quara", "objects", "effective_lindbladian.py")).read())
    cls = [n for n in tree.body if isinstance(n, ast.ClassDef) and n.name == "EffectiveLindbladian"]
    if len(cls) != 1:
        raise ValueError("translator: class EffectiveLindbladian not found")
    h, j, k = _extract_hj(cls[0], "calc_h_mat", "h"), _extract_hj(cls[0], "calc_j_mat", "j"), _extract_k(cls[0])
    b = lambda x: "true" if x else "false"     # noqa: E731
    o = lambda x: "none" if x is None else f"some {x}"     # noqa: E731
    text = f'''/-! GENERATED by harness/c18.py:translate from quara/objects/effective_lindbladian.py (Python `ast`) on every run — do not edit.
Index glue of `calc_h_mat`, `calc_j_mat`, `calc_k_mat`: slice start of the loops over the basis, the sign between the two
Kronecker terms, whether the second factor is conjugated, numerator / denominator of the coefficient, position of `delta`. -/
namespace QGen.C18
def hLoopStart : Nat := {h["start"]}
def hNegSecond : Bool := {b(h["neg"])}
def hConjSecond : Bool := {b(h["conj"])}
def hNumImag : Bool := {b(h["imag"])}
def hDen : Nat := {h["den"]}
def hDeltaAt : Option Nat := {o(h["delta_at"])}
def jLoopStart : Nat := {j["start"]}
def jNegSecond : Bool := {b(j["neg"])}
def jConjSecond : Bool := {b(j["conj"])}
def jNumImag : Bool := {b(j["imag"])}
def jDen : Nat := {j["den"]}
def jDeltaAt : Option Nat := {o(j["delta_at"])}
def kLoopStartRow : Nat := {k["row"]}
def kLoopStartCol : Nat := {k["col"]}
def kConjSecond : Bool := {b(k["conj"])}
end QGen.C18
'''
    path = os.path.join(LEAN, "QGen", "C18.lean")
    if not os.path.exists(path) or open(path).read() != text:
        open(path, "w").write(text)
    return []


LEAN_EXTRA_TARGETS = ("QGen.C18",)


PARTIAL = [
    {"theorem": "exp_tp / exp_series_tp / cp_iff_K_psd", "missing": "trace preservation of exp(L) is proved (Mathlib NormedSpace.exp and every partial sum); the jump part of the generator is CP iff K is PSD (Choi = V K V^H, V^H V = 1) is proved; complete positivity of exp(tL) itself (Lindblad's theorem) is not formalised - to_gate's CP is checked per run on the implementation"},
    {"theorem": "parts_sum_partial / parts_sum_comp_partial / parts_sum_herm_partial", "missing": "parts sum proved as an equality of matrices in BOTH basis modes (comp and hermitian_basis, before the float truncation of each part) for generators of the form rebuild(H,J,K); surjectivity of rebuild onto Hermiticity-preserving generators is not formalised - the oracle evaluates both modes on generic real hs"},
    {"theorem": "projIneq_fixed_point / clipK_psd / projIneq_dissipator / clipK_fix_partial", "missing": "inequality projection: clipped K is PSD for any V, it is the dissipator of the rebuilt generator, and under the eig contract (V diag(lam) V^H = calc_k_mat) with no negative eigenvalue the rebuilt generator has the same HS matrix (generator-level fixed point, executed instance); the contract itself (numpy.linalg.eig) and the float truncation / Hermitian guards are hypotheses, not modelled kernels"},
    {"theorem": "gksl_action_hk / hsFromHk_isTp / isCp_iff", "missing": "GKSL action is stated for the exact matrix before _truncate_hs; is_tp of the executed builder's output is proved (hsFromHk_isTp); is_cp is proved as verdict wiring over numpy's eigvalsh result (isCp_iff) and the jump part is CP iff K PSD (cp_iff_K_psd) - 'K PSD <=> exp(tL) CP' is not proved"},
    {"theorem": "jump_operators_gksl_fails", "missing": "negation witness only (D13): the generator built from jump operators is not the GKSL one as coded"},
]


def oracle(ctx, volume=1):
    ctx.partial = PARTIAL
    g = ctx.npgen(21)
    rot_seed = ctx.seed * 1000 + 17
    reps = (3 if ctx.quick else 8) * volume
    labels = ["qubit", "qubit-rot", "qutrit"] + ([] if ctx.quick and volume == 1 else ["qutrit-rot", "2qubit"])
    labels += ["qubit-pre", "qutrit-pre"]       # systems that were queried (column-major comp basis first) before use
    for label in labels:
        c = sys_by_label(label, rot_seed)
        B = basis_of(c)
        d = c.dim
        n = d * d
        I = np.eye(d)
        for rep in range(1 if label.endswith("-pre") else reps):
            cases = [(kind, SCALES[int(g.integers(0, 4))], SCALES[int(g.integers(0, 4))], "") for kind in K_KINDS]
            # weak generators: H and K both at strength 1e-4 / 1e-6 / 1e-7 (all clauses, relative tolerances)
            w = WEAK[rep % len(WEAK)]
            cases += [(K_KINDS[(2 * rep) % 4], w, w, "weak-"), (K_KINDS[(2 * rep + 1) % 4], w, w, "weak-")]
            if not ctx.quick or volume > 1:
                cases += [(K_KINDS[(rep + i) % 4], ww, ww, "weak-") for i, ww in enumerate(WEAK) if ww != w]
            # strong generators whose K is PSD up to one tiny eigenvalue of either sign (verdicts at large spectral radius)
            st = [30.0, 40.0][rep % 2]
            cases += [("strong-slightly-indefinite", 1.0, st, "strong-"), ("strong-slightly-positive", 1.0, st, "strong-")]
            for kind, sH, sK, wk in cases:
                H = herm(g, d, sH)
                K = rand_K(g, n - 1, kind, sK)
                J = J_of_K(B, K)
                ctx.count(f"oracle {label} K={kind}" + (f" weak strength={sH:g}" if wk else ""))
                try:
                    L = el.generate_effective_lindbladian_from_hk(c, H, K, is_physicality_required=False)
                except Exception as e:  # noqa
                    ctx.violate(f"C18/from_hk/{kind}/raises", f"{label}: {type(e).__name__}: {e}",
                                {"kind": "fromhk", "sys": label, "rot_seed": rot_seed, "H": arr(H), "K": arr(K)})
                    continue
                ctx.case(("or", label, kind, H.tobytes(), K.tobytes()), nontrivial=True,
                         sample={"sys": label, "K": kind, "scaleH": sH, "scaleK": sK})
                check_generator(ctx, label, rot_seed, c, B, L.hs, H, K, J, f"{wk}hk-{kind}", "hk", g)
                SL = max(float(np.abs(L.hs).max()), 1e-300)
                # from_k must be the H = 0 case, from_hjk with J_of_K the same generator
                try:
                    a = el.generate_hs_from_k(c, K)
                    b = el.generate_hs_from_hjk(c, H, J, K)
                    h0 = el.generate_hs_from_h(c, H)
                    if not near(a + h0, L.hs, 1e-8, ref=SL) or not near(b, L.hs, 1e-8, ref=SL):
                        ctx.violate(f"C18/builders_agree/{wk}{kind}", f"{label}: from_hk != from_h + from_k or != from_hjk(H, J(K), K)",
                                    {"kind": "fromhk", "sys": label, "rot_seed": rot_seed, "H": arr(H), "K": arr(K)})
                except Exception as e:  # noqa
                    ctx.violate(f"C18/builders_agree/{kind}/raises", f"{label}: {type(e).__name__}: {e}",
                                {"kind": "fromhk", "sys": label, "rot_seed": rot_seed, "H": arr(H), "K": arr(K)})
            # memory layouts of the arguments (Fortran order, transposed / strided views)
            Hl = herm(g, d, 1.0); Jl = herm(g, d, 1.0); Kl = rand_K(g, n - 1, K_KINDS[rep % 4], 1.0)
            ctx.count(f"oracle {label} argument memory layouts")
            ctx.case(("layout", label, Hl.tobytes(), Kl.tobytes()), nontrivial=True, sample={"op": "builders x memory layouts", "sys": label})
            check_layouts(ctx, label, rot_seed, c, Hl, Jl, Kl)
            if rep == 0:
                ctx.count(f"oracle {label} verdicts at explicit tolerances")
                ctx.case(("verdict-tol", label), nontrivial=True, sample={"op": "is_tp / is_cp / is_physical with explicit tolerances", "sys": label})
                check_verdict_tolerances(ctx, label, rot_seed, c, B, g)
            if rep == 0:
                ctx.count(f"oracle {label} non-default options / argument dtypes")
                ctx.case(("options", label), nontrivial=True, sample={"op": "builders x non-default options x dtypes", "sys": label})
                check_options_dtypes(ctx, label, rot_seed, c, B, g)
            # Hamiltonian-only generator (J = 0, K = 0): everything must hold exactly as stated
            H = herm(g, d, SCALES[rep % 4])
            Z = np.zeros((n - 1, n - 1), dtype=complex)
            L = el.generate_effective_lindbladian_from_h(c, H, is_physicality_required=False)
            ctx.count(f"oracle {label} hamiltonian-only")
            ctx.case(("or-h", label, H.tobytes()), nontrivial=True)
            check_generator(ctx, label, rot_seed, c, B, L.hs, H, Z, np.zeros((d, d), dtype=complex), "h-only", "hk", g)
            # dissipator whose J is traceless and has no basis[1] component: D12 is invisible, all clauses must hold
            if n - 1 >= 3:
                K = np.zeros((n - 1, n - 1), dtype=complex)
                # K = a (|e_p><e_q| + h.c.) chosen so that J ∝ B_q^† B_p + h.c. — test numerically for tracelessness
                for _ in range(20):
                    p_, q_ = int(g.integers(0, n - 1)), int(g.integers(0, n - 1))
                    if p_ == q_:
                        continue
                    K[:] = 0
                    K[p_, q_] = 0.5; K[q_, p_] = 0.5
                    Jt = J_of_K(B, K)
                    if abs(np.trace(Jt)) < 1e-12 and abs(np.trace(B[1].conj().T @ Jt)) < 1e-12:
                        break
                else:
                    K[:] = 0
                Jt = J_of_K(B, K)
                if np.abs(K).max() > 0 and abs(np.trace(Jt)) < 1e-12 and abs(np.trace(B[1].conj().T @ Jt)) < 1e-12:
                    L = el.generate_effective_lindbladian_from_hk(c, H, K, is_physicality_required=False)
                    ctx.count(f"oracle {label} traceless-J")
                    ctx.case(("or-tj", label, H.tobytes(), K.tobytes()), nontrivial=True)
                    check_generator(ctx, label, rot_seed, c, B, L.hs, H, K, Jt, "traceless-J", "hk", g)
            # generic (H, J, K) with J independent of K: not TP; extraction and parts must still hold
            Hj = herm(g, d, 1.0); Jj = herm(g, d, 1.0); Kj = rand_K(g, n - 1, K_KINDS[rep % 4], 1.0)
            try:
                hsj = el.generate_hs_from_hjk(c, Hj, Jj, Kj)
                ctx.count(f"oracle {label} hjk-generic")
                ctx.case(("or-hjk", label, Hj.tobytes(), Jj.tobytes(), Kj.tobytes()), nontrivial=True)
                check_generator(ctx, label, rot_seed, c, B, hsj, Hj, Kj, Jj, "hjk-generic", "hjk", g)
            except Exception as e:  # noqa
                ctx.violate("C18/from_hjk/raises", f"{label}: {type(e).__name__}: {e}",
                            {"kind": "fromhk", "sys": label, "rot_seed": rot_seed, "H": arr(Hj), "K": arr(Kj)})
            # the same at a weak strength, and weak Hermitian-projector jump operators (the correct GKSL case)
            w = WEAK[rep % len(WEAK)]
            Hj = herm(g, d, w); Jj = herm(g, d, w); Kj = rand_K(g, n - 1, K_KINDS[(rep + 1) % 4], w)
            try:
                hsj = el.generate_hs_from_hjk(c, Hj, Jj, Kj)
                ctx.count(f"oracle {label} hjk-generic weak strength={w:g}")
                ctx.case(("or-hjk", label, Hj.tobytes(), Jj.tobytes(), Kj.tobytes()), nontrivial=True)
                check_generator(ctx, label, rot_seed, c, B, hsj, Hj, Kj, Jj, "weak-hjk-generic", "hjk", g)
            except Exception as e:  # noqa
                ctx.violate("C18/from_hjk/weak/raises", f"{label}: {type(e).__name__}: {e}",
                            {"kind": "fromhk", "sys": label, "rot_seed": rot_seed, "H": arr(Hj), "K": arr(Kj)})
            u = qobj.rand_unitary(g, d)
            cs = [np.sqrt(w) * (u[:, [i]] @ u[:, [i]].conj().T) for i in range(int(g.integers(1, d + 1)))]
            ctx.count(f"oracle {label} jump projectors weak strength={w:g}")
            ctx.case(("or-jumpp-weak", label, cs[0].tobytes()), nontrivial=True)
            check_jump(ctx, label, rot_seed, c, B, cs, "weak-projector", g)
            # non-TP perturbation of a physical generator: verdict and equality projection
            K = rand_K(g, n - 1, "psd-full", 0.5)
            L = el.generate_effective_lindbladian_from_hk(c, H, K, is_physicality_required=False)
            hsb = L.hs.copy()
            hsb[0, int(g.integers(0, n))] += 1e-3
            cmb = coeff_matrix(B, hsb)
            Hb = None
            Lb = EL(c, hsb)
            ctx.count(f"oracle {label} non-TP")
            ctx.case(("or-ntp", label, hsb.tobytes()), nontrivial=True)
            if Lb.is_tp() or Lb.is_physical():
                ctx.violate("C18/is_tp/non-TP", f"{label}: generator with first-row entry 1e-3 judged TP",
                            {"kind": "hs", "sys": label, "rot_seed": rot_seed, "hs": arr(hsb)})
            P = Lb.calc_proj_eq_constraint()
            if np.any(P.hs[0] != 0) or np.any(P.hs[1:] != hsb[1:]) or not P.is_tp():
                ctx.violate("C18/proj_eq/non-TP", f"{label}: equality projection of a non-TP generator",
                            {"kind": "hs", "sys": label, "rot_seed": rot_seed, "hs": arr(hsb)})
            # nearest point: no TP generator is closer than the projection (random TP competitors)
            for _ in range(4):
                Y = hsb + dy(g, (n, n), 0.1); Y[0, :] = 0
                if np.linalg.norm(hsb - P.hs) > np.linalg.norm(hsb - Y) + 1e-12:
                    ctx.violate("C18/proj_eq/nearest", f"{label}: a TP generator closer than the equality projection exists",
                                {"kind": "hs", "sys": label, "rot_seed": rot_seed, "hs": arr(hsb)})
            # jump operators: generic (1..d^2 of them) and Hermitian projectors
            for m in sorted({1, int(g.integers(1, n + 1)), n}):
                cs = [dy(g, (d, d), 0.7) + 1j * dy(g, (d, d), 0.7) for _ in range(m)]
                ctx.count(f"oracle {label} jump generic m={m}")
                ctx.case(("or-jump", label, m, cs[0].tobytes()), nontrivial=True)
                check_jump(ctx, label, rot_seed, c, B, cs, "generic", g)
            u = qobj.rand_unitary(g, d)
            cs = [u[:, [i]] @ u[:, [i]].conj().T for i in range(int(g.integers(1, d + 1)))]
            ctx.count(f"oracle {label} jump projectors")
            ctx.case(("or-jumpp", label, cs[0].tobytes()), nontrivial=True)
            check_jump(ctx, label, rot_seed, c, B, cs, "projector", g)
    if volume == 1 or not getattr(ctx, "_typical_done", False):
        ctx._typical_done = True
        for label in (["qubit", "qutrit"] if ctx.quick else ["qubit", "qubit-rot", "qutrit", "2qubit"]):
            for base_kind, sh, sk in (("zero", 0.1, 0.1), ("physical", 1e-2, 1e-3), ("physical", 1.0, 1e-4)):
                seeds = [int(x) for x in g.integers(0, 2 ** 31, size=4)]
                ctx.count(f"oracle random generation setting {label}")
                ctx.case(("randset", label, base_kind, sh, sk, tuple(seeds)), nontrivial=True,
                         sample={"op": "RandomEffectiveLindbladianGenerationSetting", "sys": label, "base": base_kind, "calls": len(seeds)})
                check_random_setting(ctx, label, rot_seed, base_kind, sh, sk, seeds)
        check_pauli_helpers(ctx)
        for system, name, ids in typical_items(ctx):
            ctx.count(f"oracle typical Lindbladian {system}")
            ctx.case(("typical", system, name, tuple(ids)), nontrivial=(name != "identity"),
                     sample={"catalogue": "effective_lindbladian_typical", "system": system, "name": name, "ids": ids})
            check_typical(ctx, system, name, ids)


def typical_items(ctx):
    from quara.objects import gate_typical as GT
    items = [("1qubit", n, [0]) for n in GT.get_gate_names_1qubit()]
    items += [("2qubit", n, ids) for n in GT.get_gate_names_2qubit() for ids in ([0, 1], [1, 0])]
    if not ctx.quick:
        items += [("1qutrit", n, [0]) for n in GT.get_gate_names_1qutrit()]
    return items


def check_typical(ctx, system, name, ids):
    """catalogue Lindbladian `name` (effective_lindbladian_typical.py) with the given id order: generator of -i[H, .] for the
    catalogue Hamiltonian, extraction returns that Hamiltonian, no dissipator, exp(L) is the named gate"""
    from quara.objects import gate_typical as GT
    from quara.objects import effective_lindbladian_typical as LT
    from quara.objects.composite_system_typical import generate_composite_system
    mode, k = {"1qubit": ("qubit", 1), "2qubit": ("qubit", 2), "1qutrit": ("qutrit", 1)}[system]
    c = generate_composite_system(mode, k)
    dims = [c.dim] if k == 1 else [2] * k
    rep = {"kind": "typical", "system": system, "name": name, "ids": ids}
    fails = []

    def V(check, what):
        ctx.violate(f"C18/typical/{system}/{check}", f"{name} ids={ids}: {what}", rep); fails.append(check)
    try:
        B = basis_of(c)
        d = c.dim
        I = np.eye(d)
        H = np.asarray(_dense(LT.generate_hamiltonian_mat_from_gate_name(name, dims, ids)), dtype=complex)
        L = LT.generate_effective_lindbladian_from_gate_name(name, c, ids)
        Lm = np.asarray(_dense(LT.generate_effective_lindbladian_mat_from_gate_name(name, dims, ids)))
        refhs = hs_of_lcb(B, -1j * (np.kron(H, I) - np.kron(I, H.conj())))
        S = max(float(np.abs(refhs).max()), 1e-12)
        if np.abs(H - H.conj().T).max() > 1e-12:
            V("hamiltonian-not-hermitian", f"|H - H^dagger| = {np.abs(H - H.conj().T).max():.3g}")
        if not near(L.hs, refhs.real, 1e-9, ref=S) or np.abs(refhs.imag).max() > 1e-9 * S:
            V("gksl_action", f"generator differs from -i[H, .] of generate_hamiltonian_mat_from_gate_name by {np.abs(L.hs - refhs.real).max():.3g}")
        if not near(Lm, L.hs, 1e-12, ref=S):
            V("mat-vs-object", "generate_effective_lindbladian_mat_from_gate_name differs from the object's hs")
        h = L.calc_h_mat()
        Ht = H - np.trace(H) / d * I
        if not near(h, Ht, 1e-9, ref=S):
            V("calc_h_mat", f"calc_h_mat differs from the traceless part of the catalogue Hamiltonian by {np.abs(h - Ht).max():.3g}")
        kmat, jmat = L.calc_k_mat(), L.calc_j_mat()
        if np.abs(kmat).max() > 1e-9 * S or np.abs(jmat).max() > 1e-9 * S:
            V("dissipator-nonzero", f"purely Hamiltonian generator has |K| = {np.abs(kmat).max():.3g}, |J| = {np.abs(jmat).max():.3g}")
        if not (L.is_tp() and L.is_cp() and L.is_physical()):
            V("verdict", f"is_tp={L.is_tp()} is_cp={L.is_cp()} is_physical={L.is_physical()}")
        G = L.to_gate()
        gate = GT.generate_gate_from_gate_name(name, c, ids)
        U = expm(-1j * H)
        hsU = np.array([[np.trace(a.conj().T @ U @ b @ U.conj().T) for b in B] for a in B])
        if not near(G.hs, np.asarray(gate.hs), 1e-9):
            V("to_gate-vs-named-gate", f"to_gate().hs differs from generate_gate_from_gate_name by {np.abs(G.hs - gate.hs).max():.3g}")
        if not near(G.hs, hsU.real, 1e-9):
            V("to_gate-vs-exp-hamiltonian", f"to_gate().hs differs from the HS matrix of exp(-iH) by {np.abs(G.hs - hsU.real).max():.3g}")
    except Exception as e:  # noqa
        V("raises", f"{type(e).__name__}: {e}")
    return fails


PAULI = {"i": np.eye(2, dtype=complex), "x": np.array([[0, 1], [1, 0]], dtype=complex),
         "y": np.array([[0, -1j], [1j, 0]], dtype=complex), "z": np.array([[1, 0], [0, -1]], dtype=complex)}


def check_pauli_helpers(ctx):
    """building blocks of the catalogue Lindbladians (effective_lindbladian_typical.py): the single-qubit maps
    A -> HA + AH and A -> -i[H, A] for H in {I, X, Y, Z} and the 2-qubit generator of every one of the 16 Pauli-product
    Hamiltonians, each against its definition evaluated in numpy; and the same generators through the generic builder"""
    from quara.objects import effective_lindbladian_typical as LT
    from quara.objects.composite_system_typical import generate_composite_system
    n0 = len(ctx.violations)
    c1, c2 = generate_composite_system("qubit", 1), generate_composite_system("qubit", 2)
    B1, B2 = basis_of(c1), basis_of(c2)
    for p_, P in PAULI.items():
        rep = {"kind": "pauli", "which": p_}
        try:
            comm = np.asarray(getattr(LT, f"calc_hs_commutator_map_{p_}")())
            anti = np.asarray(getattr(LT, f"calc_hs_minus1j_anticommutator_map_{p_}")())
            ref_c = np.array([[np.trace(a.conj().T @ (P @ b + b @ P)) for b in B1] for a in B1])
            ref_a = np.array([[np.trace(a.conj().T @ ((-1j) * (P @ b - b @ P))) for b in B1] for a in B1])
            if not near(comm, ref_c.real, 1e-12) or np.abs(ref_c.imag).max() > 1e-12:
                ctx.violate("C18/typical/pauli-helper/HA+AH", f"calc_hs_commutator_map_{p_} is not the HS matrix of A -> HA + AH for H = {p_.upper()}", rep)
            if not near(anti, ref_a.real, 1e-12) or np.abs(ref_a.imag).max() > 1e-12:
                ctx.violate("C18/typical/pauli-helper/-i[H,A]", f"calc_hs_minus1j_anticommutator_map_{p_} is not the HS matrix of A -> -i[H, A] for H = {p_.upper()}", rep)
        except Exception as e:  # noqa
            ctx.violate("C18/typical/pauli-helper/raises", f"{p_}: {type(e).__name__}: {e}", rep)
    I4 = np.eye(4)
    for p0 in "ixyz":
        for p1 in "ixyz":
            pt = p0 + p1
            rep = {"kind": "pauli", "which": pt}
            ctx.count("oracle typical Pauli-product generators")
            ctx.case(("pauli2", pt), nontrivial=(pt != "ii"), sample={"op": "calc_effective_lindbladian_mat_for_2qubit_hamiltonian_pauli", "pauli_type": pt})
            try:
                H = np.kron(PAULI[p0], PAULI[p1])
                ref = hs_of_lcb(B2, -1j * (np.kron(H, I4) - np.kron(I4, H.conj()))).real
                m = np.asarray(LT.calc_effective_lindbladian_mat_for_2qubit_hamiltonian_pauli(pt))
                if not near(m, ref, 1e-12):
                    what = "the generator of -H" if near(m, -ref, 1e-12) else f"off by {np.abs(m - ref).max():.3g}"
                    ctx.violate("C18/typical/pauli-helper/2qubit_hamiltonian_pauli",
                                f"calc_effective_lindbladian_mat_for_2qubit_hamiltonian_pauli('{pt}') is not -i[H,.] for H = {pt.upper()} ({what})", rep)
                g_ = el.generate_hs_from_h(c2, H)
                if not near(g_, ref, 1e-12):
                    ctx.violate("C18/typical/pauli-helper/generate_hs_from_h", f"generate_hs_from_h(H = {pt.upper()}) is not -i[H,.]", rep)
            except Exception as e:  # noqa
                ctx.violate("C18/typical/pauli-helper/raises", f"{pt}: {type(e).__name__}: {e}", rep)
    return len(ctx.violations) - n0


def layouts(A):
    """the same matrix in several memory layouts (all equal as arrays)"""
    A = np.ascontiguousarray(A)
    big = np.zeros((2 * A.shape[0], 2 * A.shape[1]), dtype=A.dtype)
    big[::2, ::2] = A
    return {"C": A, "F": np.asfortranarray(A), "transposed-view": np.ascontiguousarray(A.T).T,
            "strided-view": big[::2, ::2], "conj-conj": A.conj().conj()}


def check_layouts(ctx, label, rot_seed, c, H, J, K):
    """the builders must not depend on the memory layout of their (equal) arguments"""
    n0 = len(ctx.violations)
    rep = {"kind": "layout", "sys": label, "rot_seed": rot_seed, "H": arr(H), "J": arr(J), "K": arr(K)}
    try:
        ref = {"from_hk": el.generate_hs_from_hk(c, H, K), "from_k": el.generate_hs_from_k(c, K),
               "from_hjk": el.generate_hs_from_hjk(c, H, J, K), "from_h": el.generate_hs_from_h(c, H),
               "j_from_k": el._calc_j_mat_from_k_mat(K, c)}
    except Exception as e:  # noqa
        ctx.violate("C18/layout/reference/raises", f"{label}: {type(e).__name__}: {e}", rep)
        return 1
    S = max(float(np.abs(ref["from_hjk"]).max()), 1e-300)
    LH, LJ, LK = layouts(H), layouts(J), layouts(K)
    for lay in ("F", "transposed-view", "strided-view", "conj-conj"):
        calls = {"from_hk": lambda: el.generate_hs_from_hk(c, LH[lay], LK[lay]), "from_k": lambda: el.generate_hs_from_k(c, LK[lay]),
                 "from_hjk": lambda: el.generate_hs_from_hjk(c, LH[lay], LJ[lay], LK[lay]), "from_h": lambda: el.generate_hs_from_h(c, LH[lay]),
                 "j_from_k": lambda: el._calc_j_mat_from_k_mat(LK[lay], c)}
        for nm, fn in calls.items():
            try:
                got = fn()
            except Exception as e:  # noqa
                ctx.violate(f"C18/layout/{nm}/raises", f"{label}: arguments in layout '{lay}' (equal to the C-contiguous ones): {type(e).__name__}: {str(e)[:120]}", dict(rep, layout=lay))
                continue
            if not near(got, ref[nm], 1e-12, ref=S):
                ctx.violate(f"C18/layout/{nm}", f"{label}: result for arguments in layout '{lay}' differs from the C-contiguous result by {np.abs(got - ref[nm]).max():.3g}", dict(rep, layout=lay))
    return len(ctx.violations) - n0


NONDEFAULT = dict(is_physicality_required=False, is_estimation_object=False, on_para_eq_constraint=False,
                  on_algo_eq_constraint=False, on_algo_ineq_constraint=False, mode_proj_order="ineq_eq",
                  eps_proj_physical=1e-3, eps_truncate_imaginary_part=1e-9)


def check_options_dtypes(ctx, label, rot_seed, c, B, g):
    """(a) every builder called with NON-DEFAULT constructor options: each option must land in the attribute of the same
    name, the generator must be the one built with default options, and the Hermitian-basis parts must still sum to it;
    (b) the same arguments in other dtypes (real float64 / integer H, K; jump-operator lists mixing real, integer and
    complex arrays in any order) must give the same generator as their complex128 copies."""
    d = c.dim
    n = d * d
    n0 = len(ctx.violations)
    H = herm(g, d, 1.0); J = herm(g, d, 1.0); K = rand_K(g, n - 1, "psd-full", 1.0)
    cs = [dy(g, (d, d), 0.7) + 1j * dy(g, (d, d), 0.7) for _ in range(2)]
    rep = {"kind": "options", "sys": label, "rot_seed": rot_seed, "H": arr(H), "J": arr(J), "K": arr(K), "cs": [arr(x) for x in cs]}
    builders = {
        "from_h": lambda **kw: el.generate_effective_lindbladian_from_h(c, H, **kw),
        "from_hk": lambda **kw: el.generate_effective_lindbladian_from_hk(c, H, K, **kw),
        "from_k": lambda **kw: el.generate_effective_lindbladian_from_k(c, K, **kw),
        "from_hjk": lambda **kw: el.generate_effective_lindbladian_from_hjk(c, H, J, K, **kw),
        "from_jump_operators": lambda **kw: el.generate_effective_lindbladian_from_jump_operators(c, cs, **kw),
    }
    for nm, fn in builders.items():
        try:
            L0 = fn(is_physicality_required=False)
            L1 = fn(**NONDEFAULT)
        except Exception as e:  # noqa
            ctx.violate(f"C18/options/{nm}/raises", f"{label}: {type(e).__name__}: {str(e)[:150]}", rep); continue
        S = max(float(np.abs(L0.hs).max()), 1e-300)
        for k_, v in NONDEFAULT.items():
            got = getattr(L1, k_)
            if got != v:
                ctx.violate(f"C18/options/{nm}/attribute", f"{label}: generate_effective_lindbladian_{nm}(..., {k_}={v!r}) built an object with {k_}={got!r}", rep)
                break
        if not near(L1.hs, L0.hs, 1e-12, ref=S):
            ctx.violate(f"C18/options/{nm}/hs", f"{label}: the generator depends on the constructor options (diff {np.abs(L1.hs - L0.hs).max():.3g})", rep)
        try:
            for mode, whole in (("hermitian_basis", L1.hs), ("comp_basis", lcb_of_hs(B, L1.hs))):
                dsum = L1.calc_j_part(mode) + L1.calc_k_part(mode)
                s_ = L1.calc_h_part(mode) + dsum
                if not near(s_, whole, 1e-8, ref=S) or not near(L1.calc_d_part(mode), dsum, 1e-8, ref=S):
                    ctx.violate(f"C18/options/{nm}/parts_sum/{mode}", f"{label}: with non-default options the h+j+k parts differ from the whole by {np.abs(s_ - whole).max():.3g}", rep)
            G = L1.to_gate()
            if G.eps_proj_physical != NONDEFAULT["eps_proj_physical"] or G.mode_proj_order != NONDEFAULT["mode_proj_order"] \
                    or not near(G.hs, expm(L1.hs), 1e-9):
                ctx.violate(f"C18/options/{nm}/to_gate", f"{label}: to_gate() of an object with non-default options lost them or is not expm(hs)", rep)
        except Exception as e:  # noqa
            ctx.violate(f"C18/options/{nm}/parts/raises", f"{label}: {type(e).__name__}: {str(e)[:150]}", rep)
    # ---- dtypes
    Hr = np.round(herm(g, d, 4.0).real); Hr = (Hr + Hr.T) / 2 * 2          # integer-valued symmetric
    Kr = psd(g, n - 1, n - 1, 1.0).real; Kr = (Kr + Kr.T) / 2
    variants = {"float64": (Hr.astype(np.float64), Kr.astype(np.float64)), "int64-H": (Hr.astype(np.int64), Kr.astype(np.float64)),
                "float32-K": (Hr.astype(np.float64), Kr.astype(np.float32).astype(np.float64))}
    try:
        for vn, (h_, k_) in variants.items():
            ref = el.generate_hs_from_hk(c, h_.astype(np.complex128), k_.astype(np.complex128))
            got = el.generate_hs_from_hk(c, h_, k_)
            if not near(got, ref, 1e-12, ref=max(float(np.abs(ref).max()), 1e-300)):
                ctx.violate("C18/dtype/from_hk", f"{label}: H, K given as {vn} give a generator differing by {np.abs(got - ref).max():.3g} from their complex128 copies", dict(rep, variant=vn))
    except Exception as e:  # noqa
        ctx.violate("C18/dtype/from_hk/raises", f"{label}: {type(e).__name__}: {str(e)[:150]}", rep)
    real_op = np.round(dy(g, (d, d), 2.0))
    mixes = {"real-first": [real_op.astype(np.float64), cs[0], real_op.astype(np.int64)], "complex-first": [cs[0], real_op.astype(np.float64)],
             "int-first": [real_op.astype(np.int64), cs[1]], "all-real": [real_op.astype(np.float64), np.eye(d)]}
    for mn, ops in mixes.items():
        snap = [o.copy() for o in ops]
        ref_ops = [o.astype(np.complex128) for o in ops]
        for fn_name in ("generate_k_part_cb_from_jump_operators", "generate_j_part_cb_from_jump_operators", "generate_d_part_cb_from_jump_operators"):
            try:
                got, ref = getattr(el, fn_name)(ops), getattr(el, fn_name)(ref_ops)
                if not near(got, ref, 1e-12, ref=max(float(np.abs(ref).max()), 1e-300)):
                    ctx.violate(f"C18/dtype/{fn_name}", f"{label}: jump operators with dtypes {[str(o.dtype) for o in ops]} give a result differing by {np.abs(got - ref).max():.3g} from their complex128 copies", dict(rep, mix=mn))
            except Exception as e:  # noqa
                ctx.violate(f"C18/dtype/{fn_name}/raises", f"{label}: jump operators with dtypes {[str(o.dtype) for o in ops]}: {type(e).__name__}: {str(e)[:120]}", dict(rep, mix=mn))
        try:
            Lg = el.generate_effective_lindbladian_from_jump_operators(c, ops, is_physicality_required=False)
            Lr = el.generate_effective_lindbladian_from_jump_operators(c, ref_ops, is_physicality_required=False)
            if not near(Lg.hs, Lr.hs, 1e-12, ref=max(float(np.abs(Lr.hs).max()), 1e-300)):
                ctx.violate("C18/dtype/from_jump_operators", f"{label}: dtypes {[str(o.dtype) for o in ops]}: generator differs from the complex128 one", dict(rep, mix=mn))
        except Exception as e:  # noqa
            ctx.violate("C18/dtype/from_jump_operators/raises", f"{label}: dtypes {[str(o.dtype) for o in ops]}: {type(e).__name__}: {str(e)[:120]}", dict(rep, mix=mn))
        if any(not np.array_equal(a_, b_) or a_.dtype != b_.dtype for a_, b_ in zip(ops, snap)):
            ctx.violate("C18/dtype/jump/mutates", f"{label}: the jump-operator builders modified their arguments", dict(rep, mix=mn))
    return len(ctx.violations) - n0


def check_verdict_tolerances(ctx, label, rot_seed, c, B, g):
    """verdicts with EXPLICIT tolerances: generators that miss one constraint by a controlled amount (first-row entry
    `v`, or smallest eigenvalue of K equal to `-v`, v = 1e-9) judged at tolerances 1e-13 and 1e-6, alone and in all four
    combinations of `is_physical(atol_eq_const, atol_ineq_const)`; expectation: |row0| <= atol_eq and min eig K >= -atol_ineq."""
    d = c.dim
    n = d * d
    n0 = len(ctx.violations)
    v = 1e-9
    H = herm(g, d, 1.0)
    u = qobj.rand_unitary(g, n - 1)
    ev = np.linspace(1.0, 0.5, n - 1)
    Kpos = (u * ev) @ u.conj().T
    ev2 = ev.copy(); ev2[-1] = -v
    Kneg = (u * ev2) @ u.conj().T
    Kpos = (Kpos + Kpos.conj().T) / 2; Kneg = (Kneg + Kneg.conj().T) / 2
    hs_ok = el.generate_hs_from_hk(c, H, Kpos)
    hs_row = hs_ok.copy(); hs_row[0, n - 1] += v
    hs_k = el.generate_hs_from_hk(c, H, Kneg)
    hs_both = hs_k.copy(); hs_both[0, 1] -= v
    for nm, hsx, row_dev, k_dev in (("physical", hs_ok, 0.0, 0.0), ("row0-1e-9", hs_row, v, 0.0), ("K-1e-9", hs_k, 0.0, v), ("both-1e-9", hs_both, v, v)):
        rep = {"kind": "verdict-tol", "sys": label, "rot_seed": rot_seed, "hs": arr(hsx), "case": nm}
        try:
            L = EL(c, hsx)
            for a in (1e-13, 1e-6):
                if bool(L.is_tp(a)) != (row_dev <= a):
                    ctx.violate("C18/verdict-tolerance/is_tp", f"{label} {nm}: is_tp(atol={a:g}) = {L.is_tp(a)} with |first row| = {row_dev:g}", rep)
                if bool(L.is_cp(a)) != (k_dev <= a):
                    ctx.violate("C18/verdict-tolerance/is_cp", f"{label} {nm}: is_cp(atol={a:g}) = {L.is_cp(a)} with min eig K = {-k_dev:g}", rep)
            for a in (1e-13, 1e-6):
                for b_ in (1e-13, 1e-6):
                    want = (row_dev <= a) and (k_dev <= b_)
                    got = bool(L.is_physical(atol_eq_const=a, atol_ineq_const=b_))
                    got_pos = bool(L.is_physical(a, b_))
                    if got != want or got_pos != want:
                        ctx.violate("C18/verdict-tolerance/is_physical", f"{label} {nm}: is_physical(atol_eq_const={a:g}, atol_ineq_const={b_:g}) = {got} (positional {got_pos}), expected {want}: |first row| = {row_dev:g}, min eig K = {-k_dev:g}", rep)
        except Exception as e:  # noqa
            ctx.violate("C18/verdict-tolerance/raises", f"{label} {nm}: {type(e).__name__}: {str(e)[:120]}", rep)
    return len(ctx.violations) - n0


def check_random_setting(ctx, label, rot_seed, base_kind, sh, sk, seeds):
    """RandomEffectiveLindbladianGenerationSetting: >= 3 successive generate() calls on ONE setting; each result must be
    base (snapshot taken BEFORE the first call) + GKSL(H_random, K_random) rebuilt independently from the returned random
    variables, the base generator held by the setting must stay bit-identical, results must not alias it, and an integer
    seed must reproduce."""
    from quara.simulation.random_effective_lindbladian_generation_setting import RandomEffectiveLindbladianGenerationSetting
    from quara.objects.gate import Gate
    c = sys_by_label(label, rot_seed)
    B = basis_of(c)
    d = c.dim
    n = d * d
    rep = {"kind": "randset", "sys": label, "rot_seed": rot_seed, "base": base_kind, "sh": sh, "sk": sk, "seeds": list(seeds)}
    fails = []

    def V(check, what):
        ctx.violate(f"C18/random_setting/{check}", f"{label} base={base_kind} strengths=({sh:g},{sk:g}): {what}", rep)
        fails.append(check)
    try:
        gb = np.random.Generator(np.random.PCG64(rot_seed + 5))
        if base_kind == "zero":
            base_hs = np.zeros((n, n))
        else:                      # a physical non-trivial base generator
            base_hs = el.generate_hs_from_hk(c, herm(gb, d, 0.5), psd(gb, n - 1, 2, 0.25))
        base = EL(c, base_hs.copy(), is_physicality_required=True)
        gate0 = Gate(c, np.eye(n))
        setting = RandomEffectiveLindbladianGenerationSetting(c, gate0, base, sh, sk)
        saved = np.array(setting.lindbladian_base.hs, dtype=np.float64, copy=True)
        S = max(float(np.abs(saved).max()), sh, sk, 1e-300)
        results = []
        for it, sd in enumerate(seeds):
            out = setting.generate_random_effective_lindbladian(sd)
            L, rv_h, rv_k, U, rand_gb = out
            hvec = sh * rv_h / np.sqrt(np.sum(rv_h ** 2))
            kvec = np.abs(sk * rv_k / np.sqrt(np.sum(rv_k ** 2)))
            H = sum(hvec[a] * B[a + 1] for a in range(n - 1))
            K = U @ np.diag(kvec) @ U.conj().T
            ref_rand = hs_of_lcb(B, lcb_gksl(B, H, K)).real
            ref = saved + ref_rand
            if not near(L.hs, ref, 1e-9, ref=S):
                V("call-%s" % ("first" if it == 0 else "later"),
                  f"generate() call #{it + 1} (seed {sd}) differs from base + GKSL(H_random, K_random) by {np.abs(L.hs - ref).max():.3g}")
            if not near(rand_gb, ref_rand, 1e-9, ref=S):
                V("random-part", f"returned random generator (call #{it + 1}) differs from GKSL(H_random, K_random) by {np.abs(rand_gb - ref_rand).max():.3g}")
            if not np.array_equal(setting.lindbladian_base.hs, saved):
                V("base-mutated", f"lindbladian_base.hs changed by {np.abs(setting.lindbladian_base.hs - saved).max():.3g} after generate() call #{it + 1}")
            if np.shares_memory(L.hs, setting.lindbladian_base.hs):
                V("aliases-base", f"result of call #{it + 1} shares memory with lindbladian_base.hs")
            if not (L.is_tp() and L.is_cp()):
                V("not-physical", f"call #{it + 1}: is_tp={L.is_tp()} is_cp={L.is_cp()}")
            results.append(np.array(L.hs, copy=True))
        if not fails:
            again = setting.generate_random_effective_lindbladian(seeds[0])[0]
            if not near(again.hs, results[0], 1e-12, ref=S):
                V("seed-not-reproducible", f"same integer seed {seeds[0]} gives a generator differing by {np.abs(again.hs - results[0]).max():.3g} on a later call")
            G = setting.generate_gate(seeds[1])[0]
            if not near(G.hs, expm(results[1]), 1e-9):
                V("generate_gate", f"generate_gate(seed) differs from expm(generator of the same seed) composed with the identity base by {np.abs(G.hs - expm(results[1])).max():.3g}")
    except Exception as e:  # noqa
        V("raises", f"{type(e).__name__}: {e}")
    return fails


def search(ctx):
    oracle(ctx, volume=3)


# ----------------------------------------------------------------------------- replay
def replay(ctx, data):
    r = data["replay"]
    sig = data.get("signature", "")
    print("replaying", sig, "on", r.get("sys") or r.get("system"))
    if r["kind"] == "pauli":
        k = check_pauli_helpers(ctx)
        for v in ctx.violations:
            print("  still failing:", v["signature"], "-", v["what"])
        return 1 if k else 0
    if r["kind"] == "layout":
        c = sys_by_label(r["sys"], r["rot_seed"])
        k = check_layouts(ctx, r["sys"], r["rot_seed"], c, unarr(r["H"]), unarr(r["J"]), unarr(r["K"]))
        for v in ctx.violations:
            print("  still failing:", v["signature"], "-", v["what"])
        return 1 if k else 0
    if r["kind"] == "verdict-tol":
        c = sys_by_label(r["sys"], r["rot_seed"])
        k = check_verdict_tolerances(ctx, r["sys"], r["rot_seed"], c, basis_of(c), ctx.npgen(8))
        for v_ in ctx.violations:
            print("  still failing:", v_["signature"], "-", v_["what"])
        return 1 if k else 0
    if r["kind"] == "options":
        c = sys_by_label(r["sys"], r["rot_seed"])
        k = check_options_dtypes(ctx, r["sys"], r["rot_seed"], c, basis_of(c), ctx.npgen(7))
        for v in ctx.violations:
            print("  still failing:", v["signature"], "-", v["what"])
        return 1 if k else 0
    if r["kind"] == "randset":
        f = check_random_setting(ctx, r["sys"], r["rot_seed"], r["base"], r["sh"], r["sk"], r["seeds"])
        for v in ctx.violations:
            print("  still failing:", v["signature"], "-", v["what"])
        return 1 if f else 0
    if r["kind"] == "typical":
        f = check_typical(ctx, r["system"], r["name"], r["ids"])
        for v in ctx.violations:
            print("  still failing:", v["signature"], "-", v["what"])
        return 1 if f else 0
    c = sys_by_label(r["sys"], r.get("rot_seed", 17))
    B = basis_of(c)
    g = ctx.npgen(99)
    before = len(ctx.violations)
    if r["kind"] == "gen":
        hs = unarr(r["hs"]); H = unarr(r["H"]); K = unarr(r["K"]); J = unarr(r["J"])
        L = EL(c, hs)
        print("H =\n", H, "\nK =\n", K)
        print("calc_j_mat =\n", L.calc_j_mat(), "\nJ (reference) =\n", J)
        s = L.calc_h_part() + L.calc_j_part() + L.calc_k_part()
        print("max |h+j+k parts - hs| =", np.abs(s - L.hs).max())
        check_generator(ctx, r["sys"], r.get("rot_seed", 17), c, B, hs, H, K, J, r["family"], r["tag"], g)
    elif r["kind"] == "jump":
        cs = [unarr(x) for x in r["cs"]]
        L = el.generate_effective_lindbladian_from_jump_operators(c, cs, is_physicality_required=False)
        rho = np.eye(c.dim) / c.dim
        out = qobj.mat_of(c, L.hs @ qobj.vec_of(c, rho))
        ref = sum(x @ rho @ x.conj().T - 0.5 * (x.conj().T @ x @ rho + rho @ x.conj().T @ x) for x in cs)
        print("L(1/d) implementation =\n", out, "\nGKSL reference =\n", ref, "\nis_tp", L.is_tp())
        check_jump(ctx, r["sys"], r.get("rot_seed", 17), c, B, cs, r["family"], g)
    elif r["kind"] == "typical":
        f = check_typical(ctx, r["system"], r["name"], r["ids"])
        for v in ctx.violations[before:]:
            print("  still failing:", v["signature"], "-", v["what"])
        return 1 if f else 0
    elif r["kind"] == "hs":
        hs = unarr(r["hs"])
        L = EL(c, hs)
        P = L.calc_proj_eq_constraint()
        print("first row", L.hs[0], "is_tp", L.is_tp(), "projected first row", P.hs[0])
        return 1 if (L.is_tp() or np.any(P.hs[0] != 0) or np.any(P.hs[1:] != hs[1:])) else 0
    elif r["kind"] == "fromhk":
        H = unarr(r["H"]); K = unarr(r["K"])
        try:
            L = el.generate_effective_lindbladian_from_hk(c, H, K, is_physicality_required=False)
            a = el.generate_hs_from_k(c, K) + el.generate_hs_from_h(c, H)
            print("max |from_hk - (from_h + from_k)| =", np.abs(a - L.hs).max())
            return 1 if np.abs(a - L.hs).max() > 1e-8 else 0
        except Exception as e:  # noqa
            print("raises", type(e).__name__, e)
            return 1
    new = [v for v in ctx.violations[before:]]
    for v in new:
        print("  still failing:", v["signature"], "-", v["what"])
    return 1 if any(v["signature"] == sig for v in new) or (new and not sig) else 0
